"""coverage_probe.py <ID> [max_cases]  |  coverage_probe.py --report
Generator-quality probe (NOT a check): runs the quick-tier cases of one property in-process under
coverage.py and records which lines of /repo/AutoCarver the implementation runs execute
(.scratch/cov/<ID>.json).  --report prints, per source file, the executable lines no property's
cases reach: blind spots where a seeded change cannot be noticed by any correspondence run."""
import json
import os
import random
import sys

HERE = os.path.dirname(os.path.abspath(__file__))
sys.path.insert(0, HERE)
import common as C  # noqa: E402

OUT = os.path.join(C.VERIF, ".scratch", "cov")


def probe(pid, max_cases):
    import coverage
    import importlib
    prop = importlib.import_module(f"props.{pid.lower()}").PROP
    rng = random.Random(0 * 1000003 + sum(map(ord, pid)))
    cases = prop.corpus() + prop.generate(rng, "quick")
    if len(cases) > max_cases:
        step = len(cases) / max_cases
        cases = [cases[int(i * step)] for i in range(max_cases)]
    cov = coverage.Coverage(data_file=None, include=[os.path.join(C.REPO, "AutoCarver", "*")], branch=False)
    cov.start()
    n_err = 0
    for c in cases:
        o = C._worker((prop.run_impl, c))
        if isinstance(o, dict) and "harness_error" in o:
            n_err += 1
    cov.stop()
    data = cov.get_data()
    res = {}
    for f in data.measured_files():
        res[os.path.relpath(f, C.REPO)] = sorted(data.lines(f))
    os.makedirs(OUT, exist_ok=True)
    json.dump({"pid": pid, "cases": len(cases), "harness_errors": n_err, "lines": res},
              open(os.path.join(OUT, f"{pid}.json"), "w"))
    print(pid, "cases", len(cases), "files", len(res), "harness_errors", n_err)


def report():
    import coverage
    from coverage.python import PythonFileReporter
    hit = {}
    per = {}
    for fn in sorted(os.listdir(OUT)):
        d = json.load(open(os.path.join(OUT, fn)))
        for f, ls in d["lines"].items():
            hit.setdefault(f, set()).update(ls)
            per.setdefault(f, {})[d["pid"]] = len(ls)
    cov = coverage.Coverage(data_file=None)
    total_missed = 0
    for root, _, files in os.walk(os.path.join(C.REPO, "AutoCarver")):
        for name in sorted(files):
            if not name.endswith(".py"):
                continue
            path = os.path.join(root, name)
            rel = os.path.relpath(path, C.REPO)
            rep = PythonFileReporter(path, cov)
            stmts = rep.lines() - rep.excluded_lines()
            missed = sorted(stmts - hit.get(rel, set()))
            src = open(path).read().splitlines()
            print(f"== {rel}: {len(stmts)} statements, {len(missed)} never executed by any check")
            total_missed += len(missed)
            for ln in missed:
                print(f"   {ln:5d}  {src[ln - 1].rstrip()[:130]}")
    print("total never-executed statements:", total_missed)


if __name__ == "__main__":
    if sys.argv[1] == "--report":
        report()
    else:
        probe(sys.argv[1].upper(), int(sys.argv[2]) if len(sys.argv) > 2 else 150)
