#!/bin/bash
# usage: seed_eval.sh <seed_dir containing patch.diff + demo.py> <CHECK_ID> [more check ids]
# applies the patch in a scratch worktree of /repo's HEAD, confirms demo fails there and passes on HEAD,
# runs the named checks (quick) against it and prints a one-line verdict per check.
S=$1; shift
W=/tmp/sw_$$
git -C /repo worktree add -f $W HEAD >/dev/null 2>&1 || exit 9
if ! git -C $W apply $S/patch.diff 2>/tmp/sw_apply_$$.log; then echo "PATCH DOES NOT APPLY: $(head -2 /tmp/sw_apply_$$.log)"; git -C /repo worktree remove --force $W; exit 8; fi
PYTHONPATH=/repo /venv/bin/python -W ignore $S/demo.py >/tmp/sw_demo0_$$.log 2>&1; d0=$?
PYTHONPATH=$W /venv/bin/python -W ignore $S/demo.py >/tmp/sw_demo1_$$.log 2>&1; d1=$?
echo "demo on HEAD: exit $d0 ; demo on patched: exit $d1"
for id in "$@"; do
  out=$(cd /verif && VERIF_REPO=$W timeout 1800 ./check $id quick 2>&1); rc=$?
  echo "check $id: exit $rc | $(echo "$out" | grep -c '^VIOLATION') violation lines | $(echo "$out" | grep '^VIOLATION' | head -1) | $(echo "$out" | tail -1)"
  f=$(echo "$out" | grep '^VIOLATION' | head -1 | sed 's/.*replay=\([^ ]*\).*/\1/'); [ -n "$f" ] && [ -f "$f" ] && python3 -c "
import json,sys; d=json.load(open('$f')); print('   why:', str(d.get('why', d.get('broken')))[:300])"
done
git -C /repo worktree remove --force $W
