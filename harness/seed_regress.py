"""seed_regress.py [lanes]  — re-applies EVERY kept seeded change (seeded/<id>/patch.diff) in a scratch worktree of
/repo HEAD and runs the check(s) recorded in its meta.json (`detected_by`) against it; reports the seeds that are
no longer caught (or whose patch no longer applies / whose demo no longer discriminates).  Lanes are keyed by check
id so that one check id never runs twice at the same time.  Not a registered check: a maintenance tool.
Writes /verif/.scratch/seed_regress.json and prints one line per seed."""
import json
import os
import subprocess
import sys
from concurrent.futures import ThreadPoolExecutor

V = os.path.dirname(os.path.dirname(os.path.abspath(__file__)))


def sh(cmd, **kw):
    return subprocess.run(cmd, shell=True, capture_output=True, text=True, **kw)


def eval_seed(sid, checks):
    d = os.path.join(V, "seeded", sid)
    w = f"/tmp/sr_{os.getpid()}_{abs(hash(sid)) % 10**8}"
    res = {"seed": sid, "checks": {}, "applies": True}
    sh(f"git -C /repo worktree add -f {w} HEAD")
    try:
        a = sh(f"git -C {w} apply {d}/patch.diff")
        if a.returncode != 0:
            res["applies"] = False
            res["apply_error"] = a.stderr[:200]
            return res
        d0 = sh(f"PYTHONPATH=/repo /venv/bin/python -W ignore {d}/demo.py").returncode
        d1 = sh(f"PYTHONPATH={w} /venv/bin/python -W ignore {d}/demo.py").returncode
        res["demo_head"], res["demo_patched"] = d0, d1
        for c in checks:
            r = sh(f"cd {V} && VERIF_REPO={w} timeout 1800 ./check {c} quick")
            nv = sum(1 for l in r.stdout.splitlines() if l.startswith("VIOLATION"))
            res["checks"][c] = {"exit": r.returncode, "violations": nv,
                                "no_failing_input": "no-failing-input-found" in r.stdout}
    finally:
        sh(f"git -C /repo worktree remove --force {w}")
    return res


def main():
    lanes = int(sys.argv[1]) if len(sys.argv) > 1 else 4
    only = sys.argv[2:]  # optional list of check ids to restrict to
    by_check = {}
    for sid in sorted(os.listdir(os.path.join(V, "seeded"))):
        m = json.load(open(os.path.join(V, "seeded", sid, "meta.json")))
        det = m["detected_by"]
        own = m["property"]
        if det == ["none"]:
            print(f"NOT-CAUGHT(documented exclusion) {sid}", flush=True)
            continue
        primary = own if own in det else det[0]
        if only and primary not in only:
            continue
        by_check.setdefault(primary, []).append((sid, [primary]))
    results = []

    def lane(check):
        out = []
        for sid, checks in by_check[check]:
            r = eval_seed(sid, checks)
            c = r["checks"].get(check, {})
            caught = c.get("exit") == 1 and c.get("violations", 0) > 0
            status = "CAUGHT" if caught else ("PATCH-DOES-NOT-APPLY" if not r["applies"] else "MISSED")
            if caught and c.get("no_failing_input"):
                status += "(no-failing-input)"
            print(f"{status:8s} {sid} by {check} demo(head,patched)=({r.get('demo_head')},{r.get('demo_patched')})",
                  flush=True)
            out.append(r)
        return out

    with ThreadPoolExecutor(max_workers=lanes) as ex:
        for rs in ex.map(lane, sorted(by_check)):
            results += rs
    os.makedirs(os.path.join(V, ".scratch"), exist_ok=True)
    json.dump(results, open(os.path.join(V, ".scratch", "seed_regress.json"), "w"), indent=1)
    bad = [r["seed"] for r in results
           if not r["applies"] or not any(c.get("exit") == 1 and c.get("violations", 0) > 0 for c in r["checks"].values())]
    print(f"{len(results)} seeds, {len(bad)} not caught:", bad)


if __name__ == "__main__":
    main()
