"""Regenerates /verif/MANIFEST.json from the table below (keeps it valid at all times)."""
import json, os
VERIF = os.path.dirname(os.path.dirname(os.path.abspath(__file__)))
props = [json.loads(l) for l in open(os.path.join(VERIF, "properties.jsonl"))]
ids = [p["id"] for p in props]

CLAIMED = {
 "C13": dict(
   text="Machine-checked proof (Coq 8.16.1) over an executable Gallina model of GroupedList that keeps "
        "list and content dict separate: the well-formedness invariant is preserved by every valid "
        "operation and hence by every finite history (induction on the history), each operation "
        "refines a plain ordered leader->members reference model, lookups agree with content, and "
        "values are preserved as a multiset except through remove/pop/append/update. The model is "
        "tied to /repo's GroupedList on every run by a differential correspondence check "
        "(same histories on the Python class and on the model evaluated with vm_compute, state and "
        "all lookups compared after every operation, error classes compared on a malformed stream).",
   note="Trusted: Coq kernel + vm_compute; the hand-written model (checked against the class on every "
        "run, sampled); harness. No axioms (Print Assumptions: Closed under the global context). "
        "Domain: 1 and 1.0 never mixed; sort/sort_by only valid while the NaN object is not a leader.",
   technique="Coq proof (invariant by induction over histories + refinement) + model/implementation correspondence by vm_compute",
   design="5/C13"),
}
CLAIMED["C01"] = dict(
   text="Machine-checked proof over an executable model of the carving core (the code's accumulator "
        "enumeration of contiguous groupings, exact rational chi2 with Yates / Kruskal-Wallis H, bit-exact "
        "binary64 frequencies/target rates/isclose, sort by measure, first viable wins, second stage for "
        "missing values): the enumeration is exactly the set of order-contiguous groupings into 2..max_n_mod "
        "groups, the kept grouping is viable and maximal over ALL of them, the missing-value placement is "
        "maximal over all placements, and a feature is dropped iff a search has no viable candidate. Tied to "
        "/repo on every run: real carver fits (base modalities through the real Discretizer, aggregates by "
        "plain counting) are compared with the model's outcome and the property predicate C01_b is evaluated "
        "in Coq on the implementation's own outcome by exhaustive re-enumeration.",
   note="Trusted: Coq kernel + vm_compute; hand-written model (sampled correspondence); scipy chi2/kruskal "
        "assumed monotone images of the exact values (1e-9 tie tolerance); continuous targets integer-valued; "
        "pandas sort of <=16 rows stable. No axioms.",
   technique="Coq proof (enumeration completeness by induction, argmax of first-viable in sorted list) + model/implementation correspondence by vm_compute",
   design="5/C01")
CLAIMED["C02"] = dict(
   text="Proof on the same carving model that the kept grouping has at most max_n_mod groups and is viable on "
        "the final units (frequency >= min_freq_mod in binary64 exactly as the code computes it, distinct "
        "adjacent rates, identical rank order on dev); the run-time check evaluates the same boolean on the "
        "implementation's outcome in Coq and, independently, checks the bounds on transform(X_train)/"
        "transform(X_dev) outputs in Python.",
   note="Same trusted base as C01; theorem carries dev_aligned (one dev aggregate per modality), guaranteed by "
        "the harness and guarded by verdict code 3.",
   technique="Coq proof (corollary of first-viable argmax + rows algebra) + correspondence + direct bounds check on transform outputs",
   design="5/C02")
CLAIMED["C12"] = dict(
   text="Proof on the model that MulticlassCarver is one-vs-rest over the string-sorted classes minus a "
        "minimal one, each column being the carving model's outcome on the class indicator with the same "
        "configuration, kept iff that carving keeps the feature. Tied to /repo on every run: real "
        "MulticlassCarver vs independently fitted real BinaryCarvers (column by column) vs the model.",
   note="Same trusted base as C01 (the per-class fit is the C01 carving model).",
   technique="Coq proof (structural, string order is a total order) + three-way correspondence (multiclass / binary / model)",
   design="5/C12")
CLAIMED["C10"] = dict(
   text="PARTIAL by nature. Proved (Coq, all inputs): assembling per-feature pool results in ANY completion "
        "order yields the same map; the per-feature carving loop over a shared state gives, for every "
        "feature, an entry that depends only on that feature's own initial entry - hence any iteration order "
        "(any hash seed) and any set of co-features fit the same. Exercised on the real code on every run: "
        "each case is fitted in fresh interpreters under other PYTHONHASHSEEDs, reversed feature lists and "
        "rotated columns, every feature alone, pools stubbed to complete in permuted orders, and real pools "
        "(n_jobs 2 and 4); values_orders and transform outputs must equal the baseline's.",
   note="The model abstracts the per-feature step as a function of the feature's own entry; that the real "
        "step has this frame property is what the paired fits test (sampled). Real OS scheduling cannot be "
        "controlled: completion orders are enumerated with an in-process stub Pool only.",
   technique="Coq proof (commutation/frame lemmas over insertion-ordered maps) + paired real fits (hash seeds, orders, subsets, n_jobs, stubbed pools)",
   design="5/C10")
CLAIMED["C11"] = dict(
   text="Proved on the carving model (Coq, all inputs): the model reads a sample only through per-unit target "
        "multisets; row permutations (train and dev independently, missing rows included) leave them "
        "unchanged, the carver's outcome depends on the multisets only (chi2, Kruskal, frequencies, rates, "
        "ranks all proved invariant), and a strictly increasing re-encoding of a quantitative feature sends "
        "every row to the same unit. Exercised on the real code on every run by metamorphic pairs: row "
        "permutation, index offsets/shuffled ints/strings, exact affine maps, order-preserving category "
        "renamings; kept features and the partition of rows induced by transform must not change; the "
        "original fit is also compared with the carving model.",
   note="The invariance of the BASE discretization (quantiles, rare-bucket merging) under monotone maps is "
        "covered by the metamorphic runs only (order statistics); labels are scale dependent by design.",
   technique="Coq proof (multiset-equivalence congruence of the whole carving model) + metamorphic pairs on the real code",
   design="5/C11")
NOT_YET = "not yet built in this round: model and correspondence for this property are still to be written (see DESIGN.md section 9 build order)"

checks = []
for pid in ids:
    if pid in CLAIMED:
        c = CLAIMED[pid]
        checks.append({
            "property_id": pid,
            "quick_cmd": f"./check {pid} quick",
            "thorough_cmd": f"./check {pid} thorough",
            "evidence_file": f"/verif/evidence/{pid}.json",
            "replay_cmd_template": f"./check {pid} --replay {{path}}",
            "engine": "coq-model-correspondence",
            "level_claimed": {"category": "proof", "text": c["text"], "design_ref": c["design"]},
            "level_note": c["note"],
            "technique": c["technique"],
        })
manifest = {
 "version": 1,
 "setup_cmd": "cd /verif/coq && coq_makefile -f _CoqProject -o Makefile && timeout 3000 make -j16",
 "hooks": {"guard": "AUTOCARVER_VERIF", "enable": "no hooks: checks observe public attributes only",
           "baseline_off_cmd": "cd /repo && /venv/bin/python -m pytest -ra -q -p no:cacheprovider --timeout=900 --continue-on-collection-errors",
           "source_commits": [], "add_only": True},
 "engines": [{"name": "coq-model-correspondence", "path": "/verif/check",
              "serves_properties": sorted(CLAIMED),
              "kind_free_text": "Coq 8.16 theorems over a hand-written executable Gallina model + differential correspondence check against /repo (vm_compute inside coqc)"}],
 "checks": checks,
 "notes": "fix: commits in /repo are listed in /verif/known_findings.json (status fixed).",
 "not_applicable": [{"property_id": pid, "reason": NOT_YET} for pid in ids if pid not in CLAIMED],
}
json.dump(manifest, open(os.path.join(VERIF, "MANIFEST.json"), "w"), indent=1)
print("claimed", sorted(CLAIMED))
