"""Regenerates /verif/MANIFEST.json from the table below (keeps it valid at all times)."""
import json, os
VERIF = os.path.dirname(os.path.dirname(os.path.abspath(__file__)))
props = [json.loads(l) for l in open(os.path.join(VERIF, "properties.jsonl"))]
ids = [p["id"] for p in props]

CLAIMED = {
 "C13": dict(
   text="Machine-checked proof (Coq 8.16.1) over an executable Gallina model of GroupedList that keeps "
        "list and content dict separate: the well-formedness invariant is preserved by every valid "
        "operation and hence by every finite history (induction on the history), each operation "
        "refines a plain ordered leader->members reference model, lookups agree with content, and "
        "values are preserved as a multiset except through remove/pop/append/update. The model is "
        "tied to /repo's GroupedList on every run by a differential correspondence check "
        "(same histories on the Python class and on the model evaluated with vm_compute, state and "
        "all lookups compared after every operation, error classes compared on a malformed stream).",
   note="Trusted: Coq kernel + vm_compute; the hand-written model (checked against the class on every "
        "run, sampled); harness. No axioms (Print Assumptions: Closed under the global context). "
        "Domain: 1 and 1.0 never mixed; sort/sort_by only valid while the NaN object is not a leader.",
   technique="Coq proof (invariant by induction over histories + refinement) + model/implementation correspondence by vm_compute",
   design="5/C13"),
}
CLAIMED["C01"] = dict(
   text="Machine-checked proof over an executable model of the carving core (the code's accumulator "
        "enumeration of contiguous groupings, exact rational chi2 with Yates / Kruskal-Wallis H, bit-exact "
        "binary64 frequencies/target rates/isclose, sort by measure, first viable wins, second stage for "
        "missing values): the enumeration is exactly the set of order-contiguous groupings into 2..max_n_mod "
        "groups, the kept grouping is viable and maximal over ALL of them, the missing-value placement is "
        "maximal over all placements, and a feature is dropped iff a search has no viable candidate. Tied to "
        "/repo on every run: real carver fits (base modalities through the real Discretizer, aggregates by "
        "plain counting) are compared with the model's outcome and the property predicate C01_b is evaluated "
        "in Coq on the implementation's own outcome by exhaustive re-enumeration.",
   note="Trusted: Coq kernel + vm_compute; hand-written model (sampled correspondence); scipy chi2/kruskal "
        "assumed monotone images of the exact values (1e-9 tie tolerance); continuous targets integer-valued; "
        "pandas sort_values of exactly tied rates is NOT stable on this hardware (numpy quicksort, AVX-512): a candidate "
        "whose rank test hinges on an exact tie makes the case tie-dependent (verdict 4). No axioms.",
   technique="Coq proof (enumeration completeness by induction, argmax of first-viable in sorted list) + model/implementation correspondence by vm_compute",
   design="5/C01")
CLAIMED["C02"] = dict(
   text="Proof on the same carving model that the kept grouping has at most max_n_mod groups and is viable on "
        "the final units (frequency >= min_freq_mod in binary64 exactly as the code computes it, distinct "
        "adjacent rates, identical rank order on dev); the run-time check evaluates the same boolean on the "
        "implementation's outcome in Coq and, independently, checks the bounds on transform(X_train)/"
        "transform(X_dev) outputs in Python.",
   note="Same trusted base as C01; theorem carries dev_aligned (one dev aggregate per modality), guaranteed by "
        "the harness and guarded by verdict code 3.",
   technique="Coq proof (corollary of first-viable argmax + rows algebra) + correspondence + direct bounds check on transform outputs",
   design="5/C02")
CLAIMED["C12"] = dict(
   text="Proof on the model that MulticlassCarver is one-vs-rest over the string-sorted classes minus a "
        "minimal one, each column being the carving model's outcome on the class indicator with the same "
        "configuration, kept iff that carving keeps the feature. Tied to /repo on every run: real "
        "MulticlassCarver vs independently fitted real BinaryCarvers (column by column) vs the model.",
   note="Same trusted base as C01 (the per-class fit is the C01 carving model).",
   technique="Coq proof (structural, string order is a total order) + three-way correspondence (multiclass / binary / model)",
   design="5/C12")
CLAIMED["C10"] = dict(
   text="PARTIAL by nature. Proved (Coq, all inputs): assembling per-feature pool results in ANY completion "
        "order yields the same map; the per-feature carving loop over a shared state gives, for every "
        "feature, an entry that depends only on that feature's own initial entry - hence any iteration order "
        "(any hash seed) and any set of co-features fit the same. Exercised on the real code on every run: "
        "each case is fitted in fresh interpreters under other PYTHONHASHSEEDs, reversed feature lists and "
        "rotated columns, every feature alone, pools stubbed to complete in permuted orders, and real pools "
        "(n_jobs 2 and 4); values_orders and transform outputs must equal the baseline's.",
   note="The model abstracts the per-feature step as a function of the feature's own entry; that the real "
        "step has this frame property is what the paired fits test (sampled). Real OS scheduling cannot be "
        "controlled: completion orders are enumerated with an in-process stub Pool only.",
   technique="Coq proof (commutation/frame lemmas over insertion-ordered maps) + paired real fits (hash seeds, orders, subsets, n_jobs, stubbed pools)",
   design="5/C10")
CLAIMED["C11"] = dict(
   text="Proved on the carving model (Coq, all inputs): the model reads a sample only through per-unit target "
        "multisets; row permutations (train and dev independently, missing rows included) leave them "
        "unchanged, the carver's outcome depends on the multisets only (chi2, Kruskal, frequencies, rates, "
        "ranks all proved invariant), and a strictly increasing re-encoding of a quantitative feature sends "
        "every row to the same unit. Exercised on the real code on every run by metamorphic pairs: row "
        "permutation, index offsets/shuffled ints/strings, exact affine maps, order-preserving category "
        "renamings; kept features and the partition of rows induced by transform must not change; the "
        "original fit is also compared with the carving model.",
   note="The invariance of the BASE discretization (quantiles, rare-bucket merging) under monotone maps is "
        "covered by the metamorphic runs only (order statistics); labels are scale dependent by design.",
   technique="Coq proof (multiset-equivalence congruence of the whole carving model) + metamorphic pairs on the real code",
   design="5/C11")
def _claim(pid, text, note, technique):
    CLAIMED[pid] = dict(text=text, note=note, technique=technique, design="5/" + pid)

_claim("C04",
  "Proof over executable models of the label table (get_labels/format_quantiles incl. the digit-selection rule, "
  "_get_labels_per_values) and of transform for one cell (quantitative first-match lookup, qualitative "
  "check-and-replace, NaN reinstatement): for every well-formed fitted state and every contained value the output "
  "is the label of its group (first leader >= v for numbers); float labels are the ranks, distinct; str labels are "
  "distinct exactly when the formatted (lower, upper) bound pairs are, which the digit rule ensures. Tied to /repo "
  "on every run: fitted states of all classes (also rebuilt from JSON) are extracted, the training frame is "
  "transformed and every distinct (cell, output) pair is compared with the model inside Coq.",
  "Trusted: CPython f'{x:.{n}e}' and str() as per-case tables; pandas replace/select as glue (correspondence "
  "only); state extraction in the harness. No axioms.",
  "Coq proof (lookup/refinement lemmas over the C13 invariant) + model/implementation correspondence by vm_compute")
_claim("C05",
  "Proof on the same transform model: for a well-formed state whose quantitative leaders end in +inf, EVERY cell "
  "is either rejected with AssertionError (unseen category without default group, NaN where none at fit) or "
  "mapped into the fitted label set - never another error, never the raw value; finite numbers are never rejected; "
  "the +inf sentinel is shown necessary by a witness. Run-time: probe frames (boundaries and their float "
  "neighbours, +-1e308, +-5e-324, +-inf, unseen categories, injected NaN, empty and single-row frames) on real "
  "fitted objects, outputs compared with the model and checked against the label set.",
  "Same trusted base as C04; strings in quantitative columns are outside the property's quantifier (recorded as a "
  "C19 known finding).",
  "Coq proof (totality of the transform model under the sentinel premise) + correspondence on probe frames")
_claim("C06",
  "Proof over a model of the JSON path (convert to base types with the numpy.inf sentinel, dumps with CPython's key "
  "stringification as a table, loads with duplicate-key collapse, key re-stringification, GroupedList(dict)): under "
  "WF, injective key strings and no sentinel-named value, the round trip returns the same leaders and member lists, "
  "any behaviour that is a function of the state is preserved, and serialising the reloaded object yields the same "
  "JSON (all classes, after fixes 706e270/1da3036); each hypothesis has a necessity witness. Run-time: every class "
  "incl. Multiclass/Chained, real json.dumps/loads, transform on train and unseen frames, summary, second dump.",
  "Trusted: json text<->tree, CPython number->key conversion and str() as tables; meta/history opaque in the model "
  "(compared in Python). Known finding: a category literally named 'numpy.inf'.",
  "Coq proof (round-trip law with necessity witnesses) + correspondence on real dumps/loads")
_claim("C07",
  "PARTIAL by nature. Proved on the transform model lifted to frames: transforming ANY selection, reordering or "
  "repetition of rows gives the corresponding rows of the full result; the output keeps X's columns; non-feature "
  "columns are unchanged; any interleaving of transform calls leaves the fitted object unchanged and returns what "
  "a single call returns. Run-time on real objects: call histories (full frame, subsets, shuffles, repeated rows, "
  "single/empty frames, string and offset indices), deep copies of X/y/X_dev/y_dev compared before/after with "
  "copy=True, fitted-state snapshots after every call, fit_transform vs fit+transform, full transform vs the model.",
  "Absence of side effects on caller objects, pandas index alignment and sklearn's fit_transform are runtime "
  "behaviour: checked on every history, not proved.",
  "Coq proof (row-wise purity by list induction) + call-history exploration on the real objects")
_claim("C09",
  "Proof over bit-exact models of find_quantiles (over-represented values, round-half-even new_q, floor of the "
  "float quantile position), the rare-bucket merging loop (argmin, find_closest_modality with NaN comparisons) and "
  "the categorical default group: at loop exit every bucket reaches min_freq (min_freq/2 for quantiles) or one "
  "bucket remains, counts and members are conserved, only adjacent buckets merge (so buckets are contiguous runs), "
  "the loop terminates with fuel = number of buckets, default group <-> rarer than min_freq or never observed, NaN "
  "always separate, boundaries are observed values, contain every frequent value, strictly increasing, then +inf. "
  "Run-time: all four discretizer classes on continuous/discrete/spiked/tied/NaN samples, exact comparison of "
  "leaders and groups with the model, property counted on transform outputs.",
  "The 2.5*min_freq clause: proved for all inputs (len_df, q <= 2^50, binary64 premises discharged) in the unit the "
  "code uses, rows <= 2.25*len_df/q + 2 with q = round(1/min_freq); the literal clause is REFUTED by a witness "
  "(min_freq=0.29) that is replayed on the real code on every run and listed as known finding O43. Aggregates are "
  "counted by the harness.",
  "Coq proof (loop invariants by induction on fuel, bit-exact SpecFloat arithmetic) + correspondence by vm_compute")
_claim("C14",
  "Proof over a model of the selection logic (measure pipeline with early stop, NaN filtering, stable descending "
  "sorts, greedy quantitative/qualitative filters, chained filters, n_best cut, union over measures, per-dtype "
  "loop) taking exact rational measure/association tables recomputed independently of AutoCarver: output distinct "
  "and a subset of the inputs, sorted by decreasing measure, at most n_best per measure, pairwise association <= "
  "thresh_corr within a measure's kept set, every left-out feature has a recorded reason, the strict maximum is "
  "returned. Run-time: real selectors vs the model (order included, tie-insensitive) and measure tables vs exact "
  "recomputation within 1e-9.",
  "Ten behavioural defects are KNOWN FINDINGS (O11, O12, union over measures, ...): the full 'no two returned "
  "features above thresh_corr' is refuted on the model for two ranking measures. colsample<1 is modelled with the "
  "shuffled order read back from the run (random.shuffle is an oracle).",
  "Coq proof (greedy filter invariants) + correspondence against exact rational recomputation")
_claim("C15",
  "Proved: selection is equivariant under any re-encoding that preserves the measure/association tables, independent "
  "of input order without ties, rank vectors invariant under strictly increasing maps (hence Kruskal H and "
  "Spearman), |rho| invariant under negation, Kruskal H invariant under negation, H <= N-1 with equality for a "
  "feature that is a copy of / strictly monotone in the class target, chi2 <= n and V^2 <= 1 with equality for a "
  "perfect association, such a feature is ranked first up to exact ties and returned, colsample samples partition "
  "the feature list. Run-time: metamorphic pairs on real selectors (negation, power-of-two rescaling, category "
  "renaming, row/column/X-only/y-only permutation, +-inf, copies and monotone functions of the target, colsample).",
  "The copy clause is REFUTED for qualitative copies of a BINARY target (Yates correction on the 2x2 table: a finer "
  "nested feature outranks it) and for exact ties: both are witnesses in Properties/C15.v, the first a known finding; "
  "RegressionSelector's default measure violates the property (known findings O11, positional pairing).",
  "Coq proof (equivariance, rank invariance) + metamorphic pairs on the real selectors")
_claim("C17",
  "Proof over a model of update_discretizer on one fitted feature (NaN handling, append of unknown values, group / "
  "replace branches, label refresh) built on the C13 model: every valid edit keeps the order well formed, 'group' "
  "moves exactly the discarded group into the kept one and leaves every other group unchanged, 'replace' only "
  "renames, labels after any completed call are those of a fresh fit on the new order, hence transform/summary/"
  "JSON reload agree after every edit of every finite valid history; upward quantitative merges proved, downward "
  "ones refuted by a witness. Run-time: random edit histories on real carvers/discretizers, state, labels, "
  "transform and JSON-reloaded transform compared with the model after each edit.",
  "Two KNOWN FINDINGS: NaN cannot be re-grouped once merged; quantitative downward merge. The two "
  "transform-after-edit theorems carry the hypothesis that str_nan is the last leader or not a leader (after "
  "fix 1b184ac the labels are paired with the groups 'non-missing leaders, then str_nan'; the shared Labels model "
  "of C04 still states coherence for the un-normalised order); the group-into-a-new-name case with a separate "
  "missing-value group is covered by C17_valid_edit_effect and a vm_compute witness.",
  "Coq proof (induction over edit histories, reuse of C13/C04 lemmas) + correspondence after every edit")
_claim("C18",
  "Proof over a model of ChainedDiscretizer (known_values flattening and its assertions, unknown handling, level "
  "loop with frequencies recomputed on the rewritten column, bit-exact frequency test): every hierarchy value is "
  "kept, the fitted leader of every value follows the level-by-level rule, leaders only climb to ancestors, a value "
  "stays its own modality iff frequent enough, a rare ancestor group climbs further, unknown values raise or join "
  "the missing-value group per policy, transform outputs the leader. Unbounded in depth/width/rows. Run-time: "
  "random forests (2-4 levels), boundary counts, both policies, malformed hierarchies.",
  "One feature, string hierarchy values, default sentinels.",
  "Coq proof (induction over the level loop) + correspondence by vm_compute")
_claim("C19",
  "Proof over a model of each entry point as an ordered list of checks, crash points, guard and state writes for "
  "nine classes x init/fit/transform and 13 malformed-input classes: every guarded malformed input is rejected "
  "with AssertErr, and (generic theorem by induction on the step list, instantiated for the current code) any "
  "second fit or transform of a fitted object leaves it unchanged. Run-time: every (class, entry, malformed class, "
  "variant) triple injected into a valid sample before and after a successful fit; exception class and "
  "values_orders/to_json/transform snapshots compared with the model's prediction.",
  "The mapping from a real malformed input to the model's boolean record is trusted (harness). Three KNOWN "
  "FINDINGS: X=None, strings in a quantitative column at transform, OrdinalDiscretizer accepting unknown values.",
  "Coq proof (frame theorem by induction over the validation pipeline) + exhaustive injection of malformed inputs")

_claim("C03",
  "Proved on the models: the rare-bucket merging loop only merges neighbours, so every base bucket is a "
  "contiguous run of the ranking / of the sorted quantiles (any sample, ranking, min_freq); only order-contiguous "
  "groupings are enumerated and the kept grouping is one of them (missing values added inside one group or alone); "
  "quantile boundaries are strictly increasing; with float output transform is a non-decreasing step function of "
  "a quantitative value over the whole carrier (every dyadic number and +-inf), right-closed intervals, last one "
  "unbounded. Run-time: for every fitted feature of real objects (all classes) the base-level and carve-level "
  "groups are sent to Coq as positions in the natural order (contiguous_b, proved sound), categorical leaders are "
  "compared with training target rates, and probe frames (boundaries, nextafter neighbours, midpoints, extremes) "
  "must give non-decreasing group ranks (monotone_b, proved sound).",
  "Categorical ordering by target rate is a run-time check only (no theorem). Same trusted base as C04/C09.",
  "Coq proof (contiguity invariants, monotone lookup) + proved-sound boolean checkers on real fitted states and probes")
_claim("C08",
  "Proved on the models, for all inputs: the quantitative, ordinal and categorical base fits end in a well-formed "
  "order covering every training value (sentinel separate iff NaN present, quantitative leaders strictly "
  "increasing then +inf) or in a clean failure, never an internal error; every grouping the carver enumerates, the "
  "kept one and the two-stage path keep the order well formed with the same values; chained for one feature "
  "(C08_fit_pipeline_wf_end_to_end). The run-time invariant "
  "(feature_ok: WF + coverage of training values + strictly increasing leaders ending in +inf) is proved to imply "
  "the property's invariant and is evaluated in Coq on the IMPLEMENTATION's fitted state. Run-time: degenerate "
  "inputs (constant, all-missing, near-unique, many rare values, spikes, 2-150 rows, never-observed ordinal "
  "values) over all classes: exception class, key sets of every per-feature attribute, summary/history/transform "
  "on the fitted object, dropped features untouched.",
  "The end-to-end theorems are about the MODEL stages; the carver's write-back composition is defined in Proofs/ "
  "(not exercised by the correspondence, spot-checked on real fits); pandas glue between the stages (casting, "
  "crosstabs, copies) is explored by the degenerate-input generator, not proved. Known findings: history() keeps "
  "dropped features (O34), numeric ordinal rankings (O40).",
  "Coq-evaluated invariant with proved soundness + stage-wise totality/WF theorems + degenerate-input exploration")

_claim("C16",
  "Proof over models of summary() (per-feature rows built from labels_per_values, the isinstance / str_default / "
  "hidden-NaN tests, the extra NaN pass over the requested features, group-by label) and of the history of a "
  "carving stage on top of the carving model: qualitative rows partition all known shown values and each value's "
  "row label is the label transform outputs; quantitative features get one row per fitted group with the "
  "missing-value sentinel in the row of its group; summary(f) = the rows of f only; summary lists exactly the kept "
  "features; the history holds every candidate exactly once with its measure, sorted by decreasing measure, "
  "flagged false before the first viable one, then true, then 'Not checked', and the last record flagged viable IS "
  "the fitted grouping (one and two stages). Run-time: summary()/summary(f)/history()/history(f) of real objects "
  "vs transform(X_train) and vs the model record by record.",
  "Trusted: pandas groupby/sort glue, mapping of history combinations to base modalities in the harness; "
  "viability messages are not compared. history() also keeps dropped features (recorded under C08).",
  "Coq proof (summary rows from the C04 lookup theorems; history shape from the first-viable scan) + record-by-record correspondence")

NOT_YET = "not yet built in this round: model and correspondence for this property are still to be written (see DESIGN.md section 9 build order)"

checks = []
for pid in ids:
    if pid in CLAIMED:
        c = CLAIMED[pid]
        checks.append({
            "property_id": pid,
            "quick_cmd": f"./check {pid} quick",
            "thorough_cmd": f"./check {pid} thorough",
            "evidence_file": f"/verif/evidence/{pid}.json",
            "replay_cmd_template": f"./check {pid} --replay {{path}}",
            "engine": "coq-model-correspondence",
            "level_claimed": {"category": "proof", "text": c["text"], "design_ref": c["design"]},
            "level_note": c["note"],
            "technique": c["technique"],
        })
manifest = {
 "version": 1,
 "setup_cmd": "cd /verif/coq && coq_makefile -f _CoqProject -o Makefile && timeout 3000 make -j16",
 "hooks": {"guard": "AUTOCARVER_VERIF", "enable": "no hooks: checks observe public attributes only",
           "baseline_off_cmd": "cd /repo && /venv/bin/python -m pytest -ra -q -p no:cacheprovider --timeout=900 --continue-on-collection-errors",
           "source_commits": [], "add_only": True},
 "engines": [{"name": "coq-model-correspondence", "path": "/verif/check",
              "serves_properties": sorted(CLAIMED),
              "kind_free_text": "Coq 8.16 theorems over a hand-written executable Gallina model + differential correspondence check against /repo (vm_compute inside coqc)"}],
 "checks": checks,
 "notes": "fix: commits in /repo are listed in /verif/known_findings.json (status fixed).",
 "not_applicable": [{"property_id": pid, "reason": NOT_YET} for pid in ids if pid not in CLAIMED],
}
json.dump(manifest, open(os.path.join(VERIF, "MANIFEST.json"), "w"), indent=1)
print("claimed", sorted(CLAIMED))
