"""Regenerates /verif/MANIFEST.json from the table below (keeps it valid at all times)."""
import json, os
VERIF = os.path.dirname(os.path.dirname(os.path.abspath(__file__)))
props = [json.loads(l) for l in open(os.path.join(VERIF, "properties.jsonl"))]
ids = [p["id"] for p in props]

CLAIMED = {
 "C13": dict(
   text="Machine-checked proof (Coq 8.16.1) over an executable Gallina model of GroupedList that keeps "
        "list and content dict separate: the well-formedness invariant is preserved by every valid "
        "operation and hence by every finite history (induction on the history), each operation "
        "refines a plain ordered leader->members reference model, lookups agree with content, and "
        "values are preserved as a multiset except through remove/pop/append/update. The model is "
        "tied to /repo's GroupedList on every run by a differential correspondence check "
        "(same histories on the Python class and on the model evaluated with vm_compute, state and "
        "all lookups compared after every operation, error classes compared on a malformed stream).",
   note="Trusted: Coq kernel + vm_compute; the hand-written model (checked against the class on every "
        "run, sampled); harness. No axioms (Print Assumptions: Closed under the global context). "
        "Domain: 1 and 1.0 never mixed; sort/sort_by only valid while the NaN object is not a leader.",
   technique="Coq proof (invariant by induction over histories + refinement) + model/implementation correspondence by vm_compute",
   design="5/C13"),
}
NOT_YET = "not yet built in this round: model and correspondence for this property are still to be written (see DESIGN.md section 9 build order)"

checks = []
for pid in ids:
    if pid in CLAIMED:
        c = CLAIMED[pid]
        checks.append({
            "property_id": pid,
            "quick_cmd": f"./check {pid} quick",
            "thorough_cmd": f"./check {pid} thorough",
            "evidence_file": f"/verif/evidence/{pid}.json",
            "replay_cmd_template": f"./check {pid} --replay {{path}}",
            "engine": "coq-model-correspondence",
            "level_claimed": {"category": "proof", "text": c["text"], "design_ref": c["design"]},
            "level_note": c["note"],
            "technique": c["technique"],
        })
manifest = {
 "version": 1,
 "setup_cmd": "cd /verif/coq && coq_makefile -f _CoqProject -o Makefile && timeout 3000 make -j16",
 "hooks": {"guard": "AUTOCARVER_VERIF", "enable": "no hooks: checks observe public attributes only",
           "baseline_off_cmd": "cd /repo && /venv/bin/python -m pytest -ra -q -p no:cacheprovider --timeout=900 --continue-on-collection-errors",
           "source_commits": [], "add_only": True},
 "engines": [{"name": "coq-model-correspondence", "path": "/verif/check",
              "serves_properties": sorted(CLAIMED),
              "kind_free_text": "Coq 8.16 theorems over a hand-written executable Gallina model + differential correspondence check against /repo (vm_compute inside coqc)"}],
 "checks": checks,
 "notes": "fix: commits in /repo are listed in /verif/known_findings.json (status fixed).",
 "not_applicable": [{"property_id": pid, "reason": NOT_YET} for pid in ids if pid not in CLAIMED],
}
json.dump(manifest, open(os.path.join(VERIF, "MANIFEST.json"), "w"), indent=1)
print("claimed", sorted(CLAIMED))
