#!/bin/bash
# usage: sweep_ids.sh "<ids>" <seed...>
cd /verif
ids=$1; shift
for s in "$@"; do
  for id in $ids; do
    out=$(VERIF_SEED=$s timeout 3000 ./check $id quick 2>&1); rc=$?
    echo "seed=$s $id exit=$rc viol=$(echo "$out" | grep -c '^VIOLATION') known=$(echo "$out" | grep -c '^KNOWN-FINDING') | $(echo "$out" | tail -1)"
    echo "$out" | grep '^VIOLATION' | head -3
  done
done
