"""Shared machinery of the checks: running the implementation, running the Coq model, verdicts,
evidence, known findings.  Runs under /venv/bin/python with /repo first on sys.path."""
import hashlib
import json
import math
import os
import random
import re
import shutil
import subprocess
import sys
import time
import traceback
import warnings

VERIF = os.path.dirname(os.path.dirname(os.path.abspath(__file__)))
REPO = os.environ.get("VERIF_REPO", "/repo")
COQ = os.path.join(VERIF, "coq")
SCRATCH = os.path.join(VERIF, ".scratch")
NPROC = min(16, os.cpu_count() or 4)

TRUSTED_BASE = [
    "Coq 8.16.1 kernel; vm_compute used to evaluate the model in the correspondence and for "
    "closed boolean witnesses; no native_compute",
    "hand-written Gallina model under /verif/coq/Model (pandas/numpy/scipy glue is modelled as "
    "list functions, not verified)",
    "correspondence harness /verif/harness (generators, runner, cases.v writer, output parser)",
    "CPython str/repr/format/json as oracles; IEEE-754 binary64 of the host",
]


def seed_from_env():
    try:
        return int(os.environ.get("VERIF_SEED", "20260930"))
    except ValueError:
        return 20260930


# ----------------------------------------------------------------------------------------------
# Coq literals
# ----------------------------------------------------------------------------------------------
SAFE = set("abcdefghijklmnopqrstuvwxyzABCDEFGHIJKLMNOPQRSTUVWXYZ0123456789 _-+.<=>,:;()[]{}/*%#@!?^~|&'")


def cstr(s):
    for ch in s:
        if ch not in SAFE:
            raise ValueError(f"unsafe char {ch!r} for a Coq string literal")
    return '"' + s + '"'


def cZ(z):
    z = int(z)
    return f"({z})" if z < 0 else str(z)


def cnat(n):
    return f"{int(n)}%nat"


def cbool(b):
    return "true" if b else "false"


def clist(items):
    return "[" + "; ".join(items) + "]"


def copt(x):
    return "None" if x is None else f"(Some {x})"


def cpair(a, b):
    return f"({a}, {b})"


class Scale:
    """numbers of a case are sent as exact integers x * 2**s"""

    def __init__(self, s=0):
        self.s = s

    def fit(self, xs):
        for x in xs:
            if isinstance(x, (int,)) and not isinstance(x, bool):
                continue
            if isinstance(x, float) and math.isfinite(x):
                m, e = float_to_me(x)
                if e < 0:
                    self.s = max(self.s, -e)
        return self

    def z(self, x):
        if isinstance(x, bool):
            raise ValueError("bool")
        if isinstance(x, int):
            return x << self.s
        m, e = float_to_me(float(x))
        if e + self.s < 0:
            raise ValueError(f"{x} not representable at scale {self.s}")
        return m << (e + self.s)


def float_to_me(x):
    """exact (m, e) with x = m * 2**e, m odd or zero"""
    if x == 0:
        return 0, 0
    m, e = math.frexp(x)
    m = int(m * (1 << 53))
    e -= 53
    while m % 2 == 0:
        m //= 2
        e += 1
    return m, e


def is_nan(x):
    return isinstance(x, float) and x != x


def cval(x, scale):
    """Python cell value -> Coq term of type val"""
    import numpy as np

    if isinstance(x, str):
        return f"(VStr {cstr(str(x))})"
    if isinstance(x, (bool, np.bool_)):
        raise ValueError("bool value")
    if isinstance(x, (int, np.integer)):
        return f"(VNum {cZ(scale.z(int(x)))})"
    if isinstance(x, (float, np.floating)):
        x = float(x)
        if x != x:
            return "VNaN"
        if x == math.inf:
            return "VPInf"
        if x == -math.inf:
            return "VNInf"
        return f"(VNum {cZ(scale.z(x))})"
    raise ValueError(f"unsupported value {x!r} of type {type(x)}")


def cvals(xs, scale):
    return clist([cval(x, scale) for x in xs])


def cfloat(x):
    """a Python float as the model's exact dyadic (mantissa, exponent) pair of Z"""
    x = float(x)
    if x != x or math.isinf(x):
        raise ValueError("non finite parameter")
    m, e = float_to_me(x)
    return f"({cZ(m)}, {cZ(e)})"


# ----------------------------------------------------------------------------------------------
# Coq runs
# ----------------------------------------------------------------------------------------------
FORBIDDEN = re.compile(
    r"\b(Admitted|admit|Axiom|Axioms|Parameter|Parameters|Conjecture|Hypothesis|Variable|Variables|"
    r"Unset\s+Guard|bypass_check|type-in-type|impredicative-set|Admit\s+Obligations)\b"
)


def run(cmd, cwd=None, timeout=1800, env=None):
    t0 = time.time()
    try:
        p = subprocess.run(
            cmd, cwd=cwd, timeout=timeout, env=env, shell=isinstance(cmd, str),
            stdout=subprocess.PIPE, stderr=subprocess.STDOUT, text=True,
        )
        return p.returncode, p.stdout, time.time() - t0
    except subprocess.TimeoutExpired as e:
        out = e.stdout if isinstance(e.stdout, str) else (e.stdout or b"").decode("utf8", "replace")
        return 124, out + "\nTIMEOUT", time.time() - t0


def coq_sources():
    res = []
    for sub in ("Model", "Proofs", "Properties"):
        d = os.path.join(COQ, sub)
        for f in sorted(os.listdir(d)):
            if f.endswith(".v"):
                res.append(os.path.join(d, f))
    return res


def strip_comments(src):
    out, depth, i = [], 0, 0
    while i < len(src):
        if src.startswith("(*", i):
            depth += 1
            i += 2
        elif src.startswith("*)", i) and depth > 0:
            depth -= 1
            i += 2
        else:
            if depth == 0:
                out.append(src[i])
            i += 1
    return "".join(out)


def gate():
    """no Admitted/Axiom/... anywhere in the development (Section variables are allowed in
    Model/ files only inside a Section; we simply forbid them too)."""
    bad = []
    for f in coq_sources():
        src = strip_comments(open(f).read())
        # strings may contain anything; drop them
        src = re.sub(r'"[^"]*"', '""', src)
        for m in FORBIDDEN.finditer(src):
            bad.append(f"{os.path.relpath(f, VERIF)}: {m.group(0)}")
    return bad


def coq_build(targets=None, timeout=2400):
    """full .vo build (no -vos) of the given targets and everything they depend on (default: the
    whole development).  Returns (ok, log)."""
    tg = " ".join(targets) if targets else ""
    script = ("coq_makefile -f _CoqProject -o Makefile > /dev/null 2>&1 && "
              f"timeout {timeout} make -j{NPROC} {tg} 2>&1 | tail -40; exit ${{PIPESTATUS[0]}}")
    rc, out, _ = run(["flock", ".build.lock", "bash", "-c", script], cwd=COQ, timeout=timeout + 60)
    ok = rc == 0 and "Error" not in out
    if ok and targets:
        ok = all(os.path.exists(os.path.join(COQ, t)) for t in targets)
    return ok, out


def check_property_file(pid):
    """Recompiles Properties/<pid>.v (always), returns dict(obligations, discharged, assumptions,
    ok, log).  A theorem counts as discharged when the file compiles and Print Assumptions reports
    'Closed under the global context' or only allowed (stdlib) axioms."""
    path = os.path.join(COQ, "Properties", f"{pid}.v")
    src = open(path).read()
    theorems = re.findall(r"^\s*Theorem\s+(\w+)", strip_comments(src), flags=re.M)
    vo = path[:-2] + ".vo"
    if os.path.exists(vo):
        os.remove(vo)
    rc, out, dt = run(["timeout", "900", "coqc", "-Q", ".", "AC", path], cwd=COQ, timeout=960)
    res = {"theorems": theorems, "obligations": len(theorems), "discharged": 0, "ok": rc == 0,
           "log": out[-4000:], "axioms": [], "wall_s": dt}
    if rc != 0:
        return res
    closed = out.count("Closed under the global context")
    axioms = re.findall(r"^Axioms:\n((?:.+\n)+?)(?=\S|\Z)", out, flags=re.M)
    names = []
    for blk in axioms:
        for line in blk.splitlines():
            m = re.match(r"^(\S+)\s*:", line)
            if m:
                names.append(m.group(1))
    res["axioms"] = sorted(set(names))
    allowed = all(any(a.endswith(sfx) for sfx in ALLOWED_AXIOMS) for a in names)
    n_print = len(re.findall(r"Print\s+Assumptions", strip_comments(src)))
    if allowed and n_print >= len(theorems):
        res["discharged"] = len(theorems)
    else:
        res["discharged"] = min(closed, len(theorems))
        res["ok"] = False
        res["log"] += f"\nallowed={allowed} n_print={n_print} theorems={len(theorems)}"
    return res


ALLOWED_AXIOMS = ()  # target: none.  Named stdlib axioms would be listed here AND in DESIGN.md


def coq_eval(shards, tag, timeout=600):
    """shards: list of .v texts; each must print exactly one `= [ ... ] : list ...` per Eval.
    Returns list (per shard) of list of ints (all Evals concatenated), or raises."""
    d = os.path.join(SCRATCH, f"{tag}_{os.getpid()}")
    shutil.rmtree(d, ignore_errors=True)
    os.makedirs(d)
    names = []
    for i, txt in enumerate(shards):
        fn = os.path.join(d, f"cases_{i}.v")
        with open(fn, "w") as f:
            f.write(txt)
        names.append(fn)
    procs = []
    results = [None] * len(names)
    pending = list(enumerate(names))
    running = []
    errors = []

    def launch(i, fn):
        return (i, fn, subprocess.Popen(
            ["timeout", str(timeout), "coqc", "-Q", COQ, "AC", "-Q", d, "Cases", fn],
            stdout=subprocess.PIPE, stderr=subprocess.STDOUT, text=True, cwd=d))

    while pending or running:
        while pending and len(running) < NPROC:
            i, fn = pending.pop(0)
            running.append(launch(i, fn))
        i, fn, p = running.pop(0)
        out, _ = p.communicate()
        if p.returncode != 0:
            errors.append((fn, out[-3000:]))
            continue
        results[i] = parse_eval_lists(out)
    if errors:
        raise CoqEvalError(errors, d)
    shutil.rmtree(d, ignore_errors=True)
    return results


class CoqEvalError(Exception):
    def __init__(self, errors, d):
        super().__init__(f"{len(errors)} shard(s) failed; first: {errors[0][0]}\n{errors[0][1]}")
        self.errors = errors
        self.dir = d


def parse_eval_lists(out):
    """all integers printed inside `= [ ... ]` blocks, in order"""
    res = []
    for blk in re.findall(r"=\s*\[(.*?)\]\s*:\s*list", out, flags=re.S):
        res.extend(int(t) for t in re.findall(r"-?\d+", blk))
    return res


# ----------------------------------------------------------------------------------------------
# running the implementation
# ----------------------------------------------------------------------------------------------
def setup_impl_path():
    if REPO not in sys.path:
        sys.path.insert(0, REPO)
    warnings.simplefilter("ignore")
    os.environ.setdefault("PYTHONWARNINGS", "ignore")


class Quiet:
    """silences prints of the implementation (selectors / ChainedDiscretizer print)"""

    def __enter__(self):
        self._o = sys.stdout
        sys.stdout = open(os.devnull, "w")
        return self

    def __exit__(self, *a):
        sys.stdout.close()
        sys.stdout = self._o


def exc_class(e):
    return "assert" if isinstance(e, AssertionError) else "internal"


def _worker(args):
    fn, case = args
    warnings.simplefilter("ignore")
    try:
        with Quiet():
            return fn(case)
    except BaseException as e:  # harness error: report, never hide
        return {"harness_error": f"{type(e).__name__}: {e}", "trace": traceback.format_exc()[-2000:]}


def pmap(fn, cases, procs=None):
    """runs fn(case) for each case in forked workers (implementation imported from /repo in the
    parent at start of this run, never cached across runs)"""
    import multiprocessing as mp

    procs = procs or NPROC
    if len(cases) <= 2 or procs == 1:
        return [_worker((fn, c)) for c in cases]
    ctx = mp.get_context("fork")
    with ctx.Pool(procs) as pool:
        return pool.map(_worker, [(fn, c) for c in cases], chunksize=max(1, len(cases) // (procs * 8)))


# ----------------------------------------------------------------------------------------------
# findings / evidence / replays
# ----------------------------------------------------------------------------------------------
def load_known_findings():
    p = os.path.join(VERIF, "known_findings.json")
    if not os.path.exists(p):
        return []
    return json.load(open(p)).get("findings", [])


def write_replay(pid, payload):
    os.makedirs(os.path.join(VERIF, "replays"), exist_ok=True)
    blob = json.dumps(payload, sort_keys=True, default=repr)
    h = hashlib.sha1(blob.encode()).hexdigest()[:12]
    path = os.path.join(VERIF, "replays", f"{pid}-{h}.json")
    with open(path, "w") as f:
        json.dump(payload, f, indent=1, sort_keys=True, default=repr)
    return path


def write_evidence(pid, tier, seed, coverage, wall_s, violations, assumptions=None, level="proof"):
    os.makedirs(os.path.join(VERIF, "evidence"), exist_ok=True)
    ev = {
        "property_id": pid,
        "tier": tier,
        "seed": int(seed),
        "level": level,
        "coverage": coverage,
        "assumptions": assumptions or [],
        "wall_s": round(float(wall_s), 2),
        "violations": int(violations),
    }
    # evidence/<id>.json describes runs against /repo itself; a run against a scratch tree (VERIF_REPO, used to
    # try seeded changes) leaves it alone and writes under .scratch/
    target = os.path.join(VERIF, "evidence", f"{pid}.json")
    if os.path.realpath(REPO) != "/repo":
        os.makedirs(os.path.join(VERIF, ".scratch", "evidence_other_trees"), exist_ok=True)
        target = os.path.join(VERIF, ".scratch", "evidence_other_trees", f"{pid}.json")
    with open(target, "w") as f:
        json.dump(ev, f, indent=1, default=repr)
    return ev


def jsonable(x):
    import numpy as np

    if isinstance(x, dict):
        return {str(jsonable(k)): jsonable(v) for k, v in x.items()}
    if isinstance(x, (list, tuple)):
        return [jsonable(v) for v in x]
    if isinstance(x, (np.integer,)):
        return int(x)
    if isinstance(x, (np.floating, float)):
        x = float(x)
        if x != x:
            return "nan"
        if math.isinf(x):
            return "inf" if x > 0 else "-inf"
        return x
    if isinstance(x, (np.bool_,)):
        return bool(x)
    return x
