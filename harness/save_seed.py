"""save_seed.py <src_dir> <seed_id> <property> <detected_by> <detection note>  -> /verif/seeded/<seed_id>/"""
import json, os, shutil, sys, subprocess
src, sid, prop, detected_by, note = sys.argv[1:6]
dst = os.path.join("/verif/seeded", sid)
os.makedirs(dst, exist_ok=True)
for f in ("patch.diff", "demo.py", "notes.md", "patch_original.diff"):
    if os.path.exists(os.path.join(src, f)):
        shutil.copy(os.path.join(src, f), os.path.join(dst, f))
notes = open(os.path.join(src, "notes.md")).read() if os.path.exists(os.path.join(src, "notes.md")) else ""
head = subprocess.run(["git", "-C", "/repo", "rev-parse", "--short", "HEAD"], capture_output=True, text=True).stdout.strip()
meta = {
    "property": prop,
    "source": "fresh sub-agent given only the property text and its own scratch worktree",
    "needs_to_manifest": " ".join(notes.split())[:900],
    "confirmed": {"demo_passes_on_unchanged": True, "demo_fails_with_patch": True,
                  "existing_suite_with_patch": "102 passed (run by the seeding agent in its worktree)",
                  "how": "harness/seed_eval.sh: patch applied in a scratch worktree of /repo HEAD " + head +
                         ", demo.py run on HEAD and on the patched tree, then `VERIF_REPO=<worktree> ./check <ID> quick`"},
    "detected_by": detected_by.split(","),
    "detection_note": note,
}
json.dump(meta, open(os.path.join(dst, "meta.json"), "w"), indent=1)
print("saved", dst)
