"""./check <ID> [quick|thorough] | ./check <ID> --replay <file>

One driver for every property (DESIGN.md section 2.1):
  1. proof obligations: full build of /verif/coq, forbidden-word gate, Properties/<ID>.v recompiled
     and its Print Assumptions read back;
  2. correspondence: generated cases run on the implementation from /repo's working tree AND on
     the Gallina model (vm_compute inside coqc); the Coq side returns one verdict code per case;
  3. property oracle: the property's predicate evaluated on the implementation's own outputs;
  4. verdict, search when a proof or the correspondence broke, replay files, evidence.
"""
import importlib
import json
import os
import random
import sys
import time

sys.path.insert(0, os.path.dirname(os.path.abspath(__file__)))
import common as C  # noqa: E402

C.setup_impl_path()


def load_prop(pid):
    mod = importlib.import_module(f"props.{pid.lower()}")
    return mod.PROP


def match_known(pid, case, out, msg, known):
    for k in known:
        if k.get("property") != pid or k.get("status") != "known":
            continue
        sig = k.get("signature")
        prop = load_prop(pid)
        if sig and sig in prop.finding_signatures(case, out, msg):
            return k
    return None


def evaluate(prop, cases, use_coq):
    """runs cases on the implementation, the python-side oracle and (when the development builds)
    the Coq verdict function.  Verdict codes: 0 agree & holds, 1 model and implementation
    disagree, 2 property predicate (evaluated in Coq on the implementation's output) fails,
    3 outside the model's domain, 4 agree up to an exact tie of the measure."""
    outs = C.pmap(prop.run_impl, cases)
    skipped = sum(1 for o in outs if isinstance(o, dict) and "skip" in o)
    pairs = [(c, o) for c, o in zip(cases, outs) if not (isinstance(o, dict) and "skip" in o)]
    cases, outs = [c for c, _ in pairs], [o for _, o in pairs]
    harness_errors = [(c, o) for c, o in pairs if isinstance(o, dict) and "harness_error" in o]
    good = [(c, o) for c, o in pairs if not (isinstance(o, dict) and "harness_error" in o)]
    oracle_fail = []
    for c, o in good:
        ok, msg = prop.oracle(c, o)
        if not ok:
            oracle_fail.append((c, o, msg))
    codes, coq_err = None, None
    if use_coq and good:
        try:
            shards = prop.coq_shards([c for c, _ in good], [o for _, o in good])
            res = C.coq_eval(shards, prop.pid)
            codes = [x for r in res for x in r]
            if len(codes) != len(good):
                coq_err = f"expected {len(good)} verdict codes, got {len(codes)}"
                codes = None
        except C.CoqEvalError as e:
            coq_err = str(e)[:3000]
        except ValueError as e:
            coq_err = f"case encoding error: {e}"
    disagree, out_of_domain, ties = [], 0, 0
    if codes is not None:
        for (c, o), code in zip(good, codes):
            if code == 1:
                disagree.append((c, o))
            elif code == 3:
                out_of_domain += 1
            elif code == 4:
                ties += 1
            elif code == 2 and not any(c is cc for cc, _, _ in oracle_fail):
                oracle_fail.append((c, o, "property predicate evaluated in Coq fails on the "
                                          "implementation's output"))
    return dict(cases=cases, outs=outs, good=good, codes=codes, skipped=skipped,
                harness_errors=harness_errors, oracle_fail=oracle_fail, coq_err=coq_err,
                disagree=disagree, out_of_domain=out_of_domain, ties=ties)


def main(argv):
    if len(argv) < 2:
        print("usage: check <ID> [quick|thorough] | check <ID> --replay <file>")
        return 2
    pid = argv[1].upper()
    prop = load_prop(pid)
    if len(argv) >= 4 and argv[2] == "--replay":
        return replay(prop, argv[3])
    tier = argv[2] if len(argv) > 2 else os.environ.get("VERIF_TIER", "quick")
    if tier not in ("quick", "thorough"):
        tier = "quick"
    seed = C.seed_from_env()
    rng = random.Random(seed * 1000003 + sum(map(ord, pid)))
    t0 = time.time()
    known = C.load_known_findings()
    violations = []  # (replay_path, suffix)
    notes = []

    # ---- 1. proof obligations -------------------------------------------------------------
    bad_words = C.gate()
    ok_build, build_log = C.coq_build(prop.coq_targets or [f"Properties/{pid}.vo", f"Model/Check{pid}.vo"])
    pf = C.check_property_file(pid) if ok_build else {
        "theorems": [], "obligations": len(prop.theorems), "discharged": 0, "ok": False,
        "log": build_log[-3000:], "axioms": []}
    missing_thms = [t for t in prop.theorems if t not in pf["theorems"]] if ok_build else []
    proof_ok = ok_build and pf["ok"] and not bad_words and pf["obligations"] >= 1 and not missing_thms
    if missing_thms:
        notes.append("theorems required by the check but absent from Properties/%s.v: %s" % (pid, ", ".join(missing_thms)))
    if bad_words:
        notes.append("forbidden words: " + "; ".join(bad_words))
    print(f"[{pid}] proofs: build={'ok' if ok_build else 'FAILED'} theorems={pf['obligations']} "
          f"discharged={pf['discharged']} axioms={pf['axioms']} ({time.time()-t0:.0f}s)", flush=True)

    # ---- 2./3. correspondence + oracle ----------------------------------------------------
    cases = prop.corpus() + prop.generate(rng, tier)
    ev = evaluate(prop, cases, ok_build)
    cases, outs, good, codes = ev["cases"], ev["outs"], ev["good"], ev["codes"]
    skipped, harness_errors, oracle_fail = ev["skipped"], ev["harness_errors"], ev["oracle_fail"]
    coq_err, disagree, out_of_domain, ties = ev["coq_err"], ev["disagree"], ev["out_of_domain"], ev["ties"]
    print(f"[{pid}] {len(cases)} cases run on implementation and model ({time.time()-t0:.0f}s)", flush=True)

    # ---- 4. verdict -------------------------------------------------------------------------
    known_hits = {}
    reported = set()
    for c, o, msg in oracle_fail:
        k = match_known(pid, c, o, msg, known)
        if k is not None:
            known_hits.setdefault(k["id"], (k, c, o, msg))
            continue
        c2, o2, msg2 = prop.shrink(c, o, msg)
        path = C.write_replay(pid, {"property": pid, "kind": "failing-input", "case": c2,
                                    "impl_output": C.jsonable(o2), "why": msg2})
        if path not in reported:
            reported.add(path)
            violations.append((path, ""))
        if len(violations) >= 5:
            break
    for kid, (k, c, o, msg) in known_hits.items():
        print(f"KNOWN-FINDING: property={pid} {k['id']}: {k['what']}")

    broken = []
    if not proof_ok:
        broken.append({"what": "proof obligations", "theorems": pf.get("theorems"),
                       "discharged": pf.get("discharged"), "log": pf.get("log", "")[-1500:],
                       "forbidden": bad_words})
    if coq_err:
        broken.append({"what": "model evaluation failed", "log": coq_err})
    if disagree:
        broken.append({"what": "correspondence agree = false", "n": len(disagree),
                       "first_case": disagree[0][0], "impl_output": C.jsonable(disagree[0][1])})
    if harness_errors:
        broken.append({"what": "harness error while running the implementation",
                       "first": harness_errors[0][1], "case": harness_errors[0][0]})
    if codes is not None and out_of_domain * 100 > len(codes):
        broken.append({"what": f"{out_of_domain} cases outside the model's domain (>1%)"})
    searched = 0
    if broken and not violations:
        # search model and implementation for a concrete failing input
        budget = 10 if tier == "quick" else 20
        found = None
        neighbours = [c for c, _ in disagree[:20]]
        for rnd in range(budget):
            extra = prop.search_cases(rng, neighbours, rnd)
            ev2 = evaluate(prop, extra, ok_build)
            searched += len(extra)
            for c, o, msg in ev2["oracle_fail"]:
                if match_known(pid, c, o, msg, known) is None:
                    found = (c, o, msg)
                    break
            if found:
                break
        if found:
            c2, o2, msg2 = prop.shrink(*found)
            path = C.write_replay(pid, {"property": pid, "kind": "failing-input", "case": c2,
                                        "impl_output": C.jsonable(o2), "why": msg2,
                                        "found_by": "search after broken obligation", "broken": broken})
            violations.append((path, ""))
        else:
            path = C.write_replay(pid, {"property": pid, "kind": "no-failing-input-found",
                                        "broken": broken, "searched_cases": searched,
                                        "theorems": prop.theorems})
            violations.append((path, " no-failing-input-found"))

    # ---- evidence ---------------------------------------------------------------------------
    sigs = {}
    for c, o in zip(cases, outs):
        if isinstance(o, dict) and "harness_error" in o:
            continue
        s = prop.signature(c, o)
        if s is not None:
            sigs[s] = sigs.get(s, 0) + 1
    wall = time.time() - t0
    samples = [{"case": c, "impl_output": C.jsonable(o)} for c, o in list(zip(cases, outs))[:2]]
    coverage = {
        "obligations": max(1, pf["obligations"]),
        "discharged": pf["discharged"],
        "theorems": pf.get("theorems", []),
        "axioms_reported_by_Print_Assumptions": pf.get("axioms", []),
        "checker_cmd": f"cd /verif/coq && make && coqc -Q . AC Properties/{pid}.v",
        "trusted_base": C.TRUSTED_BASE + prop.trusted_extra,
        "evaluations": len(cases),
        "traces_validated_against_impl": 0 if codes is None else sum(1 for x in codes if x == 0),
        "model_disagreements": len(disagree),
        "agree_up_to_exact_tie": ties,
        "out_of_model_domain": out_of_domain,
        "skipped_outside_documented_domain": skipped,
        "distinct_nontrivial": len(sigs),
        "rule": prop.rule,
        "distribution": prop.distribution(cases, outs),
        "signature_histogram_top": dict(sorted(sigs.items(), key=lambda kv: -kv[1])[:12]),
        "samples": samples,
        "known_findings_hit": sorted(known_hits),
        "search_cases_after_break": searched,
        "notes": notes,
    }
    C.write_evidence(pid, tier, seed, coverage, wall, len(violations), prop.assumptions)
    for path, suffix in violations:
        print(f"VIOLATION property={pid} replay={path}{suffix}")
    print(f"[{pid}] {tier}: {len(cases)} cases, {len(sigs)} distinct signatures, "
          f"{len(disagree)} model disagreements, {len(oracle_fail)} oracle failures, "
          f"{len(violations)} violations, {wall:.0f}s")
    return 1 if violations else 0


def replay(prop, path):
    payload = json.load(open(path))
    if payload.get("kind") != "failing-input":
        print(json.dumps(payload, indent=1)[:6000])
        return 0
    case = payload["case"]
    out = C._worker((prop.run_impl, case))
    ok, msg = prop.oracle(case, out)
    print("case:", json.dumps(case)[:3000])
    print("implementation output:", json.dumps(C.jsonable(out), default=repr)[:3000])
    print("property holds:" if ok else "PROPERTY FAILS:", msg)
    try:
        res = C.coq_eval(prop.coq_shards([case], [out]), prop.pid + "_replay")
        print("model verdict code (0 agree, 1 disagree, 2 predicate fails, 3 outside domain):", res)
    except Exception as e:  # noqa: BLE001
        print("model evaluation failed:", str(e)[:2000])
    return 0 if ok else 1


if __name__ == "__main__":
    sys.exit(main(sys.argv))
