"""One real fit + transform in a fresh interpreter (own PYTHONHASHSEED), optionally with the
multiprocessing pools replaced by a stub that completes tasks in a chosen permuted order.
stdin: JSON {case, config}; stdout: last line JSON result."""
import json
import os
import random
import sys
import warnings

warnings.simplefilter("ignore")
sys.path.insert(0, os.environ.get("VERIF_REPO", "/repo"))
sys.path.insert(0, os.path.dirname(os.path.abspath(__file__)))

import numpy as np  # noqa: E402
import pandas as pd  # noqa: E402

from props.base import dec, decs, enc, encs  # noqa: E402

ARRIVALS = []


def install_stub(seed):
    rng = random.Random(seed)

    class _Async:
        def __init__(self, pool, idx):
            self.pool, self.idx = pool, idx

        def get(self, timeout=None):
            self.pool._flush()
            return self.pool.results[self.idx]

    class _Done:
        def __init__(self, value):
            self.value = value

        def get(self, timeout=None):
            return self.value

        def wait(self, timeout=None):
            pass

        def ready(self):
            return True

    class StubPool:
        def __init__(self, processes=None, *a, **k):
            self.tasks, self.results = [], {}

        def __enter__(self):
            return self

        def __exit__(self, *a):
            return False

        def imap_unordered(self, fn, iterable, chunksize=1):
            items = list(iterable)
            order = list(range(len(items)))
            rng.shuffle(order)
            res = [fn(items[i]) for i in order]
            ARRIVALS.append(["imap_unordered", [r[0] if isinstance(r, tuple) else None for r in res]])
            return iter(res)

        def apply_async(self, fn, args=(), kwds=None, callback=None, error_callback=None):
            self.tasks.append((fn, args, kwds or {}))
            return _Async(self, len(self.tasks) - 1)

        # ordered APIs: tasks are EXECUTED in a permuted order, results handed back in input order (what a
        # real pool guarantees), so that a harmless switch between Pool methods is not an alarm
        def _ordered(self, name, fn, items, star):
            order = list(range(len(items)))
            rng.shuffle(order)
            out = {}
            for i in order:
                out[i] = fn(*items[i]) if star else fn(items[i])
            ARRIVALS.append([name, [out[i][0] if isinstance(out[i], tuple) else None for i in order]])
            return [out[i] for i in range(len(items))]

        def map(self, fn, iterable, chunksize=None):
            return self._ordered("map", fn, list(iterable), False)

        def imap(self, fn, iterable, chunksize=1):
            return iter(self._ordered("imap", fn, list(iterable), False))

        def starmap(self, fn, iterable, chunksize=None):
            return self._ordered("starmap", fn, [tuple(a) for a in iterable], True)

        def map_async(self, fn, iterable, chunksize=None, callback=None, error_callback=None):
            return _Done(self.map(fn, iterable))

        def starmap_async(self, fn, iterable, chunksize=None, callback=None, error_callback=None):
            return _Done(self.starmap(fn, iterable))

        def close(self):
            pass

        def join(self):
            pass

        def terminate(self):
            pass

        def _flush(self):
            pending = [i for i in range(len(self.tasks)) if i not in self.results]
            rng.shuffle(pending)
            done = []
            for i in pending:
                fn, args, kwds = self.tasks[i]
                self.results[i] = fn(*args, **kwds)
                r = self.results[i]
                done.append(r[0] if isinstance(r, tuple) else None)
            if done:
                ARRIVALS.append(["apply_async", done])

    import AutoCarver.discretizers.utils.base_discretizers as m1
    import AutoCarver.discretizers.utils.quantitative_discretizers as m2
    import AutoCarver.discretizers.utils.type_discretizers as m3
    for m in (m1, m2, m3):
        m.Pool = StubPool


def build_frame(case, columns):
    cols = {}
    for name in columns:
        vals = decs(case["X"][name])
        if case["types"][name] == "quant_int":
            cols[name] = np.array(vals, dtype="int64")
        elif case["types"][name] == "quant":
            cols[name] = np.array(vals, dtype=float)
        else:
            cols[name] = pd.Series(vals, dtype=object)
    return pd.DataFrame(cols)


def reindex(X, y, kind):
    """the same rows under a non-default row index (outputs are compared row by row, by position)"""
    if not kind:
        return X, y
    n = len(X)
    idx = [f"r{(i * 7919) % n:05d}_{i}" for i in range(n)] if kind == "strings" else [(i * 7919 + 13) % (3 * n + 1) + 5 * n for i in range(n)]
    X = X.copy()
    X.index = idx
    if y is not None:
        y = y.copy()
        y.index = idx
    return X, y


def main():
    job = json.loads(sys.stdin.read())
    case, cfg = job["case"], job["config"]
    if cfg.get("stub_seed") is not None:
        install_stub(cfg["stub_seed"])
    from AutoCarver import BinaryCarver, ContinuousCarver
    from AutoCarver.discretizers import Discretizer
    feats = cfg["features"]
    quant = [f for f in feats if case["types"][f] in ("quant", "quant_int")]
    categ = [f for f in feats if case["types"][f] == "categ"]
    ordi = [f for f in feats if case["types"][f] == "ordinal"]
    vo = {f: decs(case["orders"][f]) for f in ordi}
    X, y = reindex(build_frame(case, cfg["columns"]), pd.Series(case["y"]), cfg.get("index"))
    n_jobs = cfg.get("n_jobs", 1)
    out = {"arrivals": ARRIVALS}
    sys_stdout = sys.stdout
    sys.stdout = open(os.devnull, "w")
    try:
        kind = case["klass"]
        if kind == "Discretizer":
            obj = Discretizer(quantitative_features=quant, qualitative_features=categ, ordinal_features=ordi,
                              values_orders=vo, min_freq=case["min_freq"], copy=True, n_jobs=n_jobs)
        elif kind == "BinaryCarver":
            obj = BinaryCarver(sort_by=case["sort_by"], min_freq=case["min_freq"], quantitative_features=quant,
                               qualitative_features=categ, ordinal_features=ordi, values_orders=vo,
                               max_n_mod=case["max_n_mod"], dropna=case["dropna"], output_dtype=case["output_dtype"],
                               copy=True, n_jobs=n_jobs)
        else:
            obj = ContinuousCarver(min_freq=case["min_freq"], quantitative_features=quant,
                                   qualitative_features=categ, ordinal_features=ordi, values_orders=vo,
                                   max_n_mod=case["max_n_mod"], dropna=case["dropna"],
                                   output_dtype=case["output_dtype"], copy=True, n_jobs=n_jobs)
        obj.fit(X, y)
        Xt = obj.transform(reindex(build_frame(case, cfg["columns"]), None, cfg.get("index"))[0])
        out["fit"] = "ok"
        out["features"] = sorted(obj.features)
        per = {}
        for f in obj.features:
            g = obj.values_orders[f]
            per[f] = {"keys": encs(list(g)), "content": [[enc(k), encs(v)] for k, v in g.content.items()],
                      "labels": encs(list(Xt[f]))}
        out["per"] = per
        out["untouched"] = {f: bool(((Xt[f] == X[f]) | (Xt[f].isna() & X[f].isna())).all())
                            for f in feats if f not in obj.features and f in Xt.columns}
        # probe frame: unseen values are injected into the qualitative features that have a default
        # group; the injected values are KNOWN modalities of the other qualitative columns
        Xp = build_frame(case, cfg["columns"])
        vocab = sorted({v for n_, t in case["types"].items() if t not in ("quant", "quant_int")
                        for v in decs(case["X"][n_]) if isinstance(v, str)})
        injected = []
        for f in sorted(obj.features):
            if case["types"][f] in ("quant", "quant_int") or not vocab:
                continue
            g = obj.values_orders[f]
            if obj.str_default in g.values():
                col = list(Xp[f])
                # prefer values that are NEW for f but known modalities of the other qualitative columns
                own = set(v for v in g.values() if isinstance(v, str))
                new_here = [v for v in vocab if v not in own] or vocab
                for i in range(len(col)):
                    if i % 7 == 3:
                        col[i] = new_here[(i // 7) % len(new_here)]
                Xp[f] = pd.Series(col, dtype=object)
                injected.append(f)
        out["probe_injected"] = injected
        try:
            Xpt = obj.transform(Xp)
            out["probe"] = {f: encs(list(Xpt[f])) for f in obj.features}
        except AssertionError:
            out["probe"] = "assert"
        except Exception as e:  # noqa: BLE001
            out["probe"] = "internal:" + type(e).__name__
        # independence under a manual edit: grouping the missing values of ONE feature must not change the
        # transform of the OTHER features (dropna=False objects: each feature keeps its own NaN flag)
        try:
            cand = [f for f in sorted(obj.features)
                    if obj.str_nan in list(obj.values_orders[f]) and len(list(obj.values_orders[f])) >= 2]
            if cand and len(obj.features) >= 2:
                f0 = cand[0]
                first = [k for k in obj.values_orders[f0] if k != obj.str_nan][0]
                obj.update_discretizer(f0, "group", float("nan"), first)
                Xe = obj.transform(build_frame(case, cfg["columns"]))
                out["after_edit"] = {"edited": f0,
                                     "labels": {f: encs(list(Xe[f])) for f in obj.features if f != f0}}
        except Exception as e:  # noqa: BLE001  (edits that are refused belong to C17)
            out["after_edit"] = {"error": f"{type(e).__name__}: {e}"[:200]}
    except AssertionError as e:
        out["fit"] = "assert"
        out["error"] = str(e)[:200]
    except Exception as e:  # noqa: BLE001
        out["fit"] = "internal"
        out["error"] = f"{type(e).__name__}: {e}"[:300]
    sys.stdout = sys_stdout
    print(json.dumps(out))


if __name__ == "__main__":
    main()
