"""Regenerates DESIGN.md section 0.3 (seeded changes and which checks catch them) from seeded/*/meta.json"""
import glob, json, os, re
V = os.path.dirname(os.path.dirname(os.path.abspath(__file__)))
rows = []
for d in sorted(glob.glob(os.path.join(V, "seeded", "*"))):
    m = json.load(open(os.path.join(d, "meta.json")))
    sid = os.path.basename(d)
    first = "at once" if m["detection_note"].startswith("caught at once") else "after strengthening" if "missed" in m["detection_note"] else "yes"
    rows.append(f"| `{sid}` | {m['property']} | {', '.join(m['detected_by'])} | {m['detection_note']} |")
n = len(rows)
missed_first = sum(1 for r in rows if "missed" in r)
txt = f"""### 0.3 Seeded changes (fresh sub-agents, property text + own worktree only) and the checks that catch them

{n} changes are kept under `seeded/<id>/` (`patch.diff`, `demo.py`, `notes.md`, `meta.json`); each compiles, passes the
pinned suite (102/102) and has a demonstration that fails with it and passes without it; each was confirmed with
`harness/seed_eval.sh` (scratch worktree of /repo HEAD + `VERIF_REPO`).  {missed_first} of them were missed by the quick tier
when first tried; the generators/observables were then strengthened (never the properties or the models' claims) until
every kept change is reported as a VIOLATION with a concrete replay, while the unchanged tree still exits 0.

| seeded change | breaks | caught by | how |
|---|---|---|---|
""" + "\n".join(rows) + "\n\n"
p = os.path.join(V, "DESIGN.md")
s = open(p).read()
start = s.find("### 0.3 Seeded changes")
sep = "---------------------------------------------------------------------------------------------\n\n## 1. What the code is"
if start >= 0:
    end = s.index(sep)
    s = s[:start] + txt + s[end:]
else:
    i = s.index(sep)
    s = s[:i] + txt + s[i:]
open(p, "w").write(s)
print(n, "seeds,", missed_first, "missed at first")
