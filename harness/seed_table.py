"""Regenerates DESIGN.md section 0.3 (seeded changes and which checks catch them) from seeded/*/meta.json"""
import glob, json, os, re
V = os.path.dirname(os.path.dirname(os.path.abspath(__file__)))
rows = []
for d in sorted(glob.glob(os.path.join(V, "seeded", "*"))):
    m = json.load(open(os.path.join(d, "meta.json")))
    sid = os.path.basename(d)
    first = "at once" if m["detection_note"].startswith("caught at once") else "after strengthening" if "missed" in m["detection_note"] else "yes"
    rows.append(f"| `{sid}` | {m['property']} | {', '.join(m['detected_by'])} | {m['detection_note']} |")
n = len(rows)
missed_first = sum(1 for r in rows if "missed" in r)
txt = f"""### 0.3 Seeded changes (fresh sub-agents, property text + own worktree only) and the checks that catch them

{n} changes are kept under `seeded/<id>/` (`patch.diff`, `demo.py`, `notes.md`, `meta.json`); each compiles, passes the
pinned suite (102/102) and has a demonstration that fails with it and passes without it; each was confirmed with
`harness/seed_eval.sh` (scratch worktree of /repo HEAD + `VERIF_REPO`).  {missed_first} of them were missed by the quick tier
when first tried; the generators/observables were then strengthened (never the properties or the models' claims) until
every kept change is reported as a VIOLATION with a concrete replay, while the unchanged tree still exits 0.

Rounds (each by fresh agents that saw only the property text, the list of ideas already used and their own
worktree): rounds 1-2: 57 changes, 23 missed at first; round 3: 38, 19 missed at first; round 4: 37, 15; round 5:
36, 12; round 6: 38, 11, one of them NOT caught by any check (`C05-r6s2`, a `BaseDiscretizer` built directly with
`str_nan=None`: documented exclusion); round 7 (seven properties only, two agents found no new idea that survives the test suite): 9, 2 (in rounds 5-6 about 5 per round are only visible to a sibling property's check, e.g. a change that needs `update_discretizer`
is C17's business even when it was written against C04).  What the misses had in common, and what was added each
time: rarely used keyword arguments (custom `str_nan`/`str_default`, `verbose`, `colsample`, `n_jobs`,
`min_freq_mod=0`), row indices other than `0..n-1`, dev samples that differ from train in one modality, call
sequences (queries between fit and transform, a second `select`/fit in the same process, edits before a JSON round
trip), special values (0.0 as a boundary, neighbouring doubles, +-inf, int64 above 2^53, numbers in qualitative
columns, sentinel tokens as data), names that contain other names, and exact boundary frequencies.  After every
generator change `harness/seed_regress.py` re-runs ALL kept changes, because a new random stream can lose an old
catch (it did, twice).

| seeded change | breaks | caught by | how |
|---|---|---|---|
""" + "\n".join(rows) + "\n\n"
p = os.path.join(V, "DESIGN.md")
s = open(p).read()
start = s.find("### 0.3 Seeded changes")
sep = "---------------------------------------------------------------------------------------------\n\n## 1. What the code is"
if start >= 0:
    end = s.index(sep)
    s = s[:start] + txt + s[end:]
else:
    i = s.index(sep)
    s = s[:i] + txt + s[i:]
open(p, "w").write(s)
print(n, "seeds,", missed_first, "missed at first")
