"""C01 — carvers pick the most target-associated viable ordered grouping (and C02 bounds).

One real fit per case: Discretizer(same params) gives the base modalities, the harness aggregates
train/dev targets per base modality by plain counting, the carver's fitted values_orders gives the
final grouping of base modalities; Coq recomputes the exhaustive search (model `carve`), the
property predicate `C01_b`/`C02_b` on the implementation's outcome, and compares."""
import math

import numpy as np

import common as C
from props.base import NAN, Prop, chunks, dec, decs, enc, encs

F = "f"


def mk_index(n, kind):
    """row index of a frame: default RangeIndex, offset ints, a permutation of 0..n-1, or strings"""
    if kind == "offset":
        return [i + 1000 for i in range(n)]
    if kind == "perm":
        return [(i * 7919 + 13) % n if math.gcd(7919, n) == 1 else (n - 1 - i) for i in range(n)]
    if kind == "str":
        return [f"r{i:05d}" for i in range(n)]
    return None


def mk_frame(col, name=F, index=None):
    import pandas as pd
    vals = decs(col)
    if all(isinstance(v, (int, float)) for v in vals):
        df = pd.DataFrame({name: np.array(vals, dtype=float)})
    else:
        df = pd.DataFrame({name: pd.Series(vals, dtype=object)})
    idx = mk_index(len(vals), index)
    if idx is not None:
        df.index = idx
    return df


def mk_target(ys, index=None):
    import pandas as pd
    s = pd.Series(ys)
    idx = mk_index(len(ys), index)
    if idx is not None:
        s.index = idx
    return s


def pregroup_of(case):
    """a previous discretization of a NON-ordinal feature handed over as a GroupedList with groups"""
    from AutoCarver.discretizers import GroupedList
    return GroupedList({dec(k): decs(vs) for k, vs in case["pregroup"]})


def build_carver(case, **extra):
    from AutoCarver import BinaryCarver, ContinuousCarver
    kw = dict(min_freq=case["min_freq"], max_n_mod=case["max_n_mod"], min_freq_mod=case["min_freq_mod"],
              dropna=case["dropna"], output_dtype=case["output_dtype"], copy=True, verbose=False)
    ft = case["ftype"]
    if ft == "quant":
        kw["quantitative_features"] = [F]
    elif ft == "categ":
        kw["qualitative_features"] = [F]
        if case.get("pregroup"):
            kw["values_orders"] = {F: pregroup_of(case)}
    else:
        kw["ordinal_features"] = [F]
        kw["values_orders"] = {F: decs(case["order"])}
    kw.update(case.get("kwargs", {}))
    kw.update(extra)
    if case["carver"] == "binary":
        return BinaryCarver(sort_by=case["sort_by"], **kw)
    return ContinuousCarver(**kw)


def build_discretizer(case):
    from AutoCarver.discretizers import Discretizer
    ft = case["ftype"]
    kw = dict(min_freq=case["min_freq"], copy=True, verbose=False)
    kw.update(case.get("kwargs", {}))
    if ft == "quant":
        return Discretizer(quantitative_features=[F], qualitative_features=[], **kw)
    if ft == "categ":
        if case.get("pregroup"):
            kw["values_orders"] = {F: pregroup_of(case)}
        return Discretizer(quantitative_features=[], qualitative_features=[F], **kw)
    return Discretizer(quantitative_features=[], qualitative_features=[], ordinal_features=[F],
                       values_orders={F: decs(case["order"])}, **kw)


def mset(ys):
    d = {}
    for v in ys:
        d[int(v)] = d.get(int(v), 0) + 1
    return sorted(d.items())


def run_fit(case):
    """shared by C01/C02: returns the observation dict"""
    import pandas as pd
    out = {}
    ik = case.get("index")
    X, y = mk_frame(case["X"], index=ik), mk_target(case["y"], ik)
    has_dev = case.get("Xdev") is not None
    Xd, yd = (mk_frame(case["Xdev"], index=ik), mk_target(case["ydev"], ik)) if has_dev else (None, None)
    # ---- base modalities through the real Discretizer ----------------------------------------
    try:
        disc = build_discretizer(case)
        xb = disc.fit_transform(mk_frame(case["X"], index=ik), y)
        if F not in disc.features:
            out["base"] = "dropped"
        else:
            order = list(disc.values_orders[F])
            labels = [disc.labels_per_values[F][v] for v in order]
            if len(set(map(str, labels))) != len(labels):
                return {"skip": "two base modalities share a label (O2, outside this model's domain)"}
            str_nan = disc.str_nan
            idx = {lab: i for i, lab in enumerate(l for l, v in zip(labels, order) if v != str_nan)}
            m = len(idx)
            has_nan = str_nan in order
            tr = [[] for _ in range(m)]
            trn = []
            for lab, t in zip(xb[F], y):
                (trn if lab == str_nan else tr[idx[lab]]).append(t)
            out["train_idx"] = [m if lab == str_nan else idx[lab] for lab in xb[F]]
            out["base"] = {"m": m, "has_nan": bool(has_nan), "train": [mset(u) for u in tr],
                           "train_nan": mset(trn) if has_nan else None,
                           "leaders": encs([v for v in order if v != str_nan])}
            if has_dev:
                try:
                    xdb = disc.transform(mk_frame(case["Xdev"], index=ik), yd)
                    dv = [[] for _ in range(m)]
                    dvn = []
                    for lab, t in zip(xdb[F], yd):
                        (dvn if lab == str_nan else dv[idx[lab]]).append(t)
                    out["base"]["dev"] = [mset(u) for u in dv]
                    out["base"]["dev_nan"] = mset(dvn)
                except AssertionError:
                    out["base"]["dev"] = "assert"
    except AssertionError:
        out["base"] = "assert"
    # ---- the carver --------------------------------------------------------------------------
    if case.get("primer"):
        # another carver fitted FIRST in the same process on the same sample with a larger max_n_mod: nothing
        # it computes may be carried over to the carver under test (module-level caches, shared objects)
        try:
            primer = build_carver(dict(case, max_n_mod=case["max_n_mod"] + 2))
            if has_dev:
                primer.fit(mk_frame(case["X"], index=ik), mk_target(case["y"], ik),
                           X_dev=mk_frame(case["Xdev"], index=ik), y_dev=mk_target(case["ydev"], ik))
            else:
                primer.fit(mk_frame(case["X"], index=ik), mk_target(case["y"], ik))
        except Exception:  # noqa: BLE001  (the primer's own outcome is not under test)
            pass
    try:
        carver = build_carver(case)
        if has_dev:
            carver.fit(X, y, X_dev=Xd, y_dev=yd)
        else:
            carver.fit(X, y)
    except AssertionError:
        out["fit"] = "assert"
        return out
    except Exception as e:  # noqa: BLE001
        out["fit"] = "internal"
        out["error"] = f"{type(e).__name__}: {e}"[:300]
        return out
    out["fit"] = "ok"
    out["kept"] = F in carver.features
    if out["kept"] and isinstance(out.get("base"), dict):
        vo = carver.values_orders[F]
        base_leaders = decs(out["base"]["leaders"])
        groups = []
        for leader in list(vo):
            members = vo.content[leader]
            g = [i for i, b in enumerate(base_leaders) if any(_same(b, x) for x in members)]
            if any(x == carver.str_nan for x in members if isinstance(x, str)) and case["dropna"]:
                g.append(out["base"]["m"])
            if g:
                groups.append(sorted(g))
        out["groups"] = groups
        # transform outputs for the C02 oracle
        xt = carver.transform(mk_frame(case["X"], index=ik))
        out["train_labels"] = encs(list(xt[F]))
        if has_dev:
            xdt = carver.transform(mk_frame(case["Xdev"], index=ik))
            out["dev_labels"] = encs(list(xdt[F]))
    return out


def _same(a, b):
    if isinstance(a, str) or isinstance(b, str):
        return isinstance(a, str) and isinstance(b, str) and a == b
    return a == b


# ---- generation ------------------------------------------------------------------------------
def gen_case(rng, kind=None):
    carver = rng.choice(["binary", "binary", "continuous"])
    ftype = rng.choice(["quant", "ordinal", "categ"])
    m = rng.randint(2, 8)
    n = rng.choice([40, 60, 100, 150, 240, 400, 600])
    min_freq = rng.choice([0.05, 0.1, 0.1, 0.15, 0.2, 0.25])
    max_n_mod = rng.randint(2, 6)
    dropna = rng.random() < 0.7
    nan_share = rng.choice([0, 0, 0.05, 0.15, 0.3])
    kind = kind or rng.choice(["plain", "plain", "tied_rates", "sym", "boundary", "dev", "dev", "dev", "dev",
                               "dev_missing", "dev_invert", "dev_nan_shift", "few"])
    if kind == "dev_nan_shift":
        # missing values behave differently on the dev sample: placements of the NaN bucket tend to fail
        dropna = True
        nan_share = rng.choice([0.1, 0.15, 0.3])
    if kind == "few":
        m = rng.randint(1, 2)
    # counts per modality
    w = [rng.random() + 0.3 for _ in range(m)]
    tot = sum(w)
    n_nan = int(n * nan_share)
    cnt = [max(1, int((n - n_nan) * x / tot)) for x in w]

    def targets(c, base):
        if carver == "binary":
            p = min(0.95, max(0.05, base))
            n1 = min(c, max(0, int(round(c * p)) + rng.choice([0, 0, 1, -1])))
            return [1] * n1 + [0] * (c - n1)
        lo = int(base * 20)
        return [rng.randint(lo, lo + 6) for _ in range(c)]

    bases = [rng.random() for _ in range(m)]
    if rng.random() < 0.5:
        bases.sort()
    if kind == "tied_rates" and m >= 3:
        i = rng.randrange(m - 1)
        bases[i + 1] = bases[i]
        cnt[i + 1] = cnt[i]
    ys_mod = [targets(c, b) for c, b in zip(cnt, bases)]
    if kind == "tied_rates" and m >= 3:
        ys_mod[i + 1] = list(ys_mod[i])
    if kind == "sym" and m >= 3:
        ys_mod[-1] = list(ys_mod[0])
        cnt[-1] = cnt[0]
    nan_base = rng.choice([0.03, 0.97]) if kind == "dev_nan_shift" else rng.random()
    ys_nan = targets(n_nan, nan_base) if n_nan else []
    vals = modal_values(ftype, m, rng)
    col, y = [], []
    for v, ys in zip(vals, ys_mod):
        col += [v] * len(ys)
        y += ys
    col += [NAN] * len(ys_nan)
    y += ys_nan
    perm = list(range(len(col)))
    rng.shuffle(perm)
    col, y = [col[i] for i in perm], [y[i] for i in perm]
    if carver == "binary" and (sum(y) == 0 or sum(y) == len(y)):
        y[0] = 1 - y[0]
    if carver == "continuous" and len(set(y)) < 3:
        y[:3] = [0, 7, 13]
    case = {"carver": carver, "sort_by": rng.choice(["tschuprowt", "cramerv"]) if carver == "binary" else "kruskal",
            "ftype": ftype, "min_freq": min_freq, "max_n_mod": max_n_mod, "dropna": dropna,
            "output_dtype": rng.choice(["float", "str"]), "X": encs(col), "y": y, "kind": kind,
            "order": encs(vals) if ftype == "ordinal" else None, "Xdev": None, "ydev": None,
            "index": rng.choice([None, None, "offset", "perm", "str"])}
    case["primer"] = rng.random() < 0.25
    # rarely used keyword arguments: custom sentinels, verbose printing of the crosstabs
    r = rng.random()
    if r < 0.3:
        case["kwargs"] = rng.choice([{"str_nan": "MISSING"}, {"str_default": "RARE"},
                                     {"str_nan": "MISSING", "str_default": "RARE"},
                                     {"verbose": True, "pretty_print": False},
                                     {"verbose": True, "pretty_print": False, "str_nan": "MISSING"}])
    # min_freq_mod: default, or exactly on / next to a frequency present in the data
    r = rng.random()
    ntot = len(col)
    if r < 0.35:
        case["min_freq_mod"] = None
    elif r < 0.47:
        case["min_freq_mod"] = rng.choice([0, 0.0, 0, 1e-9])   # explicit "no minimum" (0 is falsy)
    else:
        c0 = rng.choice(cnt) + (rng.choice(cnt) if rng.random() < 0.5 else 0)
        denom = ntot if (dropna or not n_nan) else ntot - n_nan
        f = c0 / denom
        f = min(f, 0.45)
        case["min_freq_mod"] = rng.choice([f, math.nextafter(f, 1), math.nextafter(f, 0), f / 2])
    if kind.startswith("dev"):
        dcol, dy = [], []
        dcnt = list(cnt)
        dys = []
        for j, (c, b) in enumerate(zip(cnt, bases)):
            bb = b
            if kind == "dev_invert" and j == rng.randrange(m):
                bb = 1 - b
            c2 = max(0, c + rng.randint(-c // 3, c // 3))
            if kind == "dev_missing" and j == 0:
                c2 = 0
            dys.append(targets(c2, min(0.95, max(0.05, bb + rng.uniform(-0.1, 0.1)))))
        for v, ys in zip(vals, dys):
            dcol += [v] * len(ys)
            dy += ys
        if n_nan and (kind == "dev_nan_shift" or rng.random() < 0.8):
            ysn = targets(n_nan, (1 - nan_base) if kind == "dev_nan_shift" else rng.random())
            dcol += [NAN] * len(ysn)
            dy += ysn
        if carver == "binary" and (sum(dy) == 0 or sum(dy) == len(dy)) and dy:
            dy[0] = 1 - dy[0]
        case["Xdev"], case["ydev"] = encs(dcol), dy
        # min_freq_mod exactly on / next to a frequency of the DEV sample (one modality or two
        # adjacent ones), so that the dev frequency test sits on its boundary
        if rng.random() < 0.5:
            dc = [len(u) for u in dys]
            j = rng.randrange(len(dc))
            c0 = dc[j] + (dc[j + 1] if j + 1 < len(dc) and rng.random() < 0.5 else 0)
            n_dev_nan = sum(1 for t in dcol if isinstance(t, float) and t != t)
            denom = len(dcol) if (dropna or not n_dev_nan) else len(dcol) - n_dev_nan
            if c0 > 0 and denom > 0:
                f = min(c0 / denom, 0.45)
                case["min_freq_mod"] = rng.choice([f, f, math.nextafter(f, 1), math.nextafter(f, 0)])
    return case


def modal_values(ftype, m, rng):
    if ftype == "quant":
        start = rng.choice([0, -3, 10])
        step = rng.choice([1, 1, 2, 0.5])
        return [start + i * step for i in range(m)]
    names = ["a", "b", "c", "d", "e", "g", "h", "k", "m"]
    if ftype == "categ":
        rng.shuffle(names)
    return names[:m]


def cms(ms):
    return C.clist([f"({C.cZ(v)}, {C.cZ(c)})" for v, c in ms])


def coq_case(case, out):
    b = out["base"]
    mfm = case["min_freq_mod"] if case["min_freq_mod"] is not None else case["min_freq"] / 2
    kind = {"tschuprowt": "Tschuprowt", "cramerv": "Cramerv", "kruskal": "Kruskal"}[case["sort_by"]]
    m_, e_ = C.float_to_me(float(mfm))
    cfg = (f"(mkCfg {C.cnat(case['max_n_mod'])} (f_of_dyadic {C.cZ(m_)} {C.cZ(e_)}) "
           f"{C.cbool(case['dropna'])} {kind})")
    train = C.clist([cms(u) for u in b["train"]])
    tn = C.copt(cms(b["train_nan"])) if b["train_nan"] is not None else "None"
    if "dev" in b:
        dev = f"(Some {C.clist([cms(u) for u in b['dev']])})"
        dn = f"(Some {cms(b['dev_nan'])})" if b["has_nan"] else "None"
    else:
        dev, dn = "None", "None"
    data = f"(mkData {train} {tn} {dev} {dn})"
    if out["kept"]:
        impl = "(Kept " + C.clist([C.clist([C.cnat(i) for i in g]) for g in out["groups"]]) + ")"
    else:
        impl = "Dropped"
    return f"mkC01 {cfg} {data} {impl}"


class C01(Prop):
    pid = "C01"
    theorems = ["C01_enumeration_complete", "C01_nan_enumeration_complete", "C01_first_viable_is_argmax",
                "C01_kept_grouping_is_optimal", "C01_kept_nan_placement_is_optimal",
                "C01_dropped_iff_no_viable_candidate", "C01_viable_means",
                "C01_checker_predicate_holds_on_model"]
    rule = ("one real carver fit per case (BinaryCarver with both measures / ContinuousCarver with "
            "integer-valued y) on a single quantitative, ordinal or categorical feature: 1-8 base "
            "modalities, 40-600 rows, NaN share 0-30%, max_n_mod 2-6, min_freq_mod default or exactly "
            "on/next to a frequency present in the data, planted equal target rates, symmetric tables "
            "(equal measures), dev samples (perturbed, rank-inverting, missing a modality); non-trivial "
            "= the base discretization left at least 2 modalities; distinct = (carver, measure, feature "
            "type, #modalities, NaN?, dev?, outcome, #groups, NaN placement) signature")
    assumptions = ["continuous targets are integer valued (exact sums; one rounded division per mean)",
                   "cases where two base quantile labels collide at 4 significant digits are skipped here (C04)",
                   "candidates whose exact measures agree within 1e-9 relative are treated as tied: any of "
                   "them is accepted",
                   "scipy chi2_contingency / kruskal are trusted to be monotone images of the exact values"]

    def generate(self, rng, tier):
        n = 700 if tier == "quick" else 6000
        return [gen_case(rng) for _ in range(n)]

    def search_cases(self, rng, neighbours, rnd):
        return [gen_case(rng) for _ in range(300)]

    def run_impl(self, case):
        return run_fit(case)

    def usable(self, out):
        return isinstance(out.get("base"), dict) and out.get("fit") == "ok" and out["base"].get("dev") != "assert"

    def oracle(self, case, out):
        if out.get("fit") == "internal":
            return False, "fit raised a non-assertion error: " + out.get("error", "")
        b = out.get("base")
        if b == "dropped" and out.get("fit") == "ok" and out.get("kept"):
            return False, "carver kept a feature its own base discretization drops"
        if isinstance(b, dict) and b.get("dev") == "assert" and out.get("fit") == "ok":
            return False, "dev sample rejected by the base discretizer but accepted by the carver"
        if self.usable(out) and out["kept"]:
            flat = sorted(i for g in out["groups"] for i in g)
            exp = list(range(b["m"])) + ([b["m"]] if (b["has_nan"] and case["dropna"]) else [])
            if flat != exp:
                return False, f"fitted groups {out['groups']} are not a partition of the base modalities {exp}"
            if [i for g in out["groups"] for i in g if i < b["m"]] != list(range(b["m"])):
                return False, f"fitted groups {out['groups']} are not order-contiguous"
        return True, ""

    def coq_shards(self, cases, outs):
        shards = []
        for part in chunks(list(zip(cases, outs)), 12):
            terms = []
            for c, o in part:
                if self.usable(o):
                    terms.append("verdict (" + coq_case(c, o) + ")")
                else:
                    terms.append("0%nat")
            shards.append("From Coq Require Import ZArith List.\nImport ListNotations.\n"
                          "From AC.Model Require Import Float Combos Measures Carve CheckC01.\n"
                          "Open Scope Z_scope.\n"
                          "Eval vm_compute in [" + ";\n ".join(terms) + "].\n")
        return shards

    def signature(self, case, out):
        b = out.get("base")
        if not isinstance(b, dict):
            return f"base:{b}|fit:{out.get('fit')}"
        if b["m"] < 2:
            return None
        g = out.get("groups")
        nanpos = "-"
        if g and b["has_nan"] and case["dropna"]:
            nanpos = next((("alone" if len(x) == 1 else "in") for x in g if b["m"] in x), "?")
        return "|".join(map(str, [case["carver"], case["sort_by"], case["ftype"], b["m"], b["has_nan"],
                                  case["Xdev"] is not None, out.get("fit"), out.get("kept"),
                                  len(g) if g else 0, nanpos, case["dropna"]]))

    def finding_signatures(self, case, out, msg):
        sigs = []
        if "expected frequencies has a zero element" in out.get("error", ""):
            sigs.append("chi2_zero_expected_all_one_class_among_non_missing")
        return sigs

    def distribution(self, cases, outs):
        d = {"carver": {}, "ftype": {}, "kind": {}, "fit": {}, "kept": 0, "dropped": 0, "with_dev": 0,
             "with_nan": 0}
        for c, o in zip(cases, outs):
            for k in ("carver", "ftype", "kind"):
                d[k][c[k]] = d[k].get(c[k], 0) + 1
            if isinstance(o, dict):
                d["fit"][str(o.get("fit"))] = d["fit"].get(str(o.get("fit")), 0) + 1
                if o.get("kept"):
                    d["kept"] += 1
                elif o.get("fit") == "ok":
                    d["dropped"] += 1
            d["with_dev"] += c["Xdev"] is not None
            d["with_nan"] += any(t == ["nan"] for t in c["X"])
        return d

    def shrink(self, case, out, msg):
        return case, out, msg


PROP = C01()
