"""C15 — Feature selection is invariant under re-encodings that keep the information.

Metamorphic pairs run on the REAL selectors (ClassificationSelector / RegressionSelector): a frame
and its re-encoding (negation / positive rescaling of a quantitative feature, renaming of the
categories of a qualitative feature, row permutation, column permutation, renamed columns, an
added exact copy / strictly monotone function of the target).  Both runs are also compared with
the Gallina model of the selection logic (Model/Selector.v through CheckC14.agree); the predicate
"same selection up to the renaming, copy of the target returned" is evaluated in Coq
(CheckC15.C15_b) and in Python (oracle, for search / shrink / replay)."""
import copy
import math

import common as C
from props import c14
from props.base import NAN, Prop, chunks, decs, encs

KINDS = ["negate", "scale", "rename_cat", "perm_rows", "perm_cols", "rename_feat", "copy", "copy",
         "perm_x_only", "perm_y_only"]


def isnan(v):
    return isinstance(v, float) and v != v


# ~1e-15, 1e-12, 1e-9, 1e9, 1e12: powers of two, exact in binary64
EXTREME = [2.0 ** -50, 2.0 ** -40, 2.0 ** -40, 2.0 ** -30, 2.0 ** 30, 2.0 ** 40]


def transform(rng, a, kind, target=None, extreme=False):
    """returns (b, ren: {name_in_a: name_in_b}, must: list of names of a that must be returned)"""
    b = copy.deepcopy(a)
    ren = {n: n for n, _ in a["quanti"] + a["quali"]}
    must = []
    if kind in ("negate", "scale") and a["quanti"]:
        i = rng.randrange(len(a["quanti"])) if target is None else target
        col = decs(a["quanti"][i][1])
        f = -1 if kind == "negate" else rng.choice([2, 3, 0.5, 10, 7])
        off = 0
        if kind == "scale" and (extreme or rng.random() < 0.35):
            # factors far from 1 (powers of two: every product is exact), also with an offset when the
            # sum is exact too (strictly increasing affine map: same information)
            f = rng.choice(EXTREME)
            obs = [v for v in col if not isnan(v) and not math.isinf(v)]
            # offsets on the scale of the rescaled data: a large offset next to a tiny spread makes
            # the floating-point R^2 / Pearson r of the implementation meaningless (cancellation)
            off = rng.choice([0, 0, f, -3 * f, 1024 * f] + ([1, -7] if f > 1 else []))
            # the affine map must be EXACT in binary64 (otherwise values collapse / ties appear)
            if any(c14.Fr(v) * c14.Fr(f) + c14.Fr(off) != c14.Fr(v * f + off) for v in obs):
                off = 0
        new = [v if isnan(v) else v * f + off for v in col]
        if any(isinstance(v, float) for v in new):
            new = [float(v) for v in new]
        b["quanti"][i][1] = encs(new)
    elif kind == "rename_cat" and a["quali"]:
        i = rng.randrange(len(a["quali"]))
        col = decs(a["quali"][i][1])
        levels = sorted({v for v in col if not isnan(v)})
        new_names = ["L%02d" % (len(levels) - k) for k in range(len(levels))]  # reverses the order too
        mp = dict(zip(levels, new_names))
        b["quali"][i][1] = encs([v if isnan(v) else mp[v] for v in col])
    elif kind == "perm_rows":
        idx = list(range(a["n"]))
        rng.shuffle(idx)
        b["y"] = [a["y"][k] for k in idx]
        b["quanti"] = [[n, [col[k] for k in idx]] for n, col in a["quanti"]]
        b["quali"] = [[n, [col[k] for k in idx]] for n, col in a["quali"]]
    elif kind in ("perm_x_only", "perm_y_only"):
        # the same data set by LABEL alignment: only X (with its index labels) or only y is re-ordered
        n = a["n"]
        labels = list(range(n))
        how = rng.choice(["range", "ints", "strs"])
        if how == "ints":
            labels = rng.sample(range(1000), n)
        elif how == "strs":
            labels = ["r%03d" % v for v in rng.sample(range(1000), n)]
        if how != "range":
            a = copy.deepcopy(a)
            a["xi"], a["yi"] = encs(labels), encs(labels)
            b = copy.deepcopy(a)
        idx = list(range(n))
        rng.shuffle(idx)
        if kind == "perm_x_only":
            b["quanti"] = [[nm, [col[k] for k in idx]] for nm, col in a["quanti"]]
            b["quali"] = [[nm, [col[k] for k in idx]] for nm, col in a["quali"]]
            b["xi"], b["yi"] = encs([labels[k] for k in idx]), encs(labels)
        else:
            b["y"] = [a["y"][k] for k in idx]
            b["xi"], b["yi"] = encs(labels), encs([labels[k] for k in idx])
    elif kind == "perm_cols":
        rng.shuffle(b["quanti"])
        rng.shuffle(b["quali"])
    elif kind == "rename_feat":
        names = [n for n, _ in a["quanti"] + a["quali"]]
        new = ["w%d" % k for k in range(len(names))]
        rng.shuffle(new)
        ren = dict(zip(names, new))
        b["quanti"] = [[ren[n], col] for n, col in a["quanti"]]
        b["quali"] = [[ren[n], col] for n, col in a["quali"]]
    elif kind == "copy":
        # the frame itself gets one more feature; a and b are the same frame, b with rows permuted
        y = decs(a["y"])
        numeric = not any(isinstance(v, str) for v in y)
        if numeric and (a["quanti"] or not a["quali"]) and rng.random() < 0.7:
            how = rng.choice(["copy", "affine", "cube"])
            col = [float(v) if how == "copy" else (2.0 * v + 1 if how == "affine" else float(v) ** 3) for v in y]
            a = copy.deepcopy(a)
            a["quanti"].append(["tq", encs(col)])
            must = ["tq"]
        else:
            labs = sorted({str(v) for v in y})
            mp = {l: "T%d" % (len(labs) - k) for k, l in enumerate(labs)}
            a = copy.deepcopy(a)
            a["quali"].append(["ts", encs([mp[str(v)] for v in y])])
            must = ["ts"]
        b = copy.deepcopy(a)
        ren = {n: n for n, _ in a["quanti"] + a["quali"]}
    return a, b, ren, must


def gen_pair(rng, kind=None):
    for _ in range(50):
        a = c14.gen_case(rng)
        nf = len(a["quanti"]) + len(a["quali"])
        if not 0 < a["n_best"] <= nf + 1:
            continue
        k = kind or rng.choice(KINDS)
        if k in ("negate", "scale") and not a["quanti"]:
            continue
        if k == "rename_cat" and not a["quali"]:
            continue
        if k == "copy":
            y = decs(a["y"])
            if a["task"] == "regression" and len(set(y)) > 6 and not a["quanti"]:
                continue
        a2, b, ren, must = transform(rng, a, k)
        return {"kind": k, "a": a2, "b": b, "ren": ren, "must": must}
    raise RuntimeError("no pair generated")


def gen_special_pair(rng, which):
    """pairs built on the boundary-directed C14 generators"""
    if which == "iqr":  # screening by iqr_measure must not depend on the sign / scale of the feature
        a = c14.gen_iqr_case(rng)
        k = rng.choice(["negate"] * 5 + ["scale"])
        a2, b, ren, must = transform(rng, a, k, target=0)
    elif which == "inf":  # +-inf cells: negation swaps them, a strictly increasing map keeps them
        a = c14.gen_inf_case(rng)
        k = rng.choice(["negate", "negate", "negate", "scale"])
        a2, b, ren, must = transform(rng, a, k, target=0)
    elif which == "tiny":  # as many rows as columns of the association table
        a = c14.gen_tiny_case(rng)
        k = rng.choice(["perm_rows", "perm_cols", "rename_feat", "copy", "copy", "perm_x_only"])
        a2, b, ren, must = transform(rng, a, k)
    else:
        a = c14.gen_two_measure_case(rng) if which == "two" else c14.gen_quali_filter_case(rng)
        k = rng.choice(["perm_rows", "perm_cols", "rename_feat", "rename_cat" if a["quali"] else "negate"])
        a2, b, ren, must = transform(rng, a, k)
    return {"kind": k, "a": a2, "b": b, "ren": ren, "must": must}


def gen_colsample_pair(rng):
    """colsample < 1: the same frame selected under two random seeds.  The feature list is shuffled
    and cut in int(1/colsample) samples (feature counts that are NOT multiples of it), n_best // 2
    features are pre-selected per sample, then n_best among them: the weak features may differ
    between the two runs (free), the copy of the target must be returned by both, and the measured
    samples must be a partition of the shuffled list."""
    n = rng.choice([20, 30, 40])
    k = rng.choice([2, 2, 3])
    labs = rng.choice([list(range(k)), [10 * i + 1 for i in range(k)]])
    y = [labs[i % k] for i in range(n)]
    rng.shuffle(y)
    yn = [labs.index(v) for v in y]
    cs = rng.choice([0.5, 0.34, 0.25])
    nq = rng.choice([3, 5, 6, 7, 9]) if cs != 0.25 else rng.choice([5, 6, 7, 9, 10])
    quanti, quali = [], []
    for _ in range(nq - 1):
        w = rng.choice([3, 5, 8])
        quanti.append([rng.choice([0, 1, 2]) * v + rng.randint(0, w) + (0 if rng.random() < 0.8 else rng.randint(0, 9))
                       for v in yn])
    how = rng.choice(["copy", "affine", "cube"])
    tq = [float(v) if how == "copy" else (2.0 * v + 1 if how == "affine" else float(v) ** 3) for v in y]
    qn = ["q%d" % i for i in range(nq - 1)] + ["tq"]
    quanti.append(tq)
    must = ["tq"]
    ln = []
    if rng.random() < 0.3:  # a second dtype: chunks is computed from ALL features, samples may be empty
        for i in range(rng.choice([2, 3])):
            quali.append(["abc"[rng.randrange(3)] for _ in y])
            ln.append("s%d" % i)
        quali.append(["T%d" % v for v in yn])
        ln.append("ts")
        must.append("ts")
    order = list(range(len(quanti)))
    rng.shuffle(order)
    nf = len(quanti) + len(quali)
    kw = {} if rng.random() < 0.6 else {"thresh_corr": rng.choice([1.0, 0.9])}
    a = c14.mk_case("classification", y, [quanti[i] for i in order], quali, rng.choice([1, 1, 2, 3, 4, min(5, nf)]),
                    None, None, None, None, kw, qnames=[qn[i] for i in order], lnames=ln or None)
    a["colsample"] = float(cs).hex()
    a["rseed"] = rng.randrange(10 ** 6)
    b = copy.deepcopy(a)
    b["rseed"] = rng.randrange(10 ** 6)
    return {"kind": "colsample", "a": a, "b": b, "ren": {f: f for f in qn + ln}, "must": must, "free": True}


def gen_extreme_scale_pair(rng):
    """positive rescaling by a factor far from 1 (2^-40 ... 2^40, optionally with an offset)"""
    for _ in range(50):
        a = c14.gen_case(rng)
        nf = len(a["quanti"]) + len(a["quali"])
        if not a["quanti"] or not 0 < a["n_best"] <= nf + 1 or a["n"] < 12:
            continue
        if rng.random() < 0.7 and "kruskal" not in c14.case_lists(a, "float")[0]:
            continue  # mostly the rank-based default measure of ClassificationSelector
        # rescale a feature that varies (a constant / all-missing one is left out anyway)
        idx = [i for i, (_, col) in enumerate(a["quanti"])
               if len({v for v in decs(col) if not isnan(v)}) > 2]
        if not idx:
            continue
        a2, b, ren, must = transform(rng, a, "scale", target=rng.choice(idx), extreme=True)
        return {"kind": "scale", "a": a2, "b": b, "ren": ren, "must": must}
    raise RuntimeError("no pair generated")


def gen_twice_other_target_pair(rng):
    """a selector object that already selected on (X, y_first) selects on (X, y) where a feature is an
    exact copy of y: the copy must be returned and the result must equal a fresh selector's"""
    for _ in range(50):
        a = c14.gen_case(rng)
        nf = len(a["quanti"]) + len(a["quali"])
        if not 0 < a["n_best"] <= nf + 1 or a["n"] < 12:
            continue
        first_y = a["y"]
        y = c14.gen_y(rng, a["n"], a["task"])
        a = copy.deepcopy(a)
        a["y"] = encs(y)
        if not any(isinstance(v, str) for v in y) and rng.random() < 0.7:
            a["quanti"].append(["tq", encs([float(v) for v in y])])
            must = ["tq"]
        else:
            labs = sorted({str(v) for v in y})
            mp = {l: "T%d" % k for k, l in enumerate(labs)}
            a["quali"].append(["ts", encs([mp[str(v)] for v in y])])
            must = ["ts"]
        ren = {n: n for n, _ in a["quanti"] + a["quali"]}
        return {"kind": "twice_other_target", "a": a, "b": copy.deepcopy(a), "ren": ren, "must": must,
                "first_y": first_y}
    raise RuntimeError("no pair generated")


def gen_yates_pair(rng):
    """exact (relabelled) copy of a BINARY target among qualitative features + a finer feature nested
    in the classes (+ noise), n_best = 1 or below the number of features, several class balances:
    the 2 x 2 table of the copy gets scipy's Yates correction, the finer feature does not"""
    n0, n1 = rng.choice([(6, 6), (2, 18), (3, 27), (5, 10), (10, 10), (4, 8), (9, 3)])
    y = [0] * n0 + [1] * n1
    rng.shuffle(y)
    labs = rng.choice([[0, 1], [1, 11], ["c0", "c1"]])
    copy_ = ["T%d" % v for v in y]
    split = rng.choice(["one", "both"])
    finer = []
    for v in y:
        if v == 1 or split == "both":
            finer.append("%s%d" % ("pq"[v], rng.randrange(rng.choice([2, 2, 3]))))
        else:
            finer.append("p")
    for v in (0, 1):  # every sub-category is observed
        idx = [i for i, w in enumerate(y) if w == v]
        if v == 1 or split == "both":
            for k_, i in enumerate(idx[:2]):
                finer[i] = "%s%d" % ("pq"[v], k_)
    cols, names = [copy_, finer], ["copy", "finer"]
    for i in range(rng.choice([0, 0, 1, 2])):
        cols.append(["abc"[rng.randrange(3)] for _ in y])
        names.append("s%d" % i)
    order = list(range(len(cols)))
    rng.shuffle(order)
    lm = rng.choice([None, ["cramerv"], ["cramerv"], ["tschuprowt"]])
    lf = rng.choice([[], [], None])
    a = c14.mk_case("classification", [labs[v] for v in y], [], [cols[i] for i in order],
                    rng.choice([1, 1, max(1, len(cols) - 1)]), None, lm, None, lf, {},
                    lnames=[names[i] for i in order])
    k = rng.choice(["same", "perm_rows"])
    b = copy.deepcopy(a)
    if k == "perm_rows":
        idx = list(range(a["n"]))
        rng.shuffle(idx)
        b["y"] = [a["y"][i] for i in idx]
        b["quali"] = [[nm, [col[i] for i in idx]] for nm, col in a["quali"]]
    return {"kind": "copy", "a": a, "b": b, "ren": {f: f for f in names}, "must": ["copy"]}


def type_of(case, name):
    return "float" if name in [n for n, _ in case["quanti"]] else "str"


class C15(Prop):
    pid = "C15"
    theorems = ["C15_select_equivariant", "C15_select_input_order_irrelevant", "C15_ranks_monotone",
                "C15_ranks_antitone", "C15_kruskal_spearman_monotone_invariant", "C15_spearman_abs_neg",
                "C15_regression_copy_refuted", "C15_regression_negation_refuted",
                "C15_kruskal_invariant_under_negation", "C15_colsample_samples_partition",
                "C15_kruskal_upper_bound", "C15_kruskal_perfect_feature_is_maximal",
                "C15_top_key_returned", "C15_copy_of_target_ranked_first",
                "C15_copy_of_target_tie_refuted", "C15_chi2_upper_bound", "C15_cramerv2_upper_bound",
                "C15_cramerv2_perfect_feature_is_maximal",
                "C15_qualitative_copy_of_binary_target_refuted"]
    rule = ("metamorphic pairs on the real selectors: a C14 frame (8-60 rows, correlated clusters, NaN, "
            "constant columns, binary / multiclass / continuous targets, all measure / filter lists) and "
            "its re-encoding: one quantitative feature negated or multiplied by 2, 3, 0.5, 7 or 10; the "
            "categories of one qualitative feature renamed (alphabetical order reversed); rows permuted; "
            "columns and feature lists permuted; every column renamed; an exact copy / affine / cubic "
            "function of the target (quantitative) or a relabelled copy (qualitative) added, which must be "
            "returned; only X (rows travel with their index labels: RangeIndex, random ints, strings) or only "
            "y re-ordered (same data set by label alignment); colsample in {0.5, 0.34, 0.25} with feature "
            "counts that are not multiples of the number of samples, one or two dtypes, two random.seeds per "
            "frame (random.shuffle recorded from the real run, every _select_features call observed): copy "
            "of the target returned by both runs, measured samples = model's samples = a partition of the "
            "shuffled list.  Non-trivial = at least one feature returned in the original run; distinct = "
            "(kind, task, measures, filters, #returned, outcome)")
    assumptions = [x for x in c14.C14.assumptions if not x.startswith("colsample")] + [
        "colsample < 1: the shuffled feature order (random.shuffle) is an oracle read back from the real run",
        "two selections are compared as lists when no measure is exactly tied and no association equals "
        "thresh_corr exactly; otherwise any order among tied features is accepted (verdict 4)",
        "the copy of the target must be returned unless n_best returned features are exactly as "
        "associated with the target as the copy"]
    trusted_extra = c14.C14.trusted_extra

    def corpus(self):
        import glob
        import json
        import os
        kept = [json.load(open(p))["case"]  # minimised failing pairs kept from earlier runs, run first
                for p in sorted(glob.glob(os.path.join(C.VERIF, "corpus", "findings", "O4?_c15_*.json")))]
        return kept + self.corpus_fixed()

    def corpus_fixed(self):
        y = [0.0, 1.0, 2.0, 3.0, 4.0, 5.0, 6.0, 7.0, 8.0, 9.0]
        noise = [3.0, 1.0, 4.0, 1.0, 5.0, 9.0, 2.0, 6.0, 5.0, 3.0]
        a = c14.mk_case("regression", y, [list(y), noise], [], 2, None, None, None, None, {},
                        qnames=["tq", "q1"])
        cs = [{"kind": "copy", "a": a, "b": copy.deepcopy(a), "ren": {"tq": "tq", "q1": "q1"}, "must": ["tq"]}]
        a2 = c14.mk_case("regression", y, [[v * v + 1 for v in y], noise], [], 2, None, None, None, None, {})
        b2 = copy.deepcopy(a2)
        b2["quanti"][0][1] = encs([-(v * v + 1) for v in y])
        cs.append({"kind": "negate", "a": a2, "b": b2, "ren": {"q0": "q0", "q1": "q1"}, "must": []})
        return cs

    def generate(self, rng, tier):
        n = 200 if tier == "quick" else 2000
        ns = 1 if tier == "quick" else 8
        return ([gen_pair(rng) for _ in range(n)] + [gen_special_pair(rng, "iqr") for _ in range(24 * ns)]
                + [gen_special_pair(rng, "two") for _ in range(8 * ns)]
                + [gen_special_pair(rng, "filter") for _ in range(8 * ns)]
                + [gen_pair(rng, rng.choice(["perm_x_only", "perm_y_only"])) for _ in range(24 * ns)]
                + [gen_colsample_pair(rng) for _ in range(40 * ns)]
                + [gen_special_pair(rng, "tiny") for _ in range(12 * ns)]
                + [gen_yates_pair(rng) for _ in range(12 * ns)]
                + [gen_extreme_scale_pair(rng) for _ in range(24 * ns)]
                + [gen_special_pair(rng, "inf") for _ in range(16 * ns)]
                + [gen_pair(rng, "twice") for _ in range(16 * ns)]
                + [gen_twice_other_target_pair(rng) for _ in range(24 * ns)])

    def search_cases(self, rng, neighbours, rnd):
        return [gen_pair(rng) for _ in range(50)]

    def run_impl(self, case):
        if case["kind"] == "twice_other_target":
            # ONE object selects on (X, y_first) then on (X, y): run a = that second call, run b = a
            # fresh selector on (X, y); they must agree and the copy of y must be returned
            first = dict(case["a"])
            first["y"] = case["first_y"]
            first["again"] = {"y": case["a"]["y"]}
            o = c14.run_selector(first)
            oa = o.get("again")
            ob = c14.run_selector(case["b"])
            return {"a": oa if oa is not None else ob, "b": ob, "first": {"sel": o["sel"], "err": o["err"]}}
        if case["kind"] == "twice":  # the SAME selector object selects twice on the same input
            a = dict(case["a"])
            a["again"] = {"y": a["y"]}
            o = c14.run_selector(a)
            ob = o.pop("again", None)
            return {"a": o, "b": ob if ob is not None else c14.run_selector(case["b"])}
        return {"a": c14.run_selector(case["a"]), "b": c14.run_selector(case["b"])}

    # ---- predicate --------------------------------------------------------------------------
    def analyse(self, case, out):
        oa, ob = out["a"], out["b"]
        ta, tb = c14.build_tables(case["a"], oa), c14.build_tables(case["b"], ob)
        ties = c14.ties_present(ta) or c14.ties_present(tb) or self.boundary(ta) or self.boundary(tb)
        free = bool(case.get("free"))
        fails = []
        if not (oa["unchanged"] and ob["unchanged"]):
            fails.append(("modified", "X or y was modified by select()"))
        if oa["err"] != ob["err"]:
            fails.append(("error", f"original run: {oa['err'] or 'ok'} {oa.get('err_msg', '')}, re-encoded run: "
                                   f"{ob['err'] or 'ok'} {ob.get('err_msg', '')}"))
        elif oa["err"] is None:
            exp = [case["ren"][f] for f in oa["sel"]]
            if exp != ob["sel"] and not ties and not free:
                if case["kind"] in ("twice", "twice_other_target"):
                    fails.append(("different", f"{case['kind']}: a selector object that already selected on another "
                                               f"input returns {oa['sel']}, a fresh selector returns {ob['sel']}"))
                else:
                    fails.append(("different", f"{case['kind']}: original run returns {oa['sel']} (renamed: {exp}), "
                                               f"re-encoded run returns {ob['sel']}"))
        sides = [("a", case["a"], ta, oa, list(case["must"]))]
        if free:
            sides.append(("b", case["b"], tb, ob, [case["ren"][f] for f in case["must"]]))
        for side, cs_, tabs_, o_, must in sides:
            for f in (must if o_["err"] is None else []):  # a raised error is C14's business
                d = type_of(cs_, f)
                sel = o_["sel"] or []
                if f in sel:
                    continue
                t = tabs_.get(d)
                ok = False
                assoc = [j for j, k in enumerate(t["ms"]) if k not in c14.GATES] if t is not None else []
                if t is not None and not assoc:
                    ok = True  # no association measure requested for this type: nothing can be returned
                elif t is not None:
                    row = {r["name"]: r for r in t["rows"]}
                    r = row[f]
                    last = assoc[-1]
                    s = r["spec"][last]
                    if any(k in c14.GATES and r["raw"][j]["key"] is not None
                           and not r["raw"][j]["key"] < t["mthr"][j] for j, k in enumerate(t["ms"])):
                        ok = True  # screened out by an outlier gate
                    elif (not c14.Fr(r["cnt_nan"], t["n"]) < t["tnan"]
                          or not c14.Fr(r["cnt_mode"], t["n"]) < t["tmode"]):
                        ok = True  # fails thresh_nan / thresh_mode
                    elif s is not None:
                        better = [g for g in sel if g in row and row[g]["spec"][last] is not None
                                  and row[g]["spec"][last] >= s]
                        # n_best returned features EXACTLY as associated as the copy (a tie at the top:
                        # the copy is a perfect predictor, nothing may be strictly better), or the copy is
                        # too associated with such a returned feature
                        ok = ((len(better) >= t["n_best"] and all(row[g]["spec"][last] == s for g in better))
                              or any(flt["mat"][(f, g)] >= flt["thresh"] for flt in t["filters"] for g in better))
                if not ok:
                    extra = ""
                    if cs_.get("colsample") is not None:
                        extra = (f" (colsample={float.fromhex(cs_['colsample'])}, random.seed({cs_.get('rseed')}), "
                                 f"shuffled {o_.get('shuffled')}, measured samples "
                                 f"{[c[1] for c in (o_.get('calls') or [])]})")
                    fails.append(("copy", f"{f} (an exact copy / strictly monotone function of the target) is not "
                                          f"returned in run {side}: {sel} {o_['err'] or ''}{extra}"))
            # colsample < 1: the measured samples are a partition of the shuffled feature list
            for d, t in tabs_.items():
                cs = t.get("cs")
                if cs is not None and o_["err"] is None:
                    flat = [f for s_ in cs["observed"] for f in s_]
                    if flat != cs["shuffled"]:
                        fails.append(("partition", f"run {side}: the measured samples {cs['observed']} are not a "
                                                   f"partition of the shuffled {d} features {cs['shuffled']}"))
        return ta, tb, ties, fails

    @staticmethod
    def yates_outranked(case, out):
        a = case["a"]
        if len({str(v) for v in decs(a["y"])}) != 2:
            return False
        for side in ("a", "b"):
            t = c14.build_tables(case[side], out[side]).get("str")
            if t is None or not t["ms"] or t["ms"][-1] not in ("cramerv", "tschuprowt"):
                continue
            row = {r["name"]: r for r in t["rows"]}
            cols = {n: decs(c) for n, c in case[side]["quali"]}
            for f in case["must"]:
                f2 = f if side == "a" else case["ren"][f]
                if f2 not in row or f2 in (out[side]["sel"] or []):
                    continue
                s = row[f2]["spec"][-1]
                if len({v for v in cols[f2] if not isnan(v)}) == 2 and any(
                        g in row and row[g]["spec"][-1] is not None and s is not None and row[g]["spec"][-1] > s
                        and len({v for v in cols[g] if not isnan(v)}) > 2 for g in (out[side]["sel"] or [])):
                    return True
        return False

    @staticmethod
    def boundary(tabs):
        return any(a == flt["thresh"] for t in tabs.values() for flt in t["filters"] for a in flt["mat"].values())

    def oracle(self, case, out):
        _, _, _, fails = self.analyse(case, out)
        if not fails:
            return True, ""
        return False, " || ".join(f"[{tag}] {m}" for tag, m in fails)

    def finding_signatures(self, case, out, msg):
        ta, tb, ties, fails = self.analyse(case, out)
        if not fails:
            # predicate evaluated in Coq failed although the python predicate holds: never a known finding
            return []
        a = case["a"]
        sigs = []
        for tag, m in fails:
            sig = None
            reg_default = (a["task"] == "regression" and a["quanti"]
                           and [k for k in c14.case_lists(a, "float")[0] if k not in c14.GATES] == ["distance"])
            if tag == "copy" and reg_default and all(type_of(a, f) == "float" for f in case["must"]):
                sig = "regression_default_distance_measure_sign"
            elif tag == "different" and reg_default and case["kind"] == "negate":
                sig = "regression_default_distance_measure_sign"
            elif (tag == "error" and reg_default and case["kind"] == "negate"
                  and {out["a"]["err"], out["b"]["err"]} == {None, "internal"}
                  and any(len(c14.case_lists(a, d_)[1]) >= 2 for d_ in ("float", "str"))):
                # O11 again: r = +1 gives distance 0.0 -> NaN -> no rankable feature -> the second of two
                # filters raises (C14 finding second-filter-empty); after negation r = -1 is kept
                sig = "regression_default_distance_measure_sign"
            elif tag == "different" and reg_default and case["kind"] in ("perm_x_only", "perm_y_only"):
                # distance_measure hands the VALUES of x[~nans], y[~nans] to scipy: paired by position
                sig = "distance_measure_pairs_rows_by_position"
            elif tag == "copy" and all(
                    len(c14.case_lists(a, type_of(a, f))[0]) >= 2 or c14.case_lists(a, type_of(a, f))[0] == ["chi2"]
                    for f in case["must"]):
                sig = "second_measure_never_computed"
            elif tag == "copy" and self.yates_outranked(case, out):
                # the copy of a BINARY target is a 2 x 2 table (Yates-corrected chi2), a finer feature
                # nested in the classes is not corrected and is ranked before it
                sig = "yates_copy_of_binary_target_outranked_by_finer_feature"
            elif tag == "copy" and a.get("colsample") is not None and a["n_best"] == 1:
                # O42 (fixed by /repo f64757f): the pre-selection kept n_best // 2 = 0 features per sample
                sig = "colsample_nbest1_preselects_nothing"
            sigs.append(sig)
        if any(s is None for s in sigs):
            return []
        return sorted(set(sigs))

    # ---- Coq side ---------------------------------------------------------------------------
    def coq_case(self, case, out):
        ta, tb = c14.build_tables(case["a"], out["a"]), c14.build_tables(case["b"], out["b"])
        ca = c14.coq_case(case["a"], out["a"], ta)
        cb = c14.coq_case(case["b"], out["b"], tb)
        rens, musts = [], []
        for d in ("float", "str"):
            if d not in ta:
                continue
            nb = tb[d]["names"] if d in tb else []
            rens.append(C.clist([f"{nb.index(case['ren'][f]) if case['ren'][f] in nb else 0}%nat"
                                 for f in ta[d]["names"]]))
            musts.append(C.clist([f"{ta[d]['names'].index(f)}%nat" for f in case["must"] if f in ta[d]["names"]]))
        return f"mkC15 ({ca}) ({cb}) {C.clist(rens)} {C.clist(musts)} {C.cbool(bool(case.get('free')))}"

    def coq_shards(self, cases, outs):
        shards = []
        for part in chunks(list(zip(cases, outs)), 25):
            body = ";\n  ".join(self.coq_case(c, o) for c, o in part)
            shards.append("From AC.Model Require Import Base Selector CheckC14 CheckC15.\n"
                          f"Definition cases : list c15case := [\n  {body}\n].\n"
                          "Eval vm_compute in map verdict15 cases.\n")
        return shards

    # ---- evidence ---------------------------------------------------------------------------
    def signature(self, case, out):
        a, oa, ob = case["a"], out["a"], out["b"]
        if oa.get("sel") is None:
            return f"{case['kind']}|{a['task']}|err:{oa.get('err')}"
        if not oa["sel"]:
            return None
        same = ob.get("sel") == [case["ren"][f] for f in oa["sel"]]
        return (f"{case['kind']}|{a['task']}|{a['qm']}|{a['lm']}|{a['qf']}|{a['lf']}|{len(oa['sel'])}|"
                f"{'same' if same else 'diff'}")

    def shrink(self, case, out, msg):
        """drop features (consistently in both frames) while some failure of the same kind remains"""
        def tags(c, o):
            return {t for t, _ in self.analyse(c, o)[3]}

        want = tags(case, out)
        best = (case, out, msg)
        changed, rounds = True, 0
        while changed and rounds < 30:
            changed = False
            rounds += 1
            c = best[0]
            names = [n for n, _ in c["a"]["quanti"] + c["a"]["quali"]]
            if len(names) <= 1:
                break
            for f in names:
                if f in c["must"]:
                    continue
                cand = copy.deepcopy(c)
                for side, nm in (("a", f), ("b", c["ren"][f])):
                    cand[side]["quanti"] = [p for p in cand[side]["quanti"] if p[0] != nm]
                    cand[side]["quali"] = [p for p in cand[side]["quali"] if p[0] != nm]
                    nf = len(cand[side]["quanti"]) + len(cand[side]["quali"])
                    cand[side]["n_best"] = min(cand[side]["n_best"], nf + 1)
                cand["ren"] = {k: v for k, v in c["ren"].items() if k != f}
                o = C._worker((self.run_impl, cand))
                if isinstance(o, dict) and "harness_error" in o:
                    continue
                if tags(cand, o) & want:
                    ok, m = self.oracle(cand, o)
                    best, changed = (cand, o, m), True
                    break
        return best

    def distribution(self, cases, outs):
        d = {"kinds": {}, "tasks": {}, "same": 0, "different_or_tie": 0, "errors": 0}
        for c, o in zip(cases, outs):
            d["kinds"][c["kind"]] = d["kinds"].get(c["kind"], 0) + 1
            d["tasks"][c["a"]["task"]] = d["tasks"].get(c["a"]["task"], 0) + 1
            if isinstance(o, dict) and "a" in o:
                if o["a"].get("sel") is None:
                    d["errors"] += 1
                elif o["b"].get("sel") == [c["ren"][f] for f in o["a"]["sel"]]:
                    d["same"] += 1
                else:
                    d["different_or_tie"] += 1
        return d


_ = NAN
PROP = C15()
