"""C10 — features are processed independently; parallel equals sequential.
Every case is fitted several times in FRESH interpreters (c10_worker.py): baseline, other
PYTHONHASHSEEDs, reversed feature list / shuffled columns, every feature alone, n_jobs 2 and 4
(real pools), and pools stubbed to complete in permuted orders."""
import json
import os
import subprocess
import sys

import common as C
from props.base import NAN, Prop, chunks, encs

WORKER = os.path.join(os.path.dirname(os.path.dirname(os.path.abspath(__file__))), "c10_worker.py")


def gen_case(rng, tier):
    n = rng.choice([60, 120, 200, 300])
    nf = rng.randint(2, 5)
    types, X, orders = {}, {}, {}
    klass = rng.choice(["Discretizer", "BinaryCarver", "BinaryCarver", "ContinuousCarver"])
    y = [rng.randint(0, 1) for _ in range(n)] if klass != "ContinuousCarver" else [rng.randint(0, 30) for _ in range(n)]
    names = rng.sample(["alpha", "beta", "gamma", "delta", "x1", "x2", "zeta", "Aa", "BB", "k", "m9", "omega"], nf)
    nan_everywhere = rng.random() < 0.35   # several features with missing values (per-feature NaN flags)
    categ_pair = rng.random() < 0.3     # two categorical features sharing a vocabulary, both with rare modalities
    for f in names:
        t = rng.choice(["quant", "quant", "categ", "ordinal", "idlike"])
        if categ_pair and f in names[:2]:
            t = "categ"
            types[f] = t
            # overlapping but different frequent modalities: a value frequent in one column is unseen in the other
            vals = ["a", "b", "c"] if f == names[0] else ["c", "d", "e"]
            col = [vals[(rng.randrange(len(vals)) + (y[i] % 2 if rng.random() < 0.4 else 0)) % len(vals)] for i in range(n)]
            rare = ["zz", "q"] if f == names[0] else ["zz", "yy"]
            for i in rng.sample(range(n), max(2, n // 40)):
                col[i] = rng.choice(rare)
            if nan_everywhere or rng.random() < 0.4:
                for i in rng.sample(range(n), n // 10):
                    col[i] = NAN
            X[f] = encs(col)
            continue
        if t == "idlike" or (nf >= 3 and f == names[-1] and rng.random() < 0.3) or (
                nf >= 3 and f == names[-2] and rng.random() < 0.3):
            # id-like qualitative feature (every modality rarer than min_freq): dropped at fit
            types[f] = "categ"
            col = [f"id{(i * 7 + len(f)) % max(20, n // 2)}" for i in range(n)]
            X[f] = encs(col)
            continue
        if t == "quant" and klass == "Discretizer" and rng.random() < 0.3:   # (carvers crash on such ids: C08 finding O49)
            # int64 identifiers above 2**53 (exact as integers, not as float64): their quantile boundaries must
            # not depend on the dtype of the co-fitted columns
            types[f] = "quant_int"
            base_ = rng.choice([10 ** 17, 2 ** 60, 9007199254740993])
            k = rng.choice([5, 9, 40])
            col = [int(base_ + 3 * ((rng.randrange(k) + (y[i] % 2 if rng.random() < 0.5 else 0)) % k) + 1) for i in range(n)]
            X[f] = encs(col)
            continue
        if t == "quant" and rng.random() < 0.35:
            # date-like numbers: different features share their 4-significant-digit renderings
            types[f] = "quant"
            base_ = rng.choice([20230000, 20230000, 202300, 1700000000])
            span = rng.choice([12, 31, 365])
            col = [float(base_ + 1 + (rng.randrange(span) * (1 + len(f) % 3)) % span) for i in range(n)]
            if rng.random() < 0.4:
                for i in rng.sample(range(n), n // 10):
                    col[i] = NAN
            X[f] = encs(col)
            continue
        types[f] = t
        if t == "quant":
            k = rng.choice([3, 5, 8, 40])
            col = [float(rng.randint(0, k)) + (y[i] if rng.random() < 0.5 else 0) for i in range(n)]
        else:
            if t == "categ" and rng.random() < 0.4:
                vals = [1, 2, 3.0, 4, "5"]  # numeric-looking categories -> StringDiscretizer pool
            else:
                vals = ["a", "b", "c", "d", "e"][: rng.randint(2, 5)]
            col = [vals[(rng.randrange(len(vals)) + (y[i] % 2 if rng.random() < 0.4 else 0)) % len(vals)] for i in range(n)]
            if t == "categ" and rng.random() < 0.6:
                # a few rare modalities (-> default group), drawn from letters other columns may use too
                for i in rng.sample(range(n), max(2, n // 40)):
                    col[i] = rng.choice(["e", "d", "zz"])
            if t == "ordinal":
                orders[f] = encs([v for v in vals if isinstance(v, str)] if all(isinstance(v, str) for v in vals) else vals)
                if not all(isinstance(v, str) for v in vals):
                    types[f] = "categ"
                    orders.pop(f)
        if nan_everywhere or rng.random() < 0.4:
            for i in rng.sample(range(n), n // 10):
                col[i] = NAN
        X[f] = encs(col)
    if rng.random() < 0.3 and len(names) >= 2:
        # a pair of date-like quantitative features with the SAME number of boundaries, all equal at 4
        # significant digits, but different values (their labels must not be mixed up)
        k = rng.randint(3, 6)
        base_ = rng.choice([20230100, 202301, 1700000000])
        for j, f in enumerate(names[:2]):
            vals = [float(base_ + 2 * i + j) for i in range(k)]
            col = [vals[(i + (y[i] if rng.random() < 0.5 else 0)) % k] for i in range(n)]
            types[f] = "quant"
            orders.pop(f, None)
            X[f] = encs(col)
    return {"klass": klass, "types": types, "X": X, "orders": orders, "y": y, "names": names,
            "min_freq": rng.choice([0.1, 0.15, 0.2, 0.06, 0.13, 0.17]), "max_n_mod": rng.randint(2, 5),
            "dropna": rng.random() < (0.3 if nan_everywhere else 0.6), "output_dtype": rng.choice(["float", "str"]),
            "sort_by": rng.choice(["tschuprowt", "cramerv"]), "seed": rng.randrange(10 ** 6),
            "real_pools": tier == "thorough" or rng.random() < 0.35}


def configs(case):
    names = case["names"]
    cfgs = [{"name": "baseline", "features": names, "columns": names, "hashseed": 0, "n_jobs": 1}]
    cfgs.append({"name": "hashseed1", "features": names, "columns": names, "hashseed": 1, "n_jobs": 1})
    cfgs.append({"name": "hashseed7", "features": names, "columns": names, "hashseed": 7, "n_jobs": 1})
    cfgs.append({"name": "reversed", "features": names[::-1], "columns": names[1:] + names[:1], "hashseed": 3,
                 "n_jobs": 1})
    for f in names[:3]:
        cfgs.append({"name": f"alone:{f}", "features": [f], "columns": names, "hashseed": 0, "n_jobs": 1})
    for k in range(2):
        cfgs.append({"name": f"stub{k}", "features": names, "columns": names, "hashseed": k, "n_jobs": 3,
                     "stub_seed": case["seed"] + k, "index": [None, "shuffled"][k]})
    if case["real_pools"]:
        cfgs.append({"name": "n_jobs2", "features": names, "columns": names, "hashseed": 0, "n_jobs": 2,
                     "index": "strings"})
        cfgs.append({"name": "n_jobs4", "features": names, "columns": names, "hashseed": 5, "n_jobs": 4})
    cfgs.append({"name": "sequential_shuffled_index", "features": names, "columns": names, "hashseed": 2, "n_jobs": 1,
                 "index": "shuffled"})
    return cfgs


def run_worker(case, cfg):
    env = dict(os.environ)
    env["PYTHONHASHSEED"] = str(cfg["hashseed"])
    env["VERIF_REPO"] = C.REPO
    env["PYTHONPATH"] = C.REPO
    p = subprocess.run([sys.executable, "-W", "ignore", WORKER], input=json.dumps({"case": case, "config": cfg}),
                       capture_output=True, text=True, env=env, timeout=600)
    lines = [l for l in p.stdout.strip().splitlines() if l.startswith("{")]
    if not lines:
        return {"fit": "worker_failed", "error": (p.stderr or p.stdout)[-400:]}
    return json.loads(lines[-1])


class C10(Prop):
    pid = "C10"
    theorems = ["C10_assembly_any_completion_order", "C10_assembly_feature_independent",
                "C10_loop_order_independent", "C10_cofeatures_irrelevant"]
    rule = ("paired real fits in fresh interpreters: 2-4 features (quantitative, categorical incl. "
            "numeric-looking categories, ordinal; NaN), Discretizer / BinaryCarver / ContinuousCarver; per "
            "case: baseline, PYTHONHASHSEED 1 and 7, reversed feature list + rotated columns, each feature "
            "alone, two stubbed-pool runs with permuted completion orders, and (35% of quick cases, all "
            "thorough cases) real pools n_jobs=2 and 4; non-trivial = at least one feature kept by the "
            "baseline; distinct = (class, feature types, kept pattern) signature")
    assumptions = ["real OS scheduling of worker processes is not controllable: completion orders are "
                   "enumerated through a stubbed Pool (in-process), real pools are only sampled",
                   "the theorems are about the model's assembly/loop (Model/Pipeline.v); the claim that "
                   "the real per-feature step reads and writes only its own entries is what the paired "
                   "fits test"]

    def generate(self, rng, tier):
        return [gen_case(rng, tier) for _ in range(40 if tier == "quick" else 300)]

    def search_cases(self, rng, neighbours, rnd):
        return [gen_case(rng, "quick") for _ in range(16)]

    def run_impl(self, case):
        outs = []
        for cfg in configs(case):
            o = run_worker(case, cfg)
            o["config"] = cfg
            outs.append(o)
        return {"runs": outs}

    def oracle(self, case, out):
        base = out["runs"][0]
        if base.get("fit") == "worker_failed":
            return False, "worker failed: " + base.get("error", "")
        ae = base.get("after_edit") or {}
        for f, labs in (ae.get("labels") or {}).items():
            if base.get("per", {}).get(f) is not None and base["per"][f]["labels"] != labs:
                return False, (f"grouping the missing values of feature {ae['edited']} (update_discretizer) changed the "
                               f"transform output of feature {f}")
        for r in out["runs"][1:]:
            name = r["config"]["name"]
            if r.get("fit") != base.get("fit"):
                return False, f"config {name}: fit outcome {r.get('fit')} ({r.get('error')}) != baseline {base.get('fit')}"
            if base.get("fit") != "ok":
                continue
            for f in r["config"]["features"]:
                a, b = base["per"].get(f), r["per"].get(f)
                if (a is None) != (b is None):
                    return False, f"config {name}: feature {f} kept={b is not None} but baseline kept={a is not None}"
                if a is not None and a != b:
                    what = "values_orders" if (a["keys"], a["content"]) != (b["keys"], b["content"]) else "transform output"
                    return False, f"config {name}: {what} of feature {f} differs from the baseline"
                pa, pb = base.get("probe"), r.get("probe")
                if a is not None and isinstance(pa, dict) and pa.get(f) != (pb.get(f) if isinstance(pb, dict) else pb):
                    return False, (f"config {name}: transform of a frame with unseen values differs for feature "
                                   f"{f} from the baseline (injected into {base.get('probe_injected')})")
        return True, ""

    def coq_case(self, case, out):
        ids = {}

        def rid(f, per):
            key = f + "|" + json.dumps(per, sort_keys=True)
            return ids.setdefault(key, len(ids))

        def final(r):
            return C.clist([f"({C.cstr(f)}, {C.cnat(rid(f, r['per'][f]))})" for f in sorted(r.get("per", {}))])

        base = out["runs"][0]
        cfgs = []
        for r in out["runs"][1:]:
            arr = [a[1] for a in r.get("arrivals", []) if a[0] == "imap_unordered" and all(x is not None for x in a[1])]
            cfgs.append(f"mkCfgObs {C.clist([C.cstr(f) for f in r['config']['features']])} {final(r)} "
                        f"{C.clist([C.clist([C.cstr(f) for f in a]) for a in arr])}")
        return f"mkC10 {final(base)} {C.clist(cfgs)}"

    def coq_shards(self, cases, outs):
        shards = []
        for part in chunks(list(zip(cases, outs)), 20):
            terms = [("verdict10 (" + self.coq_case(c, o) + ")") if all(r.get("fit") == "ok" for r in o["runs"])
                     else "0%nat" for c, o in part]
            shards.append("From Coq Require Import List String.\nImport ListNotations.\n"
                          "From AC.Model Require Import Pipeline CheckC10.\nOpen Scope string_scope.\n"
                          "Eval vm_compute in [" + ";\n ".join(terms) + "].\n")
        return shards

    def signature(self, case, out):
        base = out["runs"][0]
        if base.get("fit") != "ok" or not base.get("per"):
            return None
        return f"{case['klass']}|{sorted(case['types'].values())}|{sorted(base['per'])}|{case['real_pools']}"

    def distribution(self, cases, outs):
        d = {"klass": {}, "configs_run": 0, "real_pool_cases": 0, "stub_arrival_logs": 0}
        for c, o in zip(cases, outs):
            d["klass"][c["klass"]] = d["klass"].get(c["klass"], 0) + 1
            d["real_pool_cases"] += bool(c["real_pools"])
            if isinstance(o, dict) and "runs" in o:
                d["configs_run"] += len(o["runs"])
                d["stub_arrival_logs"] += sum(len(r.get("arrivals", [])) for r in o["runs"])
        return d

    def shrink(self, case, out, msg):
        small = {"runs": [{k: v for k, v in r.items() if k != "per"} for r in out["runs"]]}
        return case, small, msg


PROP = C10()
