"""C19 — Malformed inputs are refused up-front with AssertionError.

One case = (class, entry point, malformed class, variant, side) + a small valid sample in which the
malformation is injected at a random position.  Entry points: `init` (constructor), `fit` (first fit),
`refit` (a second fit after a successful one), `transform` (after a successful fit).  Observables:
the exception class of the call and, for an object that was fitted before the call, whether
`values_orders`, `json.dumps(to_json())` and `transform(X_valid)` are what they were before it.
"""
import json

import common as C
from props.base import NAN, Prop, chunks, dec, decs, enc, encs

CLASSES = ["Discretizer", "QuantitativeDiscretizer", "QualitativeDiscretizer", "OrdinalDiscretizer",
           "CategoricalDiscretizer", "ContinuousDiscretizer", "BinaryCarver", "ContinuousCarver",
           "MulticlassCarver"]
CARVERS = ["BinaryCarver", "ContinuousCarver", "MulticlassCarver"]
COQ_CLS = {"Discretizer": "KDiscretizer", "QuantitativeDiscretizer": "KQuantitative",
           "QualitativeDiscretizer": "KQualitative", "OrdinalDiscretizer": "KOrdinal",
           "CategoricalDiscretizer": "KCategorical", "ContinuousDiscretizer": "KContinuous",
           "BinaryCarver": "KBinary", "ContinuousCarver": "KContinuousCarver",
           "MulticlassCarver": "KMulticlass"}
COQ_EP = {"init": "EInit", "fit": "EFit", "refit": "ERefit", "transform": "ETransform"}
COQ_MAL = {"none": "MNone", "x_not_frame": "MXNotFrame", "y_not_series": "MYNotSeries", "y_nan": "MYNaN",
           "index_mismatch": "MIndexMismatch", "missing_col": "MMissingCol", "n_classes": "MNClasses",
           "y_str": "MYStr", "feature_overlap": "MFeatureOverlap", "quant_str": "MQuantStr",
           "ordinal_unknown": "MOrdinalUnknown", "sort_by": "MSortBy", "second_fit": "MSecondFit"}
# which raw feature columns a class uses: (quantitative, categorical, ordinal)
FEATS = {"Discretizer": (["q1", "q2"], ["c1"], ["o1"]),
         "QuantitativeDiscretizer": (["q1", "q2"], [], []),
         "QualitativeDiscretizer": ([], ["c1"], ["o1"]),
         "OrdinalDiscretizer": ([], [], ["o1"]),
         "CategoricalDiscretizer": ([], ["c1"], []),
         "ContinuousDiscretizer": (["q1", "q2"], [], []),
         "BinaryCarver": (["q1"], ["c1"], ["o1"]),
         "ContinuousCarver": (["q1"], ["c1"], ["o1"]),
         "MulticlassCarver": (["q1"], ["c1"], ["o1"])}
ORDER = ["L0", "L1", "L2", "L3", "L4"]
# classes that convert a non-string qualitative column with StringDiscretizer before checking the ranking
ORDNUM_CLASSES = ["Discretizer", "QualitativeDiscretizer", "BinaryCarver", "ContinuousCarver", "MulticlassCarver"]
CATS = ["a", "b", "c", "d"]


DEV_TARGET_VARIANTS = {
    "BinaryCarver": [("n_classes", "one_class@dev"), ("n_classes", "three_classes@dev"),
                     ("n_classes", "two_not01@dev"), ("y_str", "str01@dev")],
    "ContinuousCarver": [("y_str", "cell@dev")],
    "MulticlassCarver": [("n_classes", "missing_class@dev"), ("n_classes", "extra_class@dev")],
}


def has_quant(cls):
    return bool(FEATS[cls][0])


def has_ordinal(cls):
    return bool(FEATS[cls][2])


def all_triples(cls):
    """every (entry point, malformed class, variant) that is expressible for the class; variant is a
    string `<kind>` or `<kind>@dev` (malformation injected in the development sample, carvers)"""
    carver = cls in CARVERS
    res = [("fit", "none", "-"), ("transform", "none", "-"), ("transform", "none", "with_y"),
           ("refit", "second_fit", "-")]
    sides = ["", "@dev"] if carver else [""]
    for ep in ("fit", "refit", "transform"):
        for s in sides:
            if ep == "transform" and s:
                continue
            for v in ("list", "ndarray", "dict"):
                res.append((ep, "x_not_frame", v + s))
            for v in ("ndarray", "list"):
                res.append((ep, "y_not_series", v + s))
            res.append((ep, "y_nan", "nan" + s))
            for v in ("permuted", "offset", "one_label"):
                res.append((ep, "index_mismatch", v + s))
            res.append((ep, "missing_col", "drop" + s))
        if has_quant(cls):
            res.append((ep, "quant_str", "cell"))
            if ep != "transform":
                # the str cell sits in a row where ANOTHER quantitative feature is missing
                res.append((ep, "quant_str", "cell_nan_row"))
        if has_ordinal(cls):
            res.append((ep, "ordinal_unknown", "cell"))
        if cls in ORDNUM_CLASSES:
            # ordinal feature holding numbers; ranking given as strings or as the raw numbers
            for rank in ("strrank", "numrank"):
                for absent in ("absent_int", "absent_float", "absent_str"):
                    res.append((ep, "ordinal_unknown", f"{absent}:{rank}"))
    if has_quant(cls):
        res.append(("fit", "none", "nan_in_quant"))
    if cls in ORDNUM_CLASSES:
        for rank in ("strrank", "numrank"):
            res.append(("fit", "none", f"ordnum:{rank}"))
            res.append(("transform", "none", f"ordnum:{rank}"))
    res.append(("fit", "x_not_frame", "none"))
    res.append(("fit", "index_mismatch", "shorter"))
    if carver:
        res.append(("fit", "y_not_series", "none"))
        for ep in ("fit", "refit"):
            if cls == "BinaryCarver":
                vs = ["one_class", "three_classes", "two_not01"]
            else:
                vs = ["one_class", "two_classes"]
            for v in vs:
                res.append((ep, "n_classes", v))
            if cls == "BinaryCarver":
                res.append((ep, "y_str", "str01"))
            if cls == "ContinuousCarver":
                res.append((ep, "y_str", "cell"))
            # the same on the development sample
            for v in DEV_TARGET_VARIANTS[cls]:
                res.append((ep,) + v)
            res.append((ep, "index_mismatch", "shorter@dev"))
            res.append((ep, "y_not_series", "none@dev"))     # X_dev given without y_dev
    if carver or cls == "Discretizer":
        res.append(("init", "feature_overlap", "quant_quali"))
        res.append(("init", "feature_overlap", "quant_ordinal"))
    if carver:
        res.append(("init", "none", "-"))
        res.append(("init", "sort_by", "garbage"))
        res.append(("init", "sort_by", "tschuprowt" if cls == "ContinuousCarver" else "kruskal"))
        # substrings / prefixes / suffixes / case variants / padded forms of the supported names
        for v in sort_by_variants(cls):
            res.append(("init", "sort_by", "v=" + v))
    return res


def sort_by_variants(cls):
    valid = ["kruskal"] if cls == "ContinuousCarver" else ["tschuprowt", "cramerv"]
    other = ["tschuprowt", "cramerv"] if cls == "ContinuousCarver" else ["kruskal"]
    vs = ["", "<None>"]
    for name in valid:
        k = len(name)
        vs += [name[:1], name[:k // 2], name[:-1], name[1:], name[-2:], name[k // 3:-1],
               name.capitalize(), name.upper(), name + " ", " " + name, name + "_measure"]
    vs += [o[:-1] for o in other]
    out = []
    for v in vs:
        if v not in out and v not in valid:
            out.append(v)
    return out


# ---------------------------------------------------------------------------------------------
# sample generation
# ---------------------------------------------------------------------------------------------
def gen_sample(rng, n, target, classes, flip=False):
    """a valid sample; with flip the relation between the features and the target is reversed and one
    category becomes rare, so that re-running a fit on it would lead to another fitted state"""
    q1, q2, c1, o1, y = [], [], [], [], []
    for i in range(n):
        z = rng.random()
        q1.append(round(z * 10 + rng.uniform(-1.5, 1.5), 1))
        q2.append(int(rng.randrange(0, 6) + 4 * z))
        c1.append(CATS[min(3, int(z * 4 + rng.uniform(-0.8, 0.8))) if rng.random() < 0.85 else rng.randrange(4)])
        o1.append(ORDER[max(0, min(4, int(z * 5 + rng.uniform(-0.9, 0.9))))])
        if flip:
            z = 1 - z if rng.random() < 0.9 else rng.random()
            if c1[-1] == "b" and rng.random() < 0.8:
                c1[-1] = "a"
            q1[-1] = round(q1[-1] * 0.5 + 20, 1)
        if target == "binary":
            y.append(1 if z + rng.uniform(-0.25, 0.25) > 0.5 else 0)
        elif target == "continuous":
            y.append(float(int(z * 40 + rng.uniform(-6, 6))))
        else:
            k = len(classes)
            y.append(classes[max(0, min(k - 1, int(z * k + rng.uniform(-0.4, 0.4))))])
    # every level / category / class present at least twice, so that the valid sample is accepted
    for j, lv in enumerate(ORDER):
        o1[j] = lv
        o1[n - 1 - j] = lv
    for j, ct in enumerate(CATS):
        c1[5 + j] = ct
    if target == "binary":
        y[0], y[1] = 0, 1
    elif target == "multiclass":
        for j, c in enumerate(classes):
            y[j] = c
            y[n - 1 - j] = c
    return {"q1": encs(q1), "q2": encs(q2), "c1": encs(c1), "o1": encs(o1), "y": encs(y)}


def gen_feats(rng, cls, mal):
    """the features given to the object: the full set of the class, or (classes with several kinds
    of features) a random non-empty subset compatible with the malformation"""
    q, c, o = FEATS[cls]
    kinds = [k for k, v in (("q", q), ("c", c), ("o", o)) if v]
    need = {"quant_str": "q", "feature_overlap": "q", "ordinal_unknown": "o"}.get(mal)
    keep = set(kinds)
    if len(kinds) > 1 and rng.random() < 0.5:
        keep = {k for k in kinds if rng.random() < 0.5}
        if need:
            keep.add(need)
        if not keep:
            keep = {rng.choice(kinds)}
    return {"q": q if "q" in keep else [], "c": c if "c" in keep else [], "o": o if "o" in keep else []}


def ord_num_of(var):
    """'strrank' / 'numrank' when the case uses a numeric-valued ordinal feature, else None"""
    v = var.split("@")[0]
    return v.split(":")[1] if ":" in v and v.split(":")[1] in ("strrank", "numrank") else None


def gen_case(rng, cls, ep, mal, var):
    target = {"ContinuousCarver": "continuous", "MulticlassCarver": "multiclass"}.get(cls, "binary")
    classes = rng.choice([["a", "b", "c"], [0, 1, 2], [1, 2, 3, 4], ["u", "v", "w"]]) if target == "multiclass" else None
    n = rng.choice([40, 50, 60, 80])
    start = rng.choice([0, 0, 7, 100])
    case = {"cls": cls, "ep": ep, "mal": mal, "var": var, "n": n,
            "index_start": start, "train": gen_sample(rng, n, target, classes),
            "new": gen_sample(rng, rng.choice([30, 40, 50]), target, classes, flip=True),
            "feats": gen_feats(rng, cls, mal),
            "dev": None, "new_dev": None,
            "min_freq": rng.choice([0.1, 0.15, 0.2]), "copy": rng.random() < 0.5,
            "output_dtype": rng.choice(["float", "str"]), "dropna": rng.random() < 0.5,
            "max_n_mod": rng.choice([3, 4, 5]),
            "sort_by": rng.choice(["tschuprowt", "cramerv"]),
            "pos": rng.random(), "pos2": rng.random(), "classes": None if classes is None else encs(classes)}
    case["perturb"] = rng.choice(PERTURBS) if ep == "refit" else "plain"
    case["ord_num"] = ord_num_of(var)
    case["ord_nan"] = rng.random() < 0.5
    if case["ord_num"]:
        case["feats"]["o"] = ["o1"]
        case["perturb"] = "plain"
    if var in ("cell_nan_row", "nan_in_quant"):
        case["feats"]["q"] = ["q1", "q2"]
    dev_side = var.endswith("@dev")
    if cls in CARVERS and (dev_side or rng.random() < 0.4):
        case["dev"] = gen_sample(rng, rng.choice([40, 60]), target, classes)
        case["new_dev"] = gen_sample(rng, rng.choice([40, 60]), target, classes, flip=True)
    return case


# ---------------------------------------------------------------------------------------------
# running the implementation
# ---------------------------------------------------------------------------------------------
def feats_of(case):
    f = case["feats"]
    return list(f["q"]), list(f["c"]), list(f["o"])


def frame(sample, case, start=0):
    import pandas as pd
    qf, cf, of = feats_of(case)
    cols = qf + cf + of
    n = len(sample["y"])
    # an extra untouched column: the objects must not need it
    d = {c: decs(sample[c]) for c in cols}
    d["other"] = list(range(n))
    flat = case.get("ord_flat")
    if flat and "o1" in d:
        # every level at 1/6 of the rows (6 levels, or 5 levels + NaN): rarer than min_freq = 0.2
        d["o1"] = [NAN if (flat == "five_nan" and j % 6 == 5) else (ORDER + ["L5"])[j % 6] for j in range(n)]
    if case.get("ord_num") and "o1" in d:
        # the ordinal feature holds numbers 1..5 (floats when it also holds NaN)
        d["o1"] = [v if isinstance(v, float) else (ORDER + ["L5"]).index(v) + 1 for v in d["o1"]]
        if case.get("ord_nan") and not flat:
            for j in range(7, n - 7, 9):
                d["o1"][j] = NAN
    X = pd.DataFrame(d, index=range(start, start + n))
    if case["var"] == "nan_in_quant":
        for k, c in enumerate(qf):
            for j in range(6 + k, n - 6, 7 + 3 * k):
                X.iloc[j, list(X.columns).index(c)] = NAN
    return X


def target(sample, start=0):
    import pandas as pd
    y = decs(sample["y"])
    return pd.Series(y, index=range(start, start + len(y)))


DEFAULT = object()


def construct(case, overlap=None, sort_by=DEFAULT):
    import AutoCarver.discretizers as D
    import AutoCarver as A
    cls = case["cls"]
    qf, cf, of = feats_of(case)
    if overlap == "quant_quali":
        cf = cf + [qf[0]]
    elif overlap == "quant_ordinal":
        of = of + [qf[0]]
    vo = {f: list(ORDER) for f in of if f == "o1"}
    k = 6 if case.get("ord_flat") == "six" else 5
    if k == 6:
        vo = {f: list(ORDER) + ["L5"] for f in vo}
    if case.get("ord_num") == "strrank":
        vo = {f: [str(j) for j in range(1, k + 1)] for f in vo}
    elif case.get("ord_num") == "numrank":
        vo = {f: list(range(1, k + 1)) for f in vo}
    if overlap == "quant_ordinal":
        vo[qf[0]] = [0.0, 5.0, 10.0]
    mf, cp = case["min_freq"], case["copy"]
    if cls == "Discretizer":
        return D.Discretizer(quantitative_features=qf, qualitative_features=cf, min_freq=mf,
                             ordinal_features=of, values_orders=vo, copy=cp)
    if cls == "QuantitativeDiscretizer":
        return D.QuantitativeDiscretizer(quantitative_features=qf, min_freq=mf, copy=cp)
    if cls == "QualitativeDiscretizer":
        return D.QualitativeDiscretizer(qualitative_features=cf, min_freq=mf, ordinal_features=of,
                                        values_orders=vo, copy=cp)
    if cls == "OrdinalDiscretizer":
        return D.OrdinalDiscretizer(ordinal_features=of, min_freq=mf, values_orders=vo, copy=cp)
    if cls == "CategoricalDiscretizer":
        return D.CategoricalDiscretizer(qualitative_features=cf, min_freq=mf, copy=cp)
    if cls == "ContinuousDiscretizer":
        return D.ContinuousDiscretizer(quantitative_features=qf, min_freq=mf, copy=cp)
    kw = dict(min_freq=mf, quantitative_features=qf, qualitative_features=cf, ordinal_features=of,
              values_orders=vo, max_n_mod=case["max_n_mod"], output_dtype=case["output_dtype"],
              dropna=case["dropna"], copy=cp, verbose=False)
    if cls == "BinaryCarver":
        return A.BinaryCarver(sort_by=case["sort_by"] if sort_by is DEFAULT else sort_by, **kw)
    if cls == "MulticlassCarver":
        return A.MulticlassCarver(sort_by=case["sort_by"] if sort_by is DEFAULT else sort_by, **kw)
    if sort_by is not DEFAULT:
        return A.ContinuousCarver(sort_by=sort_by, **kw)
    return A.ContinuousCarver(**kw)


def required_columns(obj):
    """raw columns a fitted object still needs at transform"""
    cast = getattr(obj, "features_casting", None) or {}
    req = [raw for raw, casted in cast.items() if any(f in obj.features for f in casted)]
    return sorted(set(req)) if cast else sorted(set(obj.features))


def raw_is(obj, raw, kind):
    feats = obj.quantitative_features if kind == "quant" else obj.qualitative_features
    cast = getattr(obj, "features_casting", None) or {}
    return any(f in feats for f in cast.get(raw, [raw]))


def inject(case, obj, X, y, fitted):
    """returns (X', y', skip_reason) with ONE malformation injected at a random position"""
    import numpy as np
    mal, var = case["mal"], case["var"].split("@")[0]
    cls = case["cls"]
    n = len(X)
    pos = min(n - 1, int(case["pos"] * n))
    if mal in ("none", "second_fit"):
        return X, y, None
    if mal == "x_not_frame":
        if var == "list":
            return X.values.tolist(), y, None
        if var == "ndarray":
            return X.values, y, None
        if var == "dict":
            return {c: list(X[c]) for c in X.columns}, y, None
        return None, y, None
    if mal == "y_not_series":
        if var == "ndarray":
            return X, np.array(list(y)), None
        if var == "list":
            return X, list(y), None
        return X, None, None
    if mal == "y_nan":
        y = y.astype(object).copy() if y.dtype == object else y.astype(float).copy()
        y.iloc[pos] = NAN
        return X, y, None
    if mal == "index_mismatch":
        idx = list(y.index)
        if var == "permuted":
            j = (pos + 1 + int(case["pos2"] * (n - 1))) % n
            idx[pos], idx[j] = idx[j], idx[pos]
        elif var == "offset":
            idx = [i + 1 + int(case["pos2"] * 5) for i in idx]
        elif var == "one_label":
            idx[pos] = idx[-1] + 1000
        else:  # shorter y
            y = y.iloc[:-1].copy()
            return X, y, None
        y = y.copy()
        y.index = idx
        return X, y, None
    if mal == "missing_col":
        req = required_columns(obj)
        if not req:
            return X, y, "no required column left"
        col = req[min(len(req) - 1, int(case["pos2"] * len(req)))]
        return X.drop(columns=[col]), y, None
    if mal == "quant_str":
        cols = [c for c in feats_of(case)[0] if (not fitted) or (c in required_columns(obj) and raw_is(obj, c, "quant"))]
        if not cols:
            return X, y, "no quantitative column left"
        col = cols[min(len(cols) - 1, int(case["pos2"] * len(cols)))]
        if var == "cell_nan_row":
            others = [c for c in feats_of(case)[0] if c != col and c in X.columns]
            if not others:
                return X, y, "a single quantitative column"
            # NaN in every OTHER quantitative column on the row of the str cell and on a few more
            for o in others:
                X[o] = X[o].astype(float)
                for j in {pos, (pos + 3) % n, (pos + 11) % n}:
                    X.iloc[j, list(X.columns).index(o)] = NAN
        X[col] = X[col].astype(object)
        X.iloc[pos, list(X.columns).index(col)] = "12.5" if var == "cell_nan_row" else "oops"
        return X, y, None
    if mal == "ordinal_unknown":
        cols = [c for c in feats_of(case)[2] if (not fitted) or (c in required_columns(obj) and raw_is(obj, c, "quali"))]
        if not cols:
            return X, y, "no ordinal column left"
        absent = var.split(":")[0]
        if case.get("ord_num"):
            X[cols[0]] = X[cols[0]].astype(object)
        X.iloc[pos, list(X.columns).index(cols[0])] = {"absent_int": 9, "absent_float": 4.5,
                                                        "absent_str": "d"}.get(absent, "L9")
        return X, y, None
    if mal == "n_classes":
        vals = list(y)
        if var == "one_class":
            vals = [vals[0]] * n
        elif var == "two_classes":
            a, b = (0, 1) if cls == "ContinuousCarver" else sorted(set(vals), key=str)[:2]
            vals = [a if i % 2 else b for i in range(n)]
            j = pos
            vals[j] = b if vals[j] == a else a
        elif var == "three_classes":
            vals[pos] = 2
        elif var == "two_not01":
            vals = [v + 1 for v in vals]
        elif var == "missing_class":
            cl = sorted(set(vals), key=str)
            gone = cl[min(len(cl) - 1, int(case["pos2"] * len(cl)))]
            keep = [c for c in cl if c != gone][0]
            vals = [keep if v == gone else v for v in vals]
        elif var == "extra_class":
            vals[pos] = "zz" if isinstance(vals[0], str) else 99
        import pandas as pd
        return X, pd.Series(vals, index=y.index), None
    if mal == "y_str":
        import pandas as pd
        if var == "str01":
            return X, pd.Series([str(v) for v in y], index=y.index), None
        vals = list(y)
        vals[pos] = "7"
        return X, pd.Series(vals, index=y.index, dtype=object), None
    raise ValueError(mal)


PERTURBS = ["plain", "nan_new", "id_like", "new_category", "dropped_category", "numeric_categories", "shifted"]


def perturb_second_sample(X, case):
    """the sample of a SECOND fit differs from the first one in a way the data preparation of the
    classes reacts to (still a frame with every column): NaN where the first sample had none, id-like
    features, new / vanished / numeric-looking categories, another numeric range"""
    import random
    kind = case.get("perturb", "plain")
    if kind == "plain" or not hasattr(X, "columns"):
        return X
    qf, cf, of = feats_of(case)
    r = random.Random(int(case["pos"] * 1e9))
    n = len(X)
    cols = list(X.columns)
    if kind == "nan_new":
        for c in qf + cf + of:
            if c in cols:
                if c in cf + of:
                    X[c] = X[c].astype(object)
                for j in r.sample(range(n), max(2, n // 8)):
                    X.iloc[j, cols.index(c)] = NAN
    elif kind == "id_like":
        for c in cf + of:
            if c in cols:
                X[c] = [f"id_{j}" for j in range(n)]
        for c in qf:
            if c in cols:
                X[c] = [j * 1.37 for j in range(n)]
    elif kind == "new_category":
        for c, v in [(c, "zz") for c in cf] + [(c, "L9") for c in of]:
            if c in cols:
                for j in r.sample(range(n), max(2, n // 6)):
                    X.iloc[j, cols.index(c)] = v
    elif kind == "dropped_category":
        for c in cf:
            if c in cols:
                X[c] = X[c].replace({"a": "b", "d": "c"})
        for c in of:
            if c in cols:
                X[c] = X[c].replace({"L0": "L1", "L4": "L3"})
    elif kind == "numeric_categories":
        for c in cf:
            if c in cols:
                X[c] = X[c].map({"a": 1, "b": 2, "c": 3.5, "d": "d"}).astype(object)
        for c in of:
            if c in cols:
                X[c] = X[c].map({"L0": 0, "L1": 1, "L2": "L2", "L3": 3, "L4": 4}).astype(object)
    elif kind == "shifted":
        for c in qf:
            if c in cols:
                X[c] = X[c] * -3 + 1000
    return X


def snapshot(obj, case):
    """values_orders, JSON export and transform(X_valid) of a fitted object"""
    snap = {}
    try:
        snap["features"] = json.dumps({k: sorted(map(str, getattr(obj, k, None) or []))
                                       for k in ("features", "quantitative_features", "qualitative_features",
                                                 "ordinal_features")}, sort_keys=True)
    except Exception as e:  # noqa: BLE001
        snap["features"] = f"raised {type(e).__name__}: {e}"[:200]
    try:
        snap["labels"] = json.dumps({str(f): [[enc(k), enc(v)] for k, v in d.items()]
                                     for f, d in sorted(obj.labels_per_values.items())}, sort_keys=True)
    except Exception as e:  # noqa: BLE001
        snap["labels"] = f"raised {type(e).__name__}: {e}"[:200]
    try:
        snap["vo"] = json.dumps({str(f): [[enc(l), encs(list(vo.content[l]))] for l in list(vo)]
                                 for f, vo in sorted(obj.values_orders.items())}, sort_keys=True)
    except Exception as e:  # noqa: BLE001
        snap["vo"] = f"raised {type(e).__name__}: {e}"[:200]
    try:
        js = obj.to_json()
        js = dict(js)
        js["features"] = sorted(js.get("features", []))  # list(set(..)) order is hash dependent
        snap["json"] = json.dumps(js, sort_keys=True, default=repr)
    except Exception as e:  # noqa: BLE001
        snap["json"] = f"raised {type(e).__name__}: {e}"[:200]
    try:
        Xt = obj.transform(frame(case["new"], case, 500))
        snap["transform"] = json.dumps({str(c): encs(list(Xt[c])) for c in sorted(Xt.columns)}, sort_keys=True)
    except Exception as e:  # noqa: BLE001
        snap["transform"] = f"raised {type(e).__name__}: {e}"[:200]
    return snap


def call(fn):
    try:
        fn()
        return "ok", ""
    except AssertionError as e:
        return "assert", f"AssertionError: {e}"[:160]
    except Exception as e:  # noqa: BLE001
        return "other", f"{type(e).__name__}: {e}"[:200]


FIRSTS = ["id_like", "constant_q", "all_nan_q", "dev_reversed"]


def first_sample_shape(X, case):
    """shapes the sample of the FIRST fit so that this (successful) fit keeps no feature at all"""
    kind = case.get("first")
    if X is None or not kind:
        return X
    n = len(X)
    if kind == "id_like":
        for c in feats_of(case)[1]:
            X[c] = [f"id_{j}" for j in range(n)]
    elif kind == "constant_q":
        for c in feats_of(case)[0]:
            X[c] = 5.0
    elif kind == "all_nan_q":
        for c in feats_of(case)[0]:
            X[c] = NAN
    return X  # dev_reversed: the dev sample of the case is the train sample with a reversed target


def gen_all_dropped_case(rng, cls, kind):
    """a second-fit case whose first fit drops every feature"""
    c = gen_case(rng, cls, "refit", "second_fit", "-")
    q, cc, _o = FEATS[cls]
    c["first"] = kind
    c["perturb"] = "plain"
    if kind == "id_like":
        c["feats"] = {"q": [], "c": cc, "o": []}
    else:
        c["feats"] = {"q": q[:1], "c": [], "o": []}
    if kind == "dev_reversed":
        dev = json.loads(json.dumps(c["train"]))
        ys = decs(dev["y"])
        if c["classes"] is None:
            hi = max(ys)
            dev["y"] = encs([hi - v for v in ys])
        else:
            cl = decs(c["classes"])
            dev["y"] = encs([cl[len(cl) - 1 - cl.index(v)] for v in ys])
        c["dev"] = dev
        if c["new_dev"] is None:
            c["new_dev"] = json.loads(json.dumps(c["new"]))
        c["min_freq"] = 0.2
    else:
        c["dev"] = c["new_dev"] = None
    return c


def all_dropped_kinds(cls):
    q, cc, _o = FEATS[cls]
    ks = []
    if cc and cls != "CategoricalDiscretizer":
        ks.append("id_like")
    if q and cls in CARVERS:
        ks += ["constant_q", "all_nan_q"]
        if cls != "MulticlassCarver":  # reversing the class order keeps the middle class as it is
            ks.append("dev_reversed")
    return ks


def ordinal_id_like(X, case):
    """the most frequent level of the ordinal feature of the frame given to a first fit is rarer than
    min_freq (computed as QualitativeDiscretizer._prepare_data does: NaN counted in the denominator only);
    only for the classes that prepare their qualitative features with QualitativeDiscretizer"""
    import pandas as pd
    if case["cls"] not in ORDNUM_CLASSES or not isinstance(X, pd.DataFrame):
        return False
    for c in feats_of(case)[2]:
        if c in X.columns:
            freq = X[c].value_counts(normalize=True, dropna=False).drop(NAN, errors="ignore")
            if len(freq) == 0 or freq.max() < case["min_freq"]:
                return True
    return False


def sort_by_value(v):
    if v == "garbage":
        return "foo"
    if v.startswith("v="):
        return None if v == "v=<None>" else v[2:]
    return v


def run_case(case):
    cls, ep, mal, var = case["cls"], case["ep"], case["mal"], case["var"]
    dev_side = var.endswith("@dev")
    out = {"cls": cls}
    st = case["index_start"]
    if ep == "init":
        v = var
        if mal == "feature_overlap":
            out["outcome"], out["error"] = call(lambda: construct(case, overlap=v))
        elif mal == "sort_by":
            out["outcome"], out["error"] = call(lambda: construct(case, sort_by=sort_by_value(v)))
        else:
            out["outcome"], out["error"] = call(lambda: construct(case))
        out["fitted_before"] = False
        return out

    obj = construct(case)
    has_dev = case["dev"] is not None

    def do_fit(o, X, y, Xd=None, yd=None):
        if cls in CARVERS and has_dev:
            return o.fit(X, y, X_dev=Xd, y_dev=yd)
        return o.fit(X, y)

    if ep == "fit":
        X, y = frame(case["train"], case, st), target(case["train"], st)
        Xd = yd = None
        if has_dev:
            Xd, yd = frame(case["dev"], case, 1000), target(case["dev"], 1000)
        if dev_side:
            Xd, yd, skip = inject(case, obj, Xd, yd, False)
        else:
            X, y, skip = inject(case, obj, X, y, False)
        if skip:
            return {"skip": skip}
        out["ordinal_id_like"] = ordinal_id_like(X, case)
        out["outcome"], out["error"] = call(lambda: do_fit(obj, X, y, Xd, yd))
        out["fitted_before"] = False
        if mal == "none" and out["outcome"] == "ok":
            out["is_fitted"] = bool(obj.is_fitted)
        return out

    # refit / transform: a successful first fit, a snapshot, the rejected call, a second snapshot
    X, y = frame(case["train"], case, st), target(case["train"], st)
    Xd = yd = None
    if has_dev:
        Xd, yd = frame(case["dev"], case, 1000), target(case["dev"], 1000)
    X, Xd = first_sample_shape(X, case), first_sample_shape(Xd, case)
    res, err = call(lambda: do_fit(obj, X, y, Xd, yd))
    if res != "ok":
        return {"skip": "first fit failed: " + err}
    if case.get("first") and len(obj.features) > 0:
        return {"skip": f"first fit ({case['first']}) kept features {sorted(obj.features)}"}
    before = snapshot(obj, case)
    if any(v.startswith("raised") for v in before.values()):
        return {"skip": "snapshot of the fitted object failed: " + json.dumps(before)[:300]}
    out["fitted_before"] = True
    out["n_features_fitted"] = len(obj.features)
    if ep == "refit":
        X2, y2 = frame(case["new"], case, st), target(case["new"], st)
        X2 = perturb_second_sample(X2, case)
        Xd2 = yd2 = None
        if has_dev:
            Xd2, yd2 = frame(case["new_dev"], case, 1000), target(case["new_dev"], 1000)
        if dev_side:
            Xd2, yd2, skip = inject(case, obj, Xd2, yd2, True)
        else:
            X2, y2, skip = inject(case, obj, X2, y2, True)
        if skip:
            return {"skip": skip}
        out["outcome"], out["error"] = call(lambda: do_fit(obj, X2, y2, Xd2, yd2))
    else:
        X2, y2 = frame(case["new"], case, st), target(case["new"], st)
        with_y = mal in ("y_not_series", "y_nan", "index_mismatch") or var == "with_y"
        X2, y2, skip = inject(case, obj, X2, y2, True)
        if skip:
            return {"skip": skip}
        if with_y:
            out["outcome"], out["error"] = call(lambda: obj.transform(X2, y2))
        else:
            out["outcome"], out["error"] = call(lambda: obj.transform(X2))
    after = snapshot(obj, case)
    out["unchanged"] = {k: before[k] == after[k] for k in before}
    out["changed_detail"] = {k: after[k][:160] for k in before if before[k] != after[k] and after[k].startswith("raised")}
    out["is_fitted"] = bool(obj.is_fitted)
    return out


def unchanged_all(out):
    u = out.get("unchanged")
    return u is None or all(u.values())


class C19(Prop):
    pid = "C19"
    theorems = ["C19_reject_guarded", "C19_reject_frame_generic", "C19_frame_generic_fitted",
                "C19_reject_frame_current", "C19_reject_frame_transform_init",
                "C19_transform_never_writes", "C19_unguarded_refuted", "C19_crash_gaps_refuted",
                "C19_accept_valid", "C19_verdict_zero_sound", "C19_predicate_spec",
                "C19_before_fix_refit_refuted", "C19_before_fix_refit_all_classes_refuted"]
    rule = ("one case = (class among the 9 carver/discretizer classes, entry point init/fit/refit/transform, "
            "ONE malformed class injected at a random position (row / column / permutation drawn from the "
            "case's PRNG) into an otherwise valid 40-80 row sample, train or dev side); every expressible "
            "(class, entry point, malformed class, variant) triple is generated at least once per run "
            "(quick: once + the second fit of every class with each of 7 second samples — like the first, NaN "
            "where the first had none, id-like features, new / vanished / numeric-looking categories, other "
            "numeric range —, and after a first fit that dropped EVERY feature (id-like qualitative feature; for carvers "
            "a constant or all-NaN quantitative feature, a dev sample with the reversed target), thorough: 12x); quant_str also as a str cell on a row where another quantitative "
            "feature is NaN; unsupported sort_by drawn from substrings/prefixes/suffixes/case variants/padded forms of "
            "each carver's supported names, '' and None; ordinal features holding numbers (ranking as strings or as "
            "numbers, NaN or not) with an absent int / float / str value, and the all-in-ranking controls; observable: exception class, and for objects "
            "fitted before the call features / values_orders / labels_per_values / json.dumps(to_json()) / transform(X_valid) against the "
            "snapshot taken before the call; compared in Coq with run_call of the CURRENT step list of the class; "
            "non-trivial = malformed case whose call was reached (first fit succeeded); distinct = "
            "(class, entry, malformed class, variant, outcome, unchanged) signature")
    assumptions = ["input abstracted to the boolean record of Model/Validate.v by the harness (which "
                   "malformation it injected); pandas' own behaviour inside a check (isinstance, isna, index "
                   "comparison) is trusted",
                   "state equality observed through values_orders, to_json() and transform on one valid frame"]

    def corpus(self):
        """minimised failing cases kept from earlier runs (corpus/findings/O38_*.json, C19-*.json), run first"""
        import glob
        import os
        cs = []
        d = os.path.join(C.VERIF, "corpus", "findings")
        for fn in sorted(glob.glob(os.path.join(d, "O[0-9][0-9]_c19_*.json"))) + sorted(glob.glob(os.path.join(d, "C19-*.json"))):
            try:
                cs.append(json.load(open(fn))["case"])
            except (OSError, ValueError, KeyError):
                continue
        return cs

    def generate(self, rng, tier):
        cases = []
        reps = 1 if tier == "quick" else 12
        # the second fit of a fitted object first (several samples and feature sets per class)
        for _ in range(reps):
            for cls in CLASSES:
                for kind in PERTURBS:
                    c = gen_case(rng, cls, "refit", "second_fit", "-")
                    c["perturb"] = kind
                    cases.append(c)
        for cls in CARVERS + ["Discretizer"]:
            for kinds in ("q", "c", "qc"):
                c = gen_case(rng, cls, "refit", "second_fit", "-")
                q, cc, _o = FEATS[cls]
                c["feats"] = {"q": q if "q" in kinds else [], "c": cc if "c" in kinds else [], "o": []}
                cases.append(c)
        # a first fit that drops EVERY feature (id-like qualitative feature; constant / all-NaN quantitative
        # feature or dev sample contradicting the train sample for carvers): the object is fitted all the same
        for _ in range(reps):
            for cls in CLASSES:
                for kind in all_dropped_kinds(cls):
                    cases.append(gen_all_dropped_case(rng, cls, kind))
        # known finding O48, exercised on every run: an ordinal feature whose levels are all rarer than
        # min_freq (6 levels at 1/6, or 5 levels + NaN, min_freq 0.2) with one value absent from the ranking
        directed = []
        for _ in range(reps):
            for cls in ORDNUM_CLASSES:
                for var, flat in (("cell", "six"), ("absent_int:strrank", "six"), ("absent_int:numrank", "five_nan"),
                                  ("cell", "five_nan")):
                    c = gen_case(rng, cls, "fit", "ordinal_unknown", var)
                    c["ord_flat"], c["min_freq"], c["dev"], c["new_dev"] = flat, 0.2, None, None
                    directed.append(c)
        # carvers first (O5 was observed on BaseCarver.fit), MulticlassCarver without ordinal feature next
        prio = {"BinaryCarver": 0, "ContinuousCarver": 1, "MulticlassCarver": 2}
        cases.sort(key=lambda c: (prio.get(c["cls"], 3) + (1 if c["cls"] == "MulticlassCarver" and c["feats"]["o"] else 0)))
        for _ in range(reps):
            for cls in CLASSES:
                for ep, mal, var in all_triples(cls):
                    if (ep, mal) != ("refit", "second_fit"):
                        cases.append(gen_case(rng, cls, ep, mal, var))
        return cases + directed

    def search_cases(self, rng, neighbours, rnd):
        cases = []
        for cls in CLASSES:
            tr = all_triples(cls)
            for ep, mal, var in rng.sample(tr, min(len(tr), 12)):
                cases.append(gen_case(rng, cls, ep, mal, var))
        return cases

    def run_impl(self, case):
        return run_case(case)

    def oracle(self, case, out):
        cls, ep, mal, var = case["cls"], case["ep"], case["mal"], case["var"]
        where = f"{cls}.{ep} [{mal}/{var}]"
        if case.get("first"):
            where += f" after a successful first fit that dropped every feature ({case['first']})"
        if mal == "none":
            # a valid sample is not a subject of the property; its rejection is left to the model comparison
            if out.get("fitted_before") and not unchanged_all(out):
                return False, f"{where}: an accepted transform changed the fitted object {out['unchanged']}"
            return True, ""
        if out["outcome"] == "ok":
            return False, f"{where}: malformed input ACCEPTED (no exception)"
        if out["outcome"] == "other":
            return False, f"{where}: raised {out.get('error')} instead of AssertionError"
        if out.get("fitted_before") and not unchanged_all(out):
            ch = [k for k, v in out["unchanged"].items() if not v]
            return False, (f"{where}: call rejected with AssertionError but the fitted object changed: "
                           f"{ch} differ from the snapshot taken before the call {out.get('changed_detail') or ''}")
        return True, ""

    # ---- Coq side ---------------------------------------------------------------------------
    def coq_input(self, case, out):
        """the abstract input record: which malformation the harness injected"""
        mal, var = case["mal"], case["var"]
        dev = var.endswith("@dev")
        v = var.split("@")[0]
        f = {"x_is_frame": True, "x_is_none": False, "y_is_series": True, "y_is_none": False, "y_has_nan": False,
             "index_matches": True, "index_same_len": True, "columns_present": True,
             "dev_given": case["dev"] is not None, "xdev_is_frame": True, "ydev_is_series": True,
             "ydev_has_nan": False, "dev_index_matches": True, "dev_columns_present": True,
             "n_classes": 2, "y_is_01": True, "y_has_str": False, "y_all_str": False, "feature_overlap": False,
             "quant_has_str": False, "ordinal_unknown_value": False, "sort_by_ok": True, "y_given": True,
             "ydev_given": True, "dev_index_same_len": True, "ydev_classes_ok": True, "ydev_has_str": False}
        tgt = {"ContinuousCarver": "continuous", "MulticlassCarver": "multiclass"}.get(case["cls"], "binary")
        if tgt == "continuous":
            f["n_classes"], f["y_is_01"] = 9, False
        elif tgt == "multiclass":
            f["n_classes"], f["y_is_01"] = len(case["classes"]), False
        if case["ep"] == "transform":
            f["y_given"] = mal in ("y_not_series", "y_nan", "index_mismatch") or var == "with_y"
            f["dev_given"] = False
        p = "dev_" if dev else ""
        if mal == "x_not_frame":
            if dev:
                f["xdev_is_frame"] = False
            else:
                f["x_is_frame"] = False
                f["x_is_none"] = v == "none"
        elif mal == "y_not_series":
            if dev and v == "none":
                f["ydev_given"] = False
            elif dev:
                f["ydev_is_series"] = False
            else:
                f["y_is_series"] = False
                f["y_is_none"] = v == "none"
                if v == "none":
                    f["y_given"] = False
        elif mal == "y_nan":
            f["ydev_has_nan" if dev else "y_has_nan"] = True
        elif mal == "index_mismatch":
            f[p + "index_matches"] = False
            if v == "shorter":
                f[p + "index_same_len"] = False
        elif mal == "missing_col":
            f[p + "columns_present"] = False
        elif mal == "n_classes" and dev:
            f["ydev_classes_ok"] = False
        elif mal == "y_str" and dev:
            f["ydev_has_str"] = True
            if v == "str01":
                f["ydev_classes_ok"] = False
        elif mal == "n_classes":
            f["n_classes"] = {"one_class": 1, "two_classes": 2, "three_classes": 3, "two_not01": 2}[v]
            f["y_is_01"] = v == "two_classes" and tgt == "continuous"
        elif mal == "y_str":
            f["y_has_str"] = True
            f["y_all_str"] = v == "str01"
            if v == "str01":
                f["y_is_01"] = False
        elif mal == "feature_overlap":
            f["feature_overlap"] = True
        elif mal == "quant_str":
            f["quant_has_str"] = True
        elif mal == "ordinal_unknown":
            f["ordinal_unknown_value"] = True
        elif mal == "sort_by":
            f["sort_by_ok"] = False
        order = ["x_is_frame", "x_is_none", "y_given", "y_is_series", "y_has_nan", "index_matches",
                 "index_same_len", "columns_present", "dev_given", "xdev_is_frame", "ydev_is_series",
                 "ydev_has_nan", "dev_index_matches", "dev_columns_present"]
        f["has_ordinal"] = bool(case["feats"]["o"])
        order2 = ["y_is_01", "y_has_str", "y_all_str", "feature_overlap", "quant_has_str",
                  "ordinal_unknown_value", "sort_by_ok", "has_ordinal",
                  "ydev_given", "dev_index_same_len", "ydev_classes_ok", "ydev_has_str", "ordinal_id_like"]
        f["ordinal_id_like"] = bool(out.get("ordinal_id_like"))
        return ("(mkInput " + " ".join(C.cbool(f[k]) for k in order) + f" {C.cnat(f['n_classes'])} "
                + " ".join(C.cbool(f[k]) for k in order2) + ")")

    def coq_case(self, case, out):
        oc = {"ok": "ROk", "assert": "RAssert", "other": "ROther"}[out["outcome"]]
        u = out.get("unchanged")
        unchanged = True if u is None else all(u.values())
        return (f"mkCase {COQ_CLS[case['cls']]} {COQ_EP[case['ep']]} {COQ_MAL[case['mal']]} "
                f"{self.coq_input(case, out)} {C.cbool(bool(out.get('fitted_before')))} {oc} {C.cbool(unchanged)}")

    def coq_shards(self, cases, outs):
        shards = []
        for part in chunks(list(zip(cases, outs)), 250):
            terms = [f"verdict19 ({self.coq_case(c, o)})" for c, o in part]
            shards.append("From Coq Require Import List Bool.\nImport ListNotations.\n"
                          "From AC.Model Require Import Validate CheckC19.\n"
                          "Eval vm_compute in [" + ";\n ".join(terms) + "].\n")
        return shards

    # ---- bookkeeping ---------------------------------------------------------------------------
    def signature(self, case, out):
        if case["mal"] == "none":
            return None
        return (f"{case['cls']}|{case['ep']}|{case['mal']}|{case['var']}|{case.get('perturb', 'plain')}|"
                f"{case.get('first') or '-'}|"
                f"{out.get('outcome')}|{unchanged_all(out)}")

    def finding_signatures(self, case, out, msg):
        """coarse signature of the mechanism first, then the fine (class, entry, malformed class) one"""
        sigs = []
        cls, ep, mal, var = case["cls"], case["ep"], case["mal"], case["var"].split("@")[0]
        res = out.get("outcome")
        if mal == "none" or (res == "assert" and unchanged_all(out)):
            return sigs
        if ep == "refit" and res == "assert" and not unchanged_all(out):
            sigs.append(f"refit_guard_evaluated_after_refitting:{cls}")
        if ep == "refit" and res == "ok":
            sigs.append(f"second_fit_accepted:{cls}")
        if res in ("ok", "other"):
            # the three known findings, narrowly
            if mal == "x_not_frame" and var == "none" and ep == "fit" and res == "other":
                sigs.append("x_none_not_asserted")
            elif mal == "quant_str" and ep == "transform" and res == "other":
                sigs.append("quant_str_at_transform_not_asserted")
            elif mal == "ordinal_unknown" and cls == "OrdinalDiscretizer" and ep == "fit" and res == "ok":
                sigs.append("ordinal_unknown_accepted:OrdinalDiscretizer")
            elif mal == "y_not_series" and var == "none" and case["var"].endswith("@dev"):
                sigs.append("x_dev_without_y_dev_not_asserted")
            elif mal == "y_str" and cls == "ContinuousCarver" and case["var"].endswith("@dev"):
                sigs.append("y_dev_str_not_asserted:ContinuousCarver")
            elif (mal == "ordinal_unknown" and ep == "fit" and res == "ok" and cls in ORDNUM_CLASSES
                  and out.get("ordinal_id_like")):
                sigs.append("ordinal_absent_value_unnoticed_when_feature_dropped_as_id_like")
            # repaired mechanisms (a regression shows up under these names)
            elif mal in ("n_classes", "y_str") and case["var"].endswith("@dev"):
                sigs.append("y_dev_wrong_classes_not_asserted")
            elif mal == "ordinal_unknown" and var.startswith("absent_") and res == "ok":
                sigs.append("ordinal_absent_value_accepted_for_non_string_ordinal")
            elif mal == "quant_str" and var == "cell_nan_row" and ep in ("fit", "refit"):
                sigs.append("quant_str_in_row_with_nan_not_asserted")
            elif mal == "sort_by" and res == "ok":
                sigs.append("unsupported_sort_by_accepted")
            elif mal == "quant_str" and cls == "ContinuousDiscretizer" and ep in ("fit", "refit"):
                sigs.append("quant_str_at_fit_not_asserted:ContinuousDiscretizer")
            elif cls == "ContinuousDiscretizer" and ep in ("fit", "refit"):
                sigs.append("no_prepare_data:ContinuousDiscretizer")
            elif mal == "index_mismatch" and var == "shorter":
                sigs.append("index_length_mismatch_not_asserted")
            elif mal == "feature_overlap" and cls == "Discretizer":
                sigs.append("feature_overlap_accepted:Discretizer")
            elif mal == "y_str" and cls == "ContinuousCarver":
                sigs.append("continuous_target_mixed_str_not_asserted")
            elif mal == "missing_col" and cls == "MulticlassCarver" and "KeyError" in out.get("error", ""):
                sigs.append("multiclass_missing_column_not_asserted")
        if ep != "refit" and res == "ok":
            sigs.append(f"malformed_accepted:{cls}:{ep}:{mal}")
        if res == "other":
            sigs.append(f"not_assertion_error:{cls}:{ep}:{mal}")
        return sigs

    def shrink(self, case, out, msg):
        """rows are removed from the end of the samples while the same failure is observed"""
        best = (case, out, msg)
        key = self.finding_signatures(case, out, msg)
        for keep in (12, 16, 20, 24, 30):
            c2 = json.loads(json.dumps(case))
            for part in ("train", "new", "dev", "new_dev"):
                if c2[part] is None:
                    continue
                m = len(c2[part]["y"])
                if m <= keep:
                    continue
                # keep the first half and the last half (forced levels/classes live at both ends)
                for col in c2[part]:
                    c2[part][col] = c2[part][col][:keep // 2] + c2[part][col][m - keep // 2:]
            c2["n"] = len(c2["train"]["y"])
            o2 = C._worker((self.run_impl, c2))
            if isinstance(o2, dict) and ("skip" in o2 or "harness_error" in o2):
                continue
            ok, m2 = self.oracle(c2, o2)
            if not ok and self.finding_signatures(c2, o2, m2) == key:
                return c2, o2, m2
        return best

    def distribution(self, cases, outs):
        d = {"class": {}, "entry": {}, "malformed": {}, "outcome": {}, "with_dev": 0, "rows": {},
             "second_sample": {}}
        for c, o in zip(cases, outs):
            d["class"][c["cls"]] = d["class"].get(c["cls"], 0) + 1
            d["entry"][c["ep"]] = d["entry"].get(c["ep"], 0) + 1
            d["malformed"][c["mal"]] = d["malformed"].get(c["mal"], 0) + 1
            d["with_dev"] += c["dev"] is not None
            if c["ep"] == "refit":
                k = c.get("perturb", "plain")
                d["second_sample"][k] = d["second_sample"].get(k, 0) + 1
            d["rows"][str(c["n"])] = d["rows"].get(str(c["n"]), 0) + 1
            if isinstance(o, dict):
                k = o.get("outcome", "skip" if "skip" in o else "harness_error")
                d["outcome"][k] = d["outcome"].get(k, 0) + 1
        # every (class, entry point, malformed class) on which the implementation's answer is not
        # "AssertionError and fitted object unchanged", by mechanism
        fails = {}
        for c, o in zip(cases, outs):
            if not isinstance(o, dict) or "outcome" not in o:
                continue
            ok, msg = self.oracle(c, o)
            if not ok:
                sg = self.finding_signatures(c, o, msg)
                k = sg[0] if sg else "unclassified: " + msg[:80]
                fails.setdefault(k, {})
                t = f"{c['cls']}.{c['ep']}[{c['mal']}/{c['var']}]->{o['outcome']}"
                fails[k][t] = fails[k].get(t, 0) + 1
        d["property_failures_by_mechanism"] = fails
        for k in sorted(fails):
            print(f"[C19] fails: {k}: {sum(fails[k].values())} case(s), e.g. {sorted(fails[k])[0]}", flush=True)
        return d


PROP = C19()
