"""C14 — Selectors return the best-ranked, mutually uncorrelated features.

Layout
  * exact, independent recomputation of every measure (fractions.Fraction, no AutoCarver / scipy
    code): Kruskal-Wallis H (mid-ranks, tie correction), eta^2 (= R_measure^2), Pearson r^2 with
    sign, Spearman rho^2, chi2 (Yates for dof 1), Cramer's V^2, Tschuprow's T^4;
  * `tables(case, out)`: the model's input (measure cells per feature, pairwise associations,
    thresholds — all as exact integers over one common denominator per column);
  * `PyRef`: plain-Python mirror of coq/Model/Selector.v (used to debug and to shrink);
  * `spec_failures`: the property predicate on the implementation's own output (python oracle;
    the same predicate is evaluated in Coq by CheckC14.C14_b);
  * class C14 (generate / run_impl / oracle / coq_shards / ...).
"""
import math
from fractions import Fraction as Fr

import common as C
from props.base import NAN, Prop, chunks, dec, decs, enc, encs

QUANTI_M = ("kruskal", "R", "distance", "iqr", "zscore", "pearson", "spearman")
# pearson_measure / spearman_measure of /repo HEAD compare scipy's result OBJECT with the threshold
# (`r < thresh_pearson`): TypeError on every call.  The model follows the code (the call raises).
RAISES_ON_HEAD = ("pearson", "spearman")
QUALI_M = ("chi2", "cramerv", "tschuprowt", "rkruskal")
COLNAME = {"kruskal": "kruskal_measure", "R": "R_measure", "distance": "distance_measure",
           "chi2": "chi2_statistic", "cramerv": "cramerv_measure",
           "tschuprowt": "tschuprowt_measure", "rkruskal": "kruskal_measure", "iqr": "pct_iqr",
           "zscore": "pct_zscore", "pearson": "pearson_measure", "spearman": "spearman_measure"}
THRESH_KW = {"kruskal": "thresh_kruskal", "R": "thresh_R", "distance": "thresh_distance",
             "chi2": "thresh_chi2", "cramerv": "thresh_cramerv", "tschuprowt": "thresh_tschuprowt",
             "rkruskal": "thresh_kruskal", "iqr": "thresh_iqr", "zscore": "thresh_zscore",
             "pearson": "thresh_pearson", "spearman": "thresh_spearman"}
THRESH_DEFAULT = {"iqr": 1.0, "zscore": 1.0}
GATES = ("iqr", "zscore")   # outlier screening: pct_* < thresh_*, not an association measure
GATE_COLUMNS = {"iqr": 4, "zscore": 5}   # pct_iqr q1 median q3 | pct_zscore min max mean std
RANKING = {"kruskal": True, "R": True, "distance": True, "chi2": False, "cramerv": True,
           "tschuprowt": True, "rkruskal": True, "iqr": False, "zscore": False, "pearson": True,
           "spearman": True}
FALSY_NAN = {"kruskal": False, "R": True, "distance": True, "chi2": False, "cramerv": False,
             "tschuprowt": False, "rkruskal": False, "iqr": False, "zscore": False, "pearson": False,
             "spearman": False}
TOL = 1e-9
BIG = Fr(10 ** 40)


def isnan(v):
    return isinstance(v, float) and v != v


def fr(v):
    return Fr(v)


# ------------------------------------------------------------------------------------------------
# exact measures (independent of AutoCarver)
# ------------------------------------------------------------------------------------------------
def midranks(vals):
    s = sorted(vals)
    pos, i = {}, 0
    while i < len(s):
        j = i
        while j < len(s) and s[j] == s[i]:
            j += 1
        pos[s[i]] = Fr(i + 1 + j, 2)
        i = j
    return [pos[v] for v in vals]


def kruskal_exact(groups):
    """groups: list of lists of Fractions.  None = undefined (scipy returns NaN)."""
    if len(groups) < 2:
        return "err"
    if any(len(g) == 0 for g in groups):
        return None
    allv = [v for g in groups for v in g]
    n = len(allv)
    rk = midranks(allv)
    cnt = {}
    for v in allv:
        cnt[v] = cnt.get(v, 0) + 1
    if n < 2:
        return None
    t = 1 - Fr(sum(c ** 3 - c for c in cnt.values()), n ** 3 - n)
    if t == 0:
        return None
    tot, k = Fr(0), 0
    for g in groups:
        r = sum(rk[k:k + len(g)], Fr(0))
        k += len(g)
        tot += r * r / len(g)
    return (Fr(12, n * (n + 1)) * tot - 3 * (n + 1)) / t


def eta2_exact(groups):
    groups = [g for g in groups if g]
    allv = [v for g in groups for v in g]
    n = len(allv)
    if n == 0:
        return "err"
    m = sum(allv, Fr(0)) / n
    sst = sum((v - m) ** 2 for v in allv)
    if sst == 0:
        return None
    ssb = Fr(0)
    for g in groups:
        mg = sum(g, Fr(0)) / len(g)
        ssb += len(g) * (mg - m) ** 2
    return ssb / sst


def pearson_exact(xs, ys):
    """(sign, r^2) on the given complete pairs; None when a variance is 0 / no data"""
    n = len(xs)
    if n == 0:
        return None
    sx, sy = sum(xs, Fr(0)), sum(ys, Fr(0))
    cov = n * sum((a * b for a, b in zip(xs, ys)), Fr(0)) - sx * sy
    vx = n * sum((a * a for a in xs), Fr(0)) - sx * sx
    vy = n * sum((b * b for b in ys), Fr(0)) - sy * sy
    if vx == 0 or vy == 0:
        return None
    return (1 if cov > 0 else (-1 if cov < 0 else 0)), cov * cov / (vx * vy)


def complete_pairs(xs, ys):
    ps = [(a, b) for a, b in zip(xs, ys) if not isnan(a) and not isnan(b)]
    return [a for a, _ in ps], [b for _, b in ps]


def corr2_exact(xs, ys, method):
    a, b = complete_pairs(xs, ys)
    a, b = [fr(v) for v in a], [fr(v) for v in b]
    if method == "spearman":
        a, b = midranks(a), midranks(b)
    p = pearson_exact(a, b)
    return None if p is None else p[1]


def chi2_exact(xs, ys, full=False):
    """(chi2, n, r, c): chi2 on the pairwise complete rows (scipy chi2_contingency: Yates iff the
    table has dof 1); r, c = number of modalities, of the complete rows (canonical definition) or,
    with full=True, of the whole columns (x.nunique(), y.nunique(): the implementation)"""
    a, b = complete_pairs(xs, ys)
    n = len(a)
    if n == 0:
        return None
    rows, cols = sorted(set(a), key=str), sorted(set(b), key=str)
    cnt = {}
    for u, v in zip(a, b):
        cnt[(u, v)] = cnt.get((u, v), 0) + 1
    rs = {u: sum(cnt.get((u, v), 0) for v in cols) for u in rows}
    cs = {v: sum(cnt.get((u, v), 0) for u in rows) for v in cols}
    r, c = len(rows), len(cols)
    if full:  # modalities counted on the whole columns (what the implementation does)
        r_all = len({v for v in xs if not isnan(v)})
        c_all = len({v for v in ys if not isnan(v)})
    else:
        r_all, c_all = r, c
    dof = (r - 1) * (c - 1)
    chi2 = Fr(0)
    if dof > 0:
        for u in rows:
            for v in cols:
                e = Fr(rs[u] * cs[v], n)
                o = Fr(cnt.get((u, v), 0))
                if dof == 1:
                    d = e - o
                    mag = min(Fr(1, 2), abs(d))
                    o = o + mag * (1 if d > 0 else (-1 if d < 0 else 0))
                chi2 += (o - e) ** 2 / e
    return chi2, n, r_all, c_all


def cramerv2_exact(xs, ys, full=False):
    t = chi2_exact(xs, ys, full)
    if t is None:
        return "err"
    chi2, n, r, c = t
    if min(r, c) - 1 == 0:
        return None
    return chi2 / n / (min(r, c) - 1)


def tschuprowt4_exact(xs, ys, full=False):
    t = chi2_exact(xs, ys, full)
    if t is None:
        return "err"
    chi2, n, r, c = t
    if (r - 1) * (c - 1) == 0:
        return Fr(0)
    return chi2 * chi2 / (n * n) / ((r - 1) * (c - 1))


def quantile_exact(vals, p, method="linear"):
    """pandas Series.quantile on the sorted non-missing values (Fractions)"""
    m = len(vals)
    pos = Fr(m - 1) * p
    lo = pos.numerator // pos.denominator
    frac = pos - lo
    a, b = vals[lo], vals[min(lo + 1, m - 1)]
    if method == "lower" or frac == 0:
        return a
    if method == "higher":
        return b
    return a + (b - a) * frac


def iqr_exact(xs, method="linear"):
    """share of rows outside [q1 - 1.5 iqr, q3 + 1.5 iqr] (missing rows count as outside)"""
    vals = sorted(fr(v) for v in xs if not isnan(v))
    if not vals:
        return None
    q1, q3 = quantile_exact(vals, Fr(1, 4), method), quantile_exact(vals, Fr(3, 4), method)
    lo, hi = q1 - Fr(3, 2) * (q3 - q1), q3 + Fr(3, 2) * (q3 - q1)
    return Fr(sum(1 for v in xs if isnan(v) or not lo <= fr(v) <= hi), len(xs))


def zscore_exact(xs):
    """share of rows with |x - mean| / std > 3 (sample std, missing rows are not outliers);
    None when fewer than two observed values (std is NaN: the row is dropped by thresh_filter)"""
    vals = [fr(v) for v in xs if not isnan(v)]
    m = len(vals)
    if m < 2:
        return None
    mean = sum(vals, Fr(0)) / m
    var = sum((v - mean) ** 2 for v in vals) / (m - 1)
    return Fr(sum(1 for v in vals if var > 0 and (v - mean) ** 2 > 9 * var), len(xs))


def sgn_sq(x):
    x = Fr(x)
    return x * x if x >= 0 else -(x * x)


# ------------------------------------------------------------------------------------------------
# the case -> exact tables
# ------------------------------------------------------------------------------------------------
def case_lists(case, dtype):
    task = case["task"]
    if dtype == "float":
        ms = case["qm"] if case["qm"] is not None else (["kruskal"] if task == "classification" else ["distance"])
        fs = case["qf"] if case["qf"] is not None else ["spearman"]
        feats = case["quanti"]
    else:
        ms = case["lm"] if case["lm"] is not None else (["tschuprowt"] if task == "classification" else ["rkruskal"])
        fs = case["lf"] if case["lf"] is not None else ["tschuprowt"]
        feats = case["quali"]
    return ms, fs, feats


def kwf(case, name, default):
    v = case["kw"].get(name)
    return default if v is None else float.fromhex(v)


def measure_exact(kind, xs, ys, y_own=None, x_in_y_order=None):
    """returns dict(model=key|None|'err', spec=strength|None) — exact Fractions.
    model key: a strictly increasing transform of the float the implementation sorts on.
    spec strength: strength of association (independent notion: H, eta^2, r^2, chi2, V^2, T^4)."""
    if kind in ("kruskal", "R"):
        yv = []
        for v in ys:
            if v not in yv:
                yv.append(v)
        groups = [[fr(x) for x, y in zip(xs, ys) if y == c and not isnan(x)] for c in yv]
        v = kruskal_exact(groups) if kind == "kruskal" else eta2_exact(groups)
        return {"model": v, "spec": None if v == "err" else v}
    if kind == "rkruskal":
        # reverse_xy(kruskal_measure): target grouped by the modalities of x; x.unique() contains
        # NaN when x has missing values -> an empty group
        xv, has_nan = [], False
        for v in xs:
            if isnan(v):
                has_nan = True
            elif v not in xv:
                xv.append(v)
        groups = [[fr(y) for x, y in zip(xs, ys) if x == c] for c in xv]
        v = kruskal_exact(groups + ([[]] if has_nan else []))
        sp = kruskal_exact(groups)
        return {"model": v, "spec": None if sp == "err" else sp}
    if kind == "iqr":
        return {"model": iqr_exact(xs), "spec": None}
    if kind == "zscore":
        return {"model": zscore_exact(xs), "spec": None}
    if kind in ("pearson", "spearman"):
        a, b = complete_pairs(xs, ys)
        a, b = [fr(v) for v in a], [fr(v) for v in b]
        if kind == "spearman":
            a, b = midranks(a), midranks(b)
        p = pearson_exact(a, b)
        spec = None if p is None else p[1]
        if kind in RAISES_ON_HEAD:
            return {"model": "err", "spec": spec}
        return {"model": None if p is None else p[0] * p[1], "spec": spec}
    if kind == "distance":
        a, b = complete_pairs(xs, ys)
        p = pearson_exact([fr(v) for v in a], [fr(v) for v in b])
        spec = None if p is None else p[1]
        if y_own is not None:
            # the code: scipy correlation(x[~nans], y[~nans]) on the VALUES: x in X's row order, y
            # (masked by label) in y's own row order -> rows are paired by position
            a = [v for v in xs if not isnan(v)]
            b = [w for w, v in zip(y_own, x_in_y_order) if not isnan(v)]
            p = pearson_exact([fr(v) for v in a], [fr(v) for v in b])
        if p is None:
            return {"model": None, "spec": spec}
        s, r2 = p
        return {"model": 1 - s * r2, "spec": spec}
    if kind == "chi2":
        t = chi2_exact(xs, ys)
        return {"model": "err" if t is None else t[0], "spec": None if t is None else t[0]}
    if kind == "cramerv":
        v, sp = cramerv2_exact(xs, ys, True), cramerv2_exact(xs, ys)
        return {"model": v, "spec": None if sp == "err" else sp}
    if kind == "tschuprowt":
        v, sp = tschuprowt4_exact(xs, ys, True), tschuprowt4_exact(xs, ys)
        return {"model": v, "spec": None if sp == "err" else sp}
    raise ValueError(kind)


def thresh_keys(kind, t):
    """(model threshold key, spec threshold key) for a user threshold t (float, exact)"""
    t = Fr(t)
    if kind in ("kruskal", "rkruskal", "chi2", "iqr", "zscore"):
        return t, t
    if kind in ("pearson", "spearman"):
        return sgn_sq(t), sgn_sq(t)
    if kind in ("R", "cramerv"):
        return sgn_sq(t), sgn_sq(t)
    if kind == "tschuprowt":
        return (t ** 4 if t >= 0 else -(t ** 4)), (t ** 4 if t >= 0 else -(t ** 4))
    if kind == "distance":
        return 1 - sgn_sq(1 - t), sgn_sq(t)
    raise ValueError(kind)


def value_as_float(kind, key):
    """the float the implementation should report for an exact model key"""
    if kind in ("kruskal", "rkruskal", "chi2", "iqr", "zscore"):
        return float(key)
    if kind in ("pearson", "spearman"):
        return math.copysign(math.sqrt(abs(float(key))), float(key))
    if kind in ("R", "cramerv"):
        return math.sqrt(float(key))
    if kind == "tschuprowt":
        return float(key) ** 0.25
    if kind == "distance":
        s = 1 - key  # = sign * r^2
        return 1 - (math.sqrt(float(s)) if s >= 0 else -math.sqrt(float(-s)))
    raise ValueError(kind)


def filter_exact(kind, xs, ys):
    """(exact association on the comparison scale, power p) : |rho|^p resp. T^4 / V^2; NaN -> 0"""
    if kind in ("spearman", "pearson"):
        v = corr2_exact(xs, ys, kind)
        return (Fr(0) if v is None else v), 2
    if kind == "cramerv":
        v = cramerv2_exact(xs, ys, True)
        return (Fr(0) if v in (None, "err") else v), 2
    if kind == "tschuprowt":
        v = tschuprowt4_exact(xs, ys, True)
        return (Fr(0) if v in (None, "err") else v), 4
    raise ValueError(kind)


def rank_equivalent(col):
    if not any(isinstance(v, float) and math.isinf(v) for v in col):
        return col
    fin = [v for v in col if not isnan(v) and not math.isinf(v)]
    hi, lo = (max(fin) + 1, min(fin) - 1) if fin else (1.0, -1.0)
    return [(hi if v > 0 else lo) if isinstance(v, float) and math.isinf(v) else v for v in col]


def lcm_den(vals):
    d = 1
    for v in vals:
        d = d * v.denominator // math.gcd(d, v.denominator)
    return d


def build_tables(case, out):
    """everything the model and the predicate need, per dtype.  `out` (implementation output) is
    used only for (a) the implementation's feature order (tie-breaking of the stable sorts),
    (b) float-level oracles: is a value that is exactly 0 reported as NaN (falsy), is an
    association exactly equal to thresh_corr reported above it."""
    n = case["n"]
    y, yperm = aligned_target(case)
    y_own = decs(case["y"])
    misaligned = yperm != list(range(len(y)))
    inv = {m: k for k, m in enumerate(yperm)}
    res = {}
    for dtype in ("float", "str"):
        ms, fs, feats = case_lists(case, dtype)
        if not feats:
            continue
        raw_cols = {name: decs(col) for name, col in feats}
        # +-inf cells (quantitative features, rank-based measures only: generator): for the measures
        # they are the largest / smallest value (any finite stand-in beyond the observed range gives
        # the same ranks); pandas' corr masks them with isfinite: missing for the filters
        cols = {name: rank_equivalent(c) for name, c in raw_cols.items()}
        fcols = {name: [NAN if isinstance(v, float) and math.isinf(v) else v for v in c]
                 for name, c in raw_cols.items()}
        order = (out.get("order") or {}).get(dtype) if isinstance(out, dict) else None
        names = [f for f in order if f in cols] if order else [name for name, _ in feats]
        names += [name for name, _ in feats if name not in names]
        tnan, tmode = Fr(kwf(case, "thresh_nan", 0.999)), Fr(kwf(case, "thresh_mode", 0.999))
        tcorr = Fr(kwf(case, "thresh_corr", 1.0))
        itab = (out.get("table") or {}).get(dtype) if isinstance(out, dict) else None
        itab = itab if isinstance(itab, dict) else {}
        ipair = (out.get("pairs") or {}).get(dtype) if isinstance(out, dict) else None
        ipair = ipair if isinstance(ipair, dict) else {}
        ipair = {k_: v_ for k_, v_ in ipair.items() if isinstance(v_, dict)}  # a failed observation is a str
        rows, fragile = [], []
        for f in names:
            xs = cols[f]
            cnt_nan = sum(1 for v in xs if isnan(v))
            cnts = {}
            for v in xs:
                if not isnan(v):
                    cnts[v] = cnts.get(v, 0) + 1
            cnt_mode = max(cnts.values()) if cnts else 0
            raws, specs = [], []
            for k in ms:
                if misaligned and k == "distance":
                    e = measure_exact(k, xs, y, y_own, [xs[inv[m]] for m in range(len(y_own))])
                else:
                    e = measure_exact(k, xs, y)
                irep = (itab.get(f) or {}).get(COLNAME[k])
                zero_nan = False
                if FALSY_NAN[k] and e["model"] not in (None, "err") and e["model"] == 0:
                    # float-level oracle: exact 0 is falsy iff the float is exactly 0.0
                    zero_nan = (irep == "nan")
                    if irep is None:
                        fragile.append(f"{f}:{k}: exact value 0 and float not observed")
                key = e["model"]
                if key is None and irep in (math.inf, -math.inf):
                    # float-level oracle: a degenerate statistic (0/0 up to rounding noise: scipy's
                    # kruskal on identical values) is reported as nan, +inf or -inf
                    key = BIG if irep > 0 else -BIG
                raws.append({"kind": k, "key": key, "zero_nan": zero_nan})
                specs.append(e["spec"])
            rows.append({"name": f, "cnt_nan": cnt_nan, "cnt_mode": cnt_mode, "raw": raws, "spec": specs})
        # thresholds
        mthr, sthr = [], []
        for k in ms:
            a, b = thresh_keys(k, kwf(case, THRESH_KW[k], THRESH_DEFAULT.get(k, 0.0)))
            mthr.append(a)
            sthr.append(b)
        # pairwise associations per filter (symmetric)
        fil = []
        for k in fs:
            p = 2 if k in ("spearman", "pearson", "cramerv") else 4
            tk = tcorr ** p if tcorr >= 0 else Fr(-1)
            mat, gt = {}, {}
            for i, f in enumerate(names):
                for j, g in enumerate(names):
                    if i == j:
                        continue
                    a, _ = filter_exact(k, fcols[f], fcols[g])
                    if a != tk and tk >= 0 and abs(float(a) ** (1 / p) - float(tcorr)) <= TOL:
                        a = tk  # equal to thresh_corr up to the rounding of the user's float: boundary
                    mat[(f, g)] = a
                    iv = ((ipair.get(k) or {}).get(f) or {}).get(g)
                    if a == tk:
                        if isinstance(iv, float):
                            gt[(f, g)] = iv > float(tcorr)
                            iv2 = ((ipair.get(k) or {}).get(g) or {}).get(f)  # the other column order
                            if isinstance(iv2, float) and (iv2 > float(tcorr)) != gt[(f, g)]:
                                fragile.append(f"{f},{g}:{k}: association equals thresh_corr and the float "
                                               "comparison depends on the column order")
                        else:
                            gt[(f, g)] = False
                    else:
                        gt[(f, g)] = False
            for f in names:
                for g in names:
                    if f != g and gt[(f, g)] != gt[(g, f)]:
                        fragile.append(f"{f},{g}:{k}: association equals thresh_corr and the float "
                                       "comparison depends on the argument order")
            fil.append({"kind": k, "thresh": tk, "mat": mat, "gt": gt})
        cs = None
        if case.get("colsample") is not None and isinstance(out, dict):
            chunks, k = colsample_ints(case)
            sh = next((s for s in (out.get("shuffled") or []) if set(s) == set(names)), list(names))
            calls = [c[1] for c in (out.get("calls") or []) if c[0] == dtype]
            observed = calls[:k] if len(calls) >= k else calls  # the samples (the last call is the final one)
            cs = {"chunks": chunks, "k": k, "shuffled": sh, "observed": observed}
        res[dtype] = {"cs": cs, "names": names, "rows": rows, "ms": ms, "fs": fs, "mthr": mthr, "sthr": sthr,
                      "tnan": tnan, "tmode": tmode, "filters": fil, "n": n, "fragile": fragile,
                      "n_best": case["n_best"]}
    return res


# ------------------------------------------------------------------------------------------------
# plain-Python mirror of coq/Model/Selector.v
# ------------------------------------------------------------------------------------------------
def stable_sort_desc(items, key):
    out = []
    for x in reversed(items):
        i = 0
        while i < len(out) and key(out[i]) > key(x):
            i += 1
        out.insert(i, x)
    return out


def greedy(bad, items):
    kept = []
    for f in items:
        if not any(bad(f, g) for g in kept):
            kept.append(f)
    return kept


def pyref_cells(t):
    """{feature: [cell per measure]} as the model's pipeline computes them ('missing' = not reached)"""
    return pyref_type(t, want_cells=True)


def pyref_type(t, want_cells=False):
    """returns list of names or 'internal'"""
    n, ms = t["n"], t["ms"]
    table = []
    for r in t["rows"]:
        nan_ok = Fr(r["cnt_nan"], n) < t["tnan"]
        mode_ok = nan_ok and Fr(r["cnt_mode"], n) < t["tmode"]
        active = nan_ok and mode_ok
        cells = []
        for j, k in enumerate(ms):
            if not active:
                cells.append("missing")
                continue
            raw = r["raw"][j]
            if raw["key"] == "err":
                return {} if want_cells else "internal"
            # a second chi2-based measure is computed from the chi2 statistic of the first one
            # (/repo 406fe09): same value as the stand-alone measure
            if raw["key"] is None or (FALSY_NAN[k] and raw["key"] == 0 and raw["zero_nan"]):
                cells.append("nan")
                active = False
            else:
                cells.append(raw["key"])
                active = raw["key"] < t["mthr"][j]
        table.append((r["name"], nan_ok and mode_ok, cells))
    if want_cells == "best":
        # "Best features are the n_best of EACH measure" (theorem C14_best_feature_returned): the
        # strictly best complete feature of every ranking measure that was computed
        exists = [any(c[j] != "missing" for _, _, c in table) for j in range(len(ms))]
        complete = [(f, c) for f, ok, c in table
                    if ok and all((not exists[j]) or (c[j] not in ("missing", "nan")) for j in range(len(ms)))]
        res = []
        for j in range(len(ms)):
            if exists[j] and RANKING[ms[j]] and complete:
                top = max(c[j] for _, c in complete)
                best = [f for f, c in complete if c[j] == top]
                if len(best) == 1:
                    res.append((ms[j], best[0]))
        return res
    if want_cells:
        return {f: c for f, _, c in table}
    exists = [any(c[j] != "missing" for _, _, c in table) for j in range(len(ms))]
    rank_cols = [j for j in reversed(range(len(ms))) if exists[j] and RANKING[ms[j]]]
    if not rank_cols:
        return []
    complete = [(f, c) for f, ok, c in table
                if ok and all((not exists[j]) or (c[j] not in ("missing", "nan")) for j in range(len(ms)))]
    if not complete and len(t["filters"]) >= 2:
        return "internal"
    cellof = dict(complete)
    initial = [f for f, _ in complete]
    for j in reversed(rank_cols):  # least significant key first
        initial = stable_sort_desc(initial, lambda f, j=j: cellof[f][j])
    sels = []
    for j in rank_cols:
        ranked = stable_sort_desc(initial, lambda f, j=j: cellof[f][j])
        for flt in t["filters"]:
            def bad(f, g, flt=flt):
                a = flt["mat"][(f, g)]
                return a > flt["thresh"] or (a == flt["thresh"] and flt["gt"][(f, g)])
            ranked = greedy(bad, ranked)
        sels.append(ranked[:t["n_best"]])
    return [f for f in initial if any(f in s for s in sels)]


def pyref(case, tabs):
    nf = len({name for name, _ in case["quanti"]} | {name for name, _ in case["quali"]})
    if not 0 < int(case["n_best"]) <= nf + 1:
        return "assert"
    out = []
    for dtype in ("float", "str"):
        if dtype in tabs:
            t = tabs[dtype]
            if t.get("cs") is None:
                r = pyref_type(t)
            else:
                best = []
                for s in cs_samples(t["cs"]["chunks"], t["cs"]["k"], t["cs"]["shuffled"]):
                    r = pyref_type(sub_table(t, s, max(1, t["n_best"] // 2)))
                    if r == "internal":
                        return "internal"
                    best += r
                r = pyref_type(sub_table(t, best, t["n_best"])) if best else []
            if r == "internal":
                return "internal"
            out += r
    return out


def cs_samples(chunks, k, lst):
    return [lst[chunks * i: chunks * (i + 1)] for i in range(k - 1)] + [lst[chunks * (k - 1):]]


def sub_table(t, names, n_best):
    row = {r["name"]: r for r in t["rows"]}
    s = dict(t)
    s["names"] = list(names)
    s["rows"] = [row[f] for f in names]
    s["n_best"] = n_best
    return s


# ------------------------------------------------------------------------------------------------
# property predicate on the implementation's own output
# ------------------------------------------------------------------------------------------------
def spec_failures(case, tabs, sel):
    """list of (tag, dtype, message).  tags: nodup subset sorted count independent maximal"""
    fails = []
    allnames = [name for name, _ in case["quanti"]] + [name for name, _ in case["quali"]]
    if len(set(sel)) != len(sel):
        fails.append(("nodup", "-", f"duplicated feature in {sel}"))
    if any(f not in allnames for f in sel):
        fails.append(("subset", "-", f"returned feature not among the inputs: {sel}"))
    for dtype, t in tabs.items():
        names = t["names"]
        out = [f for f in sel if f in names]
        ms = t["ms"]
        row = {r["name"]: r for r in t["rows"]}
        assoc = [j for j, k in enumerate(ms) if k not in GATES]
        if not assoc:
            continue
        # sorted by decreasing strength of the last requested association measure
        last = assoc[-1]
        st = [row[f]["spec"][last] for f in out]
        for a, b, fa, fb in zip(st, st[1:], out, out[1:]):
            if a is None or b is None or a < b:
                fails.append(("sorted", dtype, f"{fa} is returned before {fb} although its {ms[last]} "
                                               f"association with the target is smaller or undefined "
                                               f"({_f(a)} < {_f(b)})"))
                break
        if len(out) > t["n_best"] * len(assoc):
            fails.append(("count", dtype, f"{len(out)} features returned, n_best={t['n_best']}, {len(ms)} measures"))
        for flt in t["filters"]:
            for i, f in enumerate(out):
                for g in out[i + 1:]:
                    if flt["mat"][(f, g)] > flt["thresh"]:
                        fails.append(("independent", dtype,
                                      f"{f} and {g} are both returned, {flt['kind']} association "
                                      f"{_assoc(flt, f, g)} > thresh_corr"))
        if t.get("cs") is None and t["n_best"] >= 1:
            for k, f in (pyref_type(t, want_cells="best") or []):
                if f not in out:
                    fails.append(("best", dtype,
                                  f"{f} has the strictly largest {k} value among the features measured with every "
                                  f"computed measure and is not returned ({out}): the n_best best features of EACH "
                                  f"measure must be returned (ranking of this measure by another one?)"))
        n = t["n"]
        for f in (names if t.get("cs") is None else []):  # colsample < 1: pre-selection per sample
            if f in out:
                continue
            r = row[f]
            if not Fr(r["cnt_nan"], n) < t["tnan"] or not Fr(r["cnt_mode"], n) < t["tmode"]:
                continue  # fails thresh_nan / thresh_mode
            if any(k in GATES and r["raw"][j]["key"] is not None and not r["raw"][j]["key"] < t["mthr"][j]
                   for j, k in enumerate(ms)):
                continue  # screened out by an outlier gate (pct_iqr >= thresh_iqr)
            for j, k in enumerate(ms):
                s = r["spec"][j]
                if s is None or s <= 0 or s < t["sthr"][j]:
                    continue  # undefined, no association at all, or below the minimum association
                better = [g for g in out if row[g]["spec"][j] is not None and row[g]["spec"][j] >= s]
                if len(better) >= t["n_best"]:
                    continue
                if any(flt["mat"][(f, g)] >= flt["thresh"] for flt in t["filters"] for g in better):
                    continue
                fails.append(("maximal", dtype,
                              f"{f} is left out although its {k} association {_f(s)} is defined and passes "
                              f"the threshold, only {len(better)} better-ranked features are returned "
                              f"(n_best={t['n_best']}) and none of them is associated with it above thresh_corr"))
                break
    return fails


def _f(x):
    return "undefined" if x is None else f"{float(x):.6g}"


def _assoc(flt, f, g):
    p = 2 if flt["kind"] != "tschuprowt" else 4
    return f"{float(flt['mat'][(f, g)]) ** (1 / p):.6g}"


def ties_present(tabs):
    """an exact tie between two complete features on a ranking key, or an association exactly at
    thresh_corr: the implementation may legitimately order / decide either way"""
    for t in tabs.values():
        for j, k in enumerate(t["ms"]):
            if not RANKING[k]:
                continue  # chi2_statistic / pct_iqr columns are never sorted on
            ks = [r["raw"][j]["key"] for r in t["rows"] if r["raw"][j]["key"] not in (None, "err")]
            if len(set(ks)) != len(ks):
                return True
        for j, _ in enumerate(t["ms"]):
            ks = [r["spec"][j] for r in t["rows"] if r["spec"][j] is not None]
            if len(set(ks)) != len(ks):
                return True
    return False


# ------------------------------------------------------------------------------------------------
def build_frame(case):
    import numpy as np
    import pandas as pd

    data = {}
    for name, col in case["quanti"]:
        v = decs(col)
        data[name] = pd.Series(v, dtype=("float64" if any(isinstance(x, float) for x in v) else "int64"))
    for name, col in case["quali"]:
        data[name] = pd.Series(decs(col), dtype=object)
    X = pd.DataFrame(data)
    yv = decs(case["y"])
    xi, yi = row_labels(case)
    if xi is not None:
        X.index = pd.Index(xi)
    if all(isinstance(v, str) for v in yv):
        y = pd.Series(yv, dtype=object)
    elif any(isinstance(v, float) for v in yv):
        y = pd.Series(yv, dtype="float64")
    else:
        y = pd.Series(yv, dtype="int64")
    if yi is not None:
        y.index = pd.Index(yi)
    _ = np
    return X, y


def row_labels(case):
    """index labels of the rows of X and of y (None = default RangeIndex).  Columns of the case are
    stored in X's row order, the target in y's row order; rows are paired BY LABEL."""
    xi = decs(case["xi"]) if case.get("xi") is not None else None
    yi = decs(case["yi"]) if case.get("yi") is not None else None
    if xi is None and yi is None:
        return None, None
    n = case["n"]
    return (xi if xi is not None else list(range(n))), (yi if yi is not None else list(range(n)))


def aligned_target(case):
    """(y in X's row order, permutation p with y_aligned[k] = y[p[k]]) by label alignment"""
    y = decs(case["y"])
    xi, yi = row_labels(case)
    if xi is None:
        return y, list(range(len(y)))
    pos = {lab: m for m, lab in enumerate(yi)}
    p = [pos[lab] for lab in xi]
    return [y[m] for m in p], p


def frames_equal(a, b):
    import pandas as pd

    if isinstance(a, pd.Series):
        return a.equals(b) and list(a.index) == list(b.index) and a.dtype == b.dtype and a.name == b.name
    return (a.equals(b) and list(a.columns) == list(b.columns) and list(a.index) == list(b.index)
            and list(a.dtypes) == list(b.dtypes))


def make_selector(case):
    from AutoCarver.selectors import ClassificationSelector, RegressionSelector
    from AutoCarver.selectors.filters import cramerv_filter, pearson_filter, spearman_filter, tschuprowt_filter
    from AutoCarver.selectors.measures import (R_measure, chi2_measure, cramerv_measure, distance_measure,
                                               iqr_measure, kruskal_measure, tschuprowt_measure, zscore_measure)
    from AutoCarver.selectors.measures.quantitative_measures import pearson_measure, spearman_measure
    from AutoCarver.selectors.measures.base_measures import reverse_xy

    M = {"kruskal": kruskal_measure, "R": R_measure, "distance": distance_measure, "chi2": chi2_measure,
         "iqr": iqr_measure, "zscore": zscore_measure, "pearson": pearson_measure, "spearman": spearman_measure,
         "cramerv": cramerv_measure, "tschuprowt": tschuprowt_measure}
    F = {"spearman": spearman_filter, "pearson": pearson_filter, "cramerv": cramerv_filter,
         "tschuprowt": tschuprowt_filter}
    kw = {k: float.fromhex(v) for k, v in case["kw"].items()}
    args = {}
    if case["qm"] is not None:
        args["quantitative_measures"] = [M[k] for k in case["qm"]]
    if case["lm"] is not None:
        args["qualitative_measures"] = [reverse_xy(kruskal_measure) if k == "rkruskal" else M[k] for k in case["lm"]]
    if case["qf"] is not None:
        args["quantitative_filters"] = [F[k] for k in case["qf"]]
    if case["lf"] is not None:
        args["qualitative_filters"] = [F[k] for k in case["lf"]]
    cls = ClassificationSelector if case["task"] == "classification" else RegressionSelector
    if case.get("colsample") is not None:
        args["colsample"] = float.fromhex(case["colsample"])
    return cls(n_best=case["n_best"],
               quantitative_features=[n for n, _ in case["quanti"]] or None,
               qualitative_features=[n for n, _ in case["quali"]] or None,
               **args, **kw)


def colsample_ints(case):
    """(chunks, number of samples) exactly as BaseSelector.select computes them (CPython floats)"""
    cs = float.fromhex(case["colsample"])
    nf = len({n for n, _ in case["quanti"]} | {n for n, _ in case["quali"]})
    return int(nf // (1 / cs)), int(1 / cs)


def fnum(v):
    try:
        v = float(v)
    except (TypeError, ValueError):
        return None
    return "nan" if v != v else v


def second_case(case):
    """the input of the SECOND select() call on the same selector object (key `again`: another
    target, optionally other data under the same column names)"""
    c2 = {k: v for k, v in case.items() if k != "again"}
    c2.update(case["again"])
    return c2


def run_selector(case):
    """select() + the observable tables of the implementation; with `again`: a second select() on
    the SAME object with another input, and a fresh selector on that second input"""
    out, sel = run_selector_on(case, None)
    if case.get("again") is not None and sel is not None:
        c2 = second_case(case)
        out2, _ = run_selector_on(c2, sel)
        fresh, _ = run_selector_on(c2, None, observe=False)
        out2["fresh_sel"], out2["fresh_err"] = fresh["sel"], fresh["err"]
        out["again"] = out2
    return out


def run_selector_on(case, sel, observe=True):
    from AutoCarver.selectors.base_selector import apply_measures
    from AutoCarver.selectors.measures import cramerv_measure, tschuprowt_measure

    X, y = build_frame(case)
    X0, y0 = X.copy(deep=True), y.copy(deep=True)
    out = {"sel": None, "err": None, "order": None, "table": {}, "pairs": {}, "unchanged": True}
    try:
        sel = make_selector(case) if sel is None else sel
    except AssertionError:
        out["err"] = "assert"
        return out, None
    out["order"] = {k: list(v) for k, v in sel.input_dtypes.items()}
    undo = None
    if case.get("colsample") is not None:
        # oracles / observations of the colsample < 1 branch: the shuffled feature lists
        # (random.shuffle under a seed of the case) and the feature list of every _select_features call
        import random

        import AutoCarver.selectors.base_selector as bs

        random.seed(case.get("rseed", 0))
        real_shuffle, real_sf = bs.shuffle, sel._select_features
        out["shuffled"], out["calls"] = [], []

        def rec_shuffle(lst):
            real_shuffle(lst)
            out["shuffled"].append([str(f) for f in lst])

        def rec_sf(X_, y_, features, n_best, dtype):
            out["calls"].append([str(dtype), [str(f) for f in features], int(n_best)])
            return real_sf(X_, y_, features, n_best, dtype)

        bs.shuffle, sel._select_features = rec_shuffle, rec_sf

        def undo():
            bs.shuffle = real_shuffle
    try:
        res = sel.select(X, y)
        out["sel"] = [str(f) for f in res]
    except AssertionError:
        out["err"] = "assert"
    except Exception as e:  # noqa: BLE001
        out["err"] = "internal"
        out["err_msg"] = f"{type(e).__name__}: {str(e)[:120]}"
    if undo is not None:
        undo()
    out["unchanged"] = bool(frames_equal(X, X0) and frames_equal(y, y0))
    # observable tables (same functions select() uses, fresh frames)
    for dtype in (("float", "str") if observe else ()):
        ms, fs, feats = case_lists(case, dtype)
        if not feats:
            continue
        names = [n for n, _ in feats]
        X, y = build_frame(case)
        try:
            t = apply_measures(X, y, measures=sel.measures[dtype], features=names, **sel.kwargs)
            tab = {}
            for f in names:
                tab[f] = {c: fnum(t.loc[f, c]) for c in t.columns
                          if c in ("pct_nan", "pct_mode") or c in COLNAME.values()}
            out["table"][dtype] = tab
        except Exception as e:  # noqa: BLE001
            out["table"][dtype] = f"{type(e).__name__}"
        # pairwise associations AS THE IMPLEMENTATION'S FILTER computes them: the filter function is run
        # on the two-feature ranking [g, f] with a threshold that drops nothing; its `<k>_filter` cell
        # of f is the association of the candidate f with the better-ranked g (column order g, f)
        import pandas as pd
        from AutoCarver.selectors.filters import (cramerv_filter, pearson_filter, spearman_filter,
                                                  tschuprowt_filter)
        FF = {"spearman": spearman_filter, "pearson": pearson_filter, "cramerv": cramerv_filter,
              "tschuprowt": tschuprowt_filter}
        _ = (cramerv_measure, tschuprowt_measure)
        prs = {}
        for k in fs:
            try:
                tab = {f: {} for f in names}
                for f in names:
                    for g in names:
                        if g == f:
                            continue
                        res = FF[k](X, pd.DataFrame({"rank": [1.0, 0.0]}, index=[g, f]), thresh_corr=10.0)
                        col = f"{k}_filter"
                        v = res.loc[f, col] if hasattr(res, "columns") and col in res.columns else 0.0
                        v = fnum(v)
                        tab[f][g] = 0.0 if v == "nan" else v
                prs[k] = tab
            except Exception as e:  # noqa: BLE001
                prs[k] = f"{type(e).__name__}"
        out["pairs"][dtype] = prs
    return out, sel


def table_mismatch(case, tabs, out):
    """implementation's measure values / pairwise associations vs the exact recomputation"""
    msgs = []
    for dtype, t in tabs.items():
        itab = out["table"].get(dtype)
        if not isinstance(itab, dict):
            continue
        n = t["n"]
        cells = pyref_cells(t)
        for r in t["rows"]:
            it = itab.get(r["name"], {})
            if it.get("pct_nan") is not None and abs(it["pct_nan"] - r["cnt_nan"] / n) > TOL:
                msgs.append(f"pct_nan of {r['name']}: {it['pct_nan']} vs {r['cnt_nan']}/{n}")
            if isinstance(it.get("pct_mode"), float) and abs(it["pct_mode"] - r["cnt_mode"] / n) > TOL:
                msgs.append(f"pct_mode of {r['name']}: {it['pct_mode']} vs {r['cnt_mode']}/{n}")
            for j, k in enumerate(t["ms"]):
                iv = it.get(COLNAME[k])
                key = r["raw"][j]["key"]
                if iv is None or key == "err":
                    continue
                if (cells.get(r["name"]) or ["missing"] * len(t["ms"]))[j] == "missing":
                    continue  # not computed by the pipeline (early stop): nothing to compare
                if key in (BIG, -BIG):
                    continue
                if key is None:
                    if iv != "nan":
                        msgs.append(f"{k} of {r['name']}: implementation {iv}, recomputation undefined")
                    continue
                if FALSY_NAN[k] and key == 0:
                    continue  # float-level: 0.0 (reported NaN) or rounding noise, both accepted
                ev = value_as_float(k, key)
                if iv == "nan" or abs(iv - ev) > TOL * max(1.0, abs(ev)):
                    msgs.append(f"{k} of {r['name']}: implementation {iv}, model of the code {ev}")
                sp = r["spec"][j]
                if k in ("cramerv", "tschuprowt") and sp is not None and sp != key and iv != "nan":
                    sv = value_as_float(k, sp)
                    if abs(iv - sv) > TOL * max(1.0, abs(sv)):
                        msgs.append(f"{k} of {r['name']}: implementation {iv}, independent recomputation "
                                    f"on the complete rows {sv} (modalities counted on the whole columns)")
        ip = out["pairs"].get(dtype) or {}
        for flt in t["filters"]:
            m = ip.get(flt["kind"])
            if not isinstance(m, dict):
                continue
            p = 2 if flt["kind"] != "tschuprowt" else 4
            for (f, g), a in flt["mat"].items():
                iv = (m.get(f) or {}).get(g)
                if iv is None:
                    continue
                ev = float(a) ** (1 / p)
                if iv == "nan":
                    if a != 0:
                        msgs.append(f"{flt['kind']}({f},{g}): implementation NaN, recomputation {ev}")
                elif abs(iv - ev) > TOL * max(1.0, abs(ev)):
                    msgs.append(f"{flt['kind']}({f},{g}): implementation {iv}, independent recomputation {ev}")
    return msgs


# ------------------------------------------------------------------------------------------------
# generators
# ------------------------------------------------------------------------------------------------
def gen_y(rng, n, task):
    if task == "regression":
        hi = rng.choice([5, 12, 40])
        return [float(rng.randint(0, hi)) for _ in range(n)]
    k = rng.choice([2, 2, 3, 4])
    lab = rng.choice([list(range(k)), [10 * i + 1 for i in range(k)], ["c%d" % i for i in range(k)]])
    y = [lab[rng.randrange(k)] for _ in range(n)]
    for i in range(k):
        y[i % n] = lab[i]
    return y


def ynum(y):
    labs = sorted(set(y), key=str)
    return [labs.index(v) if isinstance(v, str) else v for v in y]


def gen_quanti(rng, n, y, k):
    yn = ynum(y)
    cols = []
    for _ in range(k):
        r = rng.random()
        if cols and r < 0.35:  # derived from an earlier column: correlated cluster
            base = rng.choice(cols)
            how = rng.choice(["copy", "affine", "neg", "cube", "noisy", "coarse", "noisy", "sum", "sum", "sum"])
            if how == "sum":  # non-transitive correlation: a, a + b, b
                other = rng.choice(cols)
                c = [NAN if isnan(v) or isnan(w) else v + w for v, w in zip(base, other)]
            elif how == "copy":
                c = list(base)
            elif how == "affine":
                a, b = rng.choice([2, 3, 0.5, 10]), rng.choice([0, 1, -7])
                c = [v if isnan(v) else v * a + b for v in base]
            elif how == "neg":
                c = [v if isnan(v) else -v for v in base]
            elif how == "cube":
                c = [v if isnan(v) else v ** 3 for v in base]
            elif how == "noisy":
                c = [v if isnan(v) else v + rng.choice([-1, 0, 0, 1]) for v in base]
            else:
                c = [v if isnan(v) else float(int(v) // 2) for v in base]
        elif r < 0.6:  # informative about the target
            s, w = rng.choice([1, 2, 3, -2]), rng.choice([1, 3, 6])
            c = [s * v + rng.randint(0, w) for v in yn]
        elif r < 0.68:
            c = [rng.choice([3, 3.5])] * n if rng.random() < 0.5 else [7] * n  # constant
        elif r < 0.72:
            c = [NAN] * n
        else:
            hi = rng.choice([2, 4, 9, 30])
            c = [rng.randint(0, hi) for _ in range(n)]
        if rng.random() < 0.25 and not all(isnan(v) for v in c):
            p = rng.choice([0.05, 0.2, 0.5, 0.9])
            c = [NAN if rng.random() < p else v for v in c]
        if any(isinstance(v, float) for v in c):
            c = [float(v) for v in c]
        cols.append(c)
    return cols


def gen_quali(rng, n, y, k, allow_nan):
    cols = []
    ys = [str(v) for v in y]
    for _ in range(k):
        r = rng.random()
        if cols and r < 0.35:
            base = rng.choice(cols)
            how = rng.choice(["copy", "rename", "merge", "noisy", "cross", "cross"])
            levels = sorted({v for v in base if not isnan(v)})
            if how == "cross":  # non-transitive association: a, a x b, b
                other = rng.choice(cols)
                c = [NAN if isnan(v) or isnan(w) else v + "_" + w for v, w in zip(base, other)]
            elif how == "copy" or not levels:
                c = list(base)
            elif how == "rename":
                mp = {v: "r" + v for v in levels}
                c = [v if isnan(v) else mp[v] for v in base]
            elif how == "merge":
                mp = {v: (levels[0] if i < 2 else v) for i, v in enumerate(levels)}
                c = [v if isnan(v) else mp[v] for v in base]
            else:
                c = [v if isnan(v) or rng.random() > 0.15 else rng.choice(levels) for v in base]
        elif r < 0.6 and len(set(ys)) <= 6:
            flip = rng.choice([0.0, 0.1, 0.3])
            alt = sorted(set(ys))
            c = ["y" + (v if rng.random() >= flip else rng.choice(alt)) for v in ys]
        elif r < 0.67:
            c = ["k"] * n
        else:
            m = rng.choice([2, 3, 4])
            c = ["abcd"[rng.randrange(m)] for _ in range(n)]
        if allow_nan and rng.random() < 0.2:
            p = rng.choice([0.05, 0.2, 0.5])
            c = [NAN if rng.random() < p else v for v in c]
            if all(isnan(v) for v in c):
                c[0] = "a"
        cols.append(c)
    return cols


def gen_case(rng, kind=None):
    task = rng.choice(["classification", "classification", "regression"])
    n = rng.choice([12, 16, 20, 30, 45, 60])
    if rng.random() < 0.12:  # tiny frames, in particular as many rows as columns of the association table
        n = rng.choice([4, 5, 5, 6, 6, 7, 8, 9, 10, 11])
    y = gen_y(rng, n, task)
    nq, nl = rng.choice([(0, 3), (3, 0), (4, 2), (5, 3), (6, 0), (2, 4), (7, 2)])
    quanti = gen_quanti(rng, n, y, nq)
    quali = gen_quali(rng, n, y, nl, allow_nan=(rng.random() < (0.3 if task == "classification" else 0.1)))
    kw = {}
    qm = lm = qf = lf = None
    r = rng.random()
    if task == "classification":
        if r < 0.45:
            pass
        elif r < 0.85:
            qm = rng.choice([["kruskal"], ["R"], ["kruskal", "R"], ["R", "kruskal"], ["kruskal", "R"], []])
            lm = rng.choice([["tschuprowt"], ["cramerv"], ["chi2", "cramerv"], ["chi2", "tschuprowt"],
                             ["chi2"], ["cramerv", "tschuprowt"]])
        else:
            qm = rng.choice([["kruskal", "R"], ["R", "kruskal"]])
            lm = rng.choice([["cramerv", "tschuprowt"], ["chi2", "tschuprowt"], ["tschuprowt"]])
        if qm and qm[0] in ("kruskal", "R") and rng.random() < 0.3:
            gate = rng.choice([["iqr"], ["zscore"], ["zscore", "iqr"]])
            qm = gate + qm
            for g_ in gate:
                if rng.random() < 0.7:
                    kw["thresh_" + g_] = rng.choice([1 / 16, 1 / 8, 1 / 4, 1 / 2])
        if rng.random() < 0.5:
            for k, vals in (("thresh_kruskal", [3.0, 1e9, 0.5]), ("thresh_R", [0.3, 5.0]),
                            ("thresh_chi2", [4.0, 1e9]), ("thresh_cramerv", [0.3, 5.0]),
                            ("thresh_tschuprowt", [0.3, 5.0])):
                if rng.random() < 0.4:
                    kw[k] = rng.choice(vals)
        # make the second measure of a pair reachable: large threshold on the first one
        for lst in (qm, lm):
            if lst and len(lst) == 2 and rng.random() < 0.5:
                kw[THRESH_KW[lst[0]]] = rng.choice([1e9, 5.0 if lst[0] in ("R", "cramerv", "tschuprowt") else 1e9])
    else:
        if r < 0.3:
            qm = ["distance"]
        elif r < 0.5:  # user-supplied measures of a RegressionSelector
            qm = rng.choice([["zscore", "distance"], ["zscore", "R"], ["iqr", "R"], ["R"], ["kruskal"],
                             ["pearson"], ["spearman"], ["iqr", "spearman"], ["zscore", "pearson"]])
            for g_ in ("iqr", "zscore"):
                if g_ in qm and rng.random() < 0.6:
                    kw["thresh_" + g_] = rng.choice([1 / 16, 1 / 8, 1 / 4])
            if rng.random() < 0.3:
                kw[rng.choice(["thresh_pearson", "thresh_spearman", "thresh_R"])] = rng.choice([0.25, 0.5])
        if rng.random() < 0.3:
            kw["thresh_distance"] = rng.choice([1.0, 2.5, 0.5])
        if rng.random() < 0.2:
            kw["thresh_kruskal"] = rng.choice([3.0, 1e9])
    if rng.random() < 0.5:
        qf = rng.choice([["spearman"], ["pearson"], ["spearman", "pearson"], ["pearson", "spearman"], []])
        lf = rng.choice([["tschuprowt"], ["cramerv"], ["tschuprowt", "cramerv"], []])
    if rng.random() < 0.75:
        kw["thresh_corr"] = rng.choice([1.0, 0.9, 0.7, 0.5, 0.3, 0.0, 0.6])
    if rng.random() < 0.15:
        kw["thresh_nan"] = rng.choice([0.5, 0.25])
    if rng.random() < 0.15:
        kw["thresh_mode"] = rng.choice([0.75, 0.5])
    if qm and "zscore" in qm:
        # zscore_measure adds a `std` column: NaN (row dropped) with a single observed value; the
        # model has one cell per measure, so every feature has no or at least two observed values
        for c in quanti:
            obs = [i for i, v in enumerate(c) if not isnan(v)]
            if len(obs) == 1:
                j = (obs[0] + 1) % len(c)
                c[j] = c[obs[0]]
    nf = nq + nl
    n_best = rng.choice([1, 1, 2, 2, 3, max(1, nf // 2), nf, nf + 1])
    if rng.random() < 0.03:
        n_best = rng.choice([0, nf + 2])
    return mk_case(task, y, quanti, quali, n_best, qm, lm, qf, lf, kw)


def early_stop(t):
    """O12 applies: the measure pipeline stopped before the last requested measure for a feature
    that passed the nan / mode tests (`active = value < thresh` is False after a measure)"""
    cells = pyref_cells(t)
    n = t["n"]
    for r in t["rows"]:
        if Fr(r["cnt_nan"], n) < t["tnan"] and Fr(r["cnt_mode"], n) < t["tmode"]:
            c = cells.get(r["name"]) or []
            if any(x == "missing" for x in c) or any(x == "nan" for x in c[:-1]):
                return True
    return False


def table_columns(t):
    """number of columns of the association table of one dtype (apply_measures): dtype, pct_nan,
    pct_mode + mode once a feature passes the nan test, and the keys of every measure reached"""
    cells = pyref_cells(t)
    n = t["n"]
    cols = 2
    if any(Fr(r["cnt_nan"], n) < t["tnan"] for r in t["rows"]):
        cols += 2
    chi2_seen = False
    for j, k in enumerate(t["ms"]):
        if not any(c[j] != "missing" for c in cells.values() if len(c) > j):
            continue
        if k in GATE_COLUMNS:
            cols += GATE_COLUMNS[k]
        elif k in ("chi2", "cramerv", "tschuprowt"):
            cols += (0 if chi2_seen else 1) + (0 if k == "chi2" else 1)
            chi2_seen = True
        else:
            cols += 1
    return cols


def gen_tiny_case(rng):
    """as many rows as columns of the association table of one dtype (default and custom measure
    lists, both dtypes): DataFrame.apply(result_type='expand') relabelled the measures there"""
    case = None
    for _ in range(40):
        task = rng.choice(["classification", "classification", "regression"])
        dtype = rng.choice(["float", "str"])
        qm = lm = None
        kw = {}
        if task == "classification" and rng.random() < 0.5:
            if dtype == "float":
                qm = rng.choice([["R"], ["kruskal", "R"], ["iqr", "kruskal"]])
                if len(qm) == 2 and qm[0] != "iqr":
                    kw["thresh_kruskal"] = 1e9
            else:
                lm = rng.choice([["cramerv"], ["chi2", "cramerv"], ["cramerv", "tschuprowt"]])
                if len(lm) == 2:
                    kw[THRESH_KW[lm[0]]] = 1e9 if lm[0] == "chi2" else 5.0
        n = rng.choice([5, 6, 7, 9])
        for _try in range(3):
            y = gen_y(rng, n, task)
            if task == "classification":
                y2 = [v % 2 if not isinstance(v, str) else v for v in y]
                y = y2 if rng.random() < 0.5 and len(set(y2)) >= 2 else y  # never a one-class target
            nq, nl = (rng.choice([2, 3]), rng.choice([0, 2])) if dtype == "float" else (rng.choice([0, 2]), rng.choice([2, 3]))
            yn = [int(v) for v in ynum(y)]
            quanti = [[yn[i] * rng.choice([1, 2]) + rng.randint(0, 3) for i in range(n)] for _ in range(nq)]
            quali = [["ab"[(yn[i] + (rng.random() < 0.3)) % 2] + rng.choice(["", "", "x"]) for i in range(n)]
                     for _ in range(nl)]
            case = mk_case(task, y, quanti, quali, rng.choice([1, 2, 3]), qm, lm, None, None, kw)
            t = build_tables(case, {}).get(dtype)
            if t is None:
                break
            cols = table_columns(t)
            if cols == n:
                return case
            n = cols
    return case


def gen_inf_case(rng):
    """quantitative features with +inf / -inf cells whose infinite rows carry the association
    (ClassificationSelector, rank-based kruskal_measure; spearman filter or none: pandas masks the
    infinite cells).  R / distance / iqr / zscore are NaN or ill-defined with infinite values on
    /repo HEAD and are not generated here.  The feature with infinite cells is the first one."""
    n = rng.choice([16, 20, 30])
    k = rng.choice([2, 2, 3])
    y = [i % k for i in range(n)]
    rng.shuffle(y)
    cols = []
    f0 = [float(rng.randint(0, 6)) for _ in y]
    top = [i for i, v in enumerate(y) if v == k - 1]
    bot = [i for i, v in enumerate(y) if v == 0]
    how = rng.choice(["pos", "neg", "both", "both"])
    if how in ("pos", "both"):
        for i in rng.sample(top, min(len(top), rng.choice([2, 3, 4]))):
            f0[i] = math.inf
    if how in ("neg", "both"):
        for i in rng.sample(bot, min(len(bot), rng.choice([1, 2, 4]))):
            f0[i] = -math.inf
    cols.append(f0)
    for _ in range(rng.choice([2, 3])):
        w = rng.choice([4, 6, 9])
        c = [float(rng.choice([1, 2]) * v + rng.randint(0, w)) for v in y]
        if rng.random() < 0.3:
            # never an infinite cell in a row where another feature is infinite: pandas' spearman
            # ranks a -inf shared by both columns of a pair but masks a shared +inf (reported)
            free = [i for i in range(n) if not any(math.isinf(col[i]) for col in cols)]
            if free:
                c[rng.choice(free)] = rng.choice([math.inf, -math.inf])
        cols.append(c)
    quali = [["ab"[(v + (rng.random() < 0.3)) % 2] for v in y]] if rng.random() < 0.3 else []
    kw = {} if rng.random() < 0.5 else {"thresh_corr": rng.choice([0.9, 0.7])}
    return mk_case("classification", y, cols, quali, rng.choice([1, 1, 2, 3]), rng.choice([None, ["kruskal"]]),
                   None, rng.choice([None, ["spearman"], []]), None, kw)


def add_second_call(rng, case):
    """the same selector OBJECT selects a second time: an independent second target (2/3 of the
    cases) or other data under the same column names and another target (1/3)"""
    n, task = case["n"], case["task"]
    y2 = gen_y(rng, n, task)
    ag = {"y": encs(y2)}
    if rng.random() < 0.34:
        quanti = gen_quanti(rng, n, y2, len(case["quanti"]))
        quali = gen_quali(rng, n, y2, len(case["quali"]), allow_nan=False)
        if case["qm"] and "zscore" in case["qm"]:
            for c in quanti:
                obs = [i for i, v in enumerate(c) if not isnan(v)]
                if len(obs) == 1:
                    c[(obs[0] + 1) % len(c)] = c[obs[0]]
        ag["quanti"] = [[nm, encs(c)] for (nm, _), c in zip(case["quanti"], quanti)]
        ag["quali"] = [[nm, encs(c)] for (nm, _), c in zip(case["quali"], quali)]
    case = dict(case)
    case["again"] = ag
    return case


def gen_colsample_case(rng):
    """colsample < 1 (mostly 0.5): the per-sample winners are at most n_best, thresh_corr < 1 and a
    highly correlated pair that the shuffle may split over two samples: the FINAL selection over the
    winners must still order by decreasing measure and apply the filter across samples"""
    n = rng.choice([20, 30, 40])
    k = rng.choice([2, 2, 3])
    y = [i % k for i in range(n)]
    rng.shuffle(y)
    cs = rng.choice([0.5, 0.5, 0.5, 0.34, 0.25])
    nq = rng.choice([4, 5, 6, 7])
    quanti = []
    for _ in range(nq - 2):
        quanti.append([rng.choice([0, 1, 2, 3]) * v + rng.randint(0, rng.choice([3, 5, 8])) for v in y])
    base = [3 * v + rng.randint(0, 2) for v in y]                    # strongly informative ...
    twin = [2 * b + 1 if rng.random() < 0.9 else 2 * b + 2 for b in base]  # ... and its near copy
    quanti += [base, twin]
    order = list(range(nq))
    rng.shuffle(order)
    case = mk_case("classification", y, [quanti[i] for i in order], [], rng.choice([2, 3, 4, nq]),
                   None, None, rng.choice([None, ["spearman"], ["pearson"]]), None,
                   {"thresh_corr": rng.choice([0.5, 0.7, 0.8, 0.9])})
    case["colsample"] = float(cs).hex()
    case["rseed"] = rng.randrange(10 ** 6)
    return case


def gen_boundary_case(rng):
    """associations exactly equal to thresh_corr without a tie of the ranking measure: a
    qualitative feature and a coarsening of it (Cramer's V = 1), a quantitative feature and its
    cube (|rho| = 1, different R); thresh_corr = 1 (default or explicit)"""
    n = rng.choice([12, 20, 30, 45])
    y = gen_y(rng, n, "classification")
    ys = [str(v) for v in y]
    alt = sorted(set(ys))
    x = [(v if rng.random() > 0.25 else rng.choice(alt)) + rng.choice(["a", "b"]) for v in ys]
    levels = sorted(set(x))
    mp = {v: (levels[0] if i < 2 else v) for i, v in enumerate(levels)}
    z = [mp[v] for v in x]
    w = ["abc"[rng.randrange(3)] for _ in range(n)]
    quali = [x, z, w]
    rng.shuffle(quali)
    yn = ynum(y)
    q = [v * 2 + rng.randint(0, 3) for v in yn]
    quanti = [q, [v ** 3 for v in q], [rng.randint(0, 9) for _ in range(n)]]
    rng.shuffle(quanti)
    kw = {} if rng.random() < 0.5 else {"thresh_corr": 1.0}
    return mk_case("classification", y, quanti, quali, rng.choice([2, 3, 6]), ["R"],
                   [rng.choice(["cramerv", "tschuprowt"])], [rng.choice(["spearman", "pearson"])],
                   [rng.choice(["cramerv", "cramerv", "tschuprowt"])], kw)


def _top(keys, k):
    """set of the k best indices for exact keys (None = undefined, ranked out); None if a tie
    makes the set ambiguous"""
    idx = [i for i, v in enumerate(keys) if v is not None]
    idx.sort(key=lambda i: -keys[i])
    vals = [keys[i] for i in idx]
    if len(set(vals)) != len(vals):
        return None
    return frozenset(idx[:k])


def gen_two_measure_case(rng):
    """two association measures for one dtype, BOTH computed (large threshold on the first one),
    whose rankings disagree inside the first n_best positions, n_best < number of candidates"""
    case = None
    for _ in range(80):
        n = rng.choice([20, 30, 45, 60])
        y = [i % 2 for i in range(n)]
        rng.shuffle(y)
        n_best = rng.choice([1, 1, 2])
        if rng.random() < 0.6:
            cols = []
            for _k in range(rng.choice([3, 4, 5])):
                how = rng.choice(["ranky", "liny", "liny", "noise"])
                if how == "ranky":  # rank-separated, a few huge outliers: high H, low R
                    c = [rng.randint(0, 4) + 5 * v for v in y]
                    for i in rng.sample(range(n), rng.choice([1, 2, 3])):
                        if y[i] == 0:
                            c[i] = rng.choice([100, 200, 400])
                elif how == "liny":  # shifted, overlapping: moderate H, moderate R
                    w = rng.choice([4, 6, 9])
                    c = [rng.randint(0, w) + rng.choice([2, 3, 4]) * v for v in y]
                else:
                    c = [rng.randint(0, 9) for _ in y]
                cols.append(c)
            first = rng.choice(["kruskal", "R"])
            qm = [first, "R" if first == "kruskal" else "kruskal"]
            kw = {THRESH_KW[first]: 1e9 if first == "kruskal" else 5.0}
            case = mk_case("classification", y, cols, [], n_best, qm, None, rng.choice([[], None]), None, kw)
            ka = [measure_exact("kruskal", c, y)["model"] for c in cols]
            kb = [measure_exact("R", c, y)["model"] for c in cols]
        else:
            cols = []
            ys = [str(v) for v in y]
            for _k in range(rng.choice([3, 4, 5])):
                extra = rng.choice([1, 1, 2, 3])  # 2, 4 or 6 modalities: V and T normalise differently
                flip = rng.choice([0.05, 0.15, 0.3, 0.4])
                c = [(v if rng.random() >= flip else rng.choice("01")) + "s%d" % rng.randrange(extra) for v in ys]
                cols.append(c)
            first = rng.choice(["cramerv", "tschuprowt"])
            lm = [first, "tschuprowt" if first == "cramerv" else "cramerv"]
            kw = {THRESH_KW[first]: 5.0}
            case = mk_case("classification", y, [], cols, n_best, None, lm, None, rng.choice([[], None]), kw)
            ka = [measure_exact("cramerv", c, y)["model"] for c in cols]
            kb = [measure_exact("tschuprowt", c, y)["model"] for c in cols]
        ka = [None if v in (None, "err") else v for v in ka]
        kb = [None if v in (None, "err") else v for v in kb]
        ta, tb = _top(ka, n_best), _top(kb, n_best)
        if ta is not None and tb is not None and ta != tb and len(cols) > n_best:
            return case
    return case


def gen_quali_filter_case(rng):
    """a qualitative candidate with at least two better-ranked kept features, too associated with
    one of them that is NOT the last one, and with a non-zero association below thresh_corr with
    the last one (every kept feature must be compared, not only the last / the worst so far)"""
    case = None
    for _ in range(120):
        n = rng.choice([45, 60, 90])
        u = [rng.randrange(3) for _ in range(n)]
        v = [rng.randrange(3) for _ in range(n)]
        y = [1 if rng.random() < 0.05 + 0.30 * a + 0.15 * b else 0 for a, b in zip(u, v)]
        if len(set(y)) < 2:
            continue
        cu = [a if rng.random() > 0.4 else rng.randrange(3) for a in u]
        w = [rng.randrange(3) for _ in range(n)]
        cols = [["u%d" % a for a in u], ["v%d" % a for a in v], ["c%d" % a for a in cu], ["w%d" % a for a in w]]
        kind = rng.choice(["tschuprowt", "tschuprowt", "cramerv"])
        thr = rng.choice([0.3, 0.35, 0.4, 0.5])
        fn = (lambda a, b: tschuprowt4_exact(a, b, True)) if kind == "tschuprowt" else (lambda a, b: cramerv2_exact(a, b, True))
        p = 4 if kind == "tschuprowt" else 2
        keys = [fn(c, y) for c in cols]
        if any(k in (None, "err") for k in keys) or len(set(keys)) != len(keys):
            continue
        order = sorted(range(4), key=lambda i: -keys[i])
        tk = Fr(thr) ** p
        kept, hit = [], False
        for i in order:
            a = [fn(cols[i], cols[g]) for g in kept]
            a = [Fr(0) if x in (None, "err") else x for x in a]
            if any(x > tk for x in a):
                if len(kept) >= 2 and a[-1] != 0 and a[-1] <= tk and any(x > tk for x in a[:-1]):
                    hit = True
                continue
            kept.append(i)
        perm = list(range(4))
        rng.shuffle(perm)
        case = mk_case("classification", y, [], [cols[i] for i in perm], rng.choice([3, 4]), None, [kind],
                       None, [kind], {"thresh_corr": thr})
        if hit:
            return case
    return case


def gen_iqr_case(rng):
    """user-supplied outlier screening before the association measure:
    quantitative_measures=[iqr_measure, kruskal_measure | R_measure] with thresh_iqr < 1, on a
    discrete feature with gaps at the quartile positions such that the screening decision depends
    on the quantile interpolation rule (linear / lower / higher), for x or for -x.
    The sensitive feature is the first quantitative one."""
    case = None
    for _ in range(400):
        n = rng.choice([19, 22, 26, 30, 38, 40, 47, 55])
        body = [rng.choice([0, 1, 2, 3, 3, 4, 4, 5, 5, 5]) for _ in range(n - rng.choice([2, 3, 4, 5]))]
        tail = [rng.choice([7, 8, 9, 10, 12]) for _ in range(n - len(body))]
        f = body + tail
        drop = rng.choice([None, 1, 2, 4, 6])
        f = [v + 1 if drop is not None and v >= drop else v for v in f]  # a gap in the support
        rng.shuffle(f)
        med = sorted(f)[n // 2]
        y = [1 if (v >= med) != (rng.random() < 0.15) else 0 for v in f]
        if len(set(y)) < 2:
            continue
        thr = rng.choice([1 / 32, 1 / 16, 1 / 8, 1 / 4])
        dec = {meth: iqr_exact(f, meth) < Fr(thr) for meth in ("linear", "lower", "higher")}
        g = [v + rng.randint(0, 3) for v in y]
        h = [rng.randint(0, 6) for _ in y]
        second = rng.choice(["kruskal", "kruskal", "R"])
        if rng.random() < 0.5:
            f = [float(v) for v in f]
        case = mk_case("classification", y, [f, g, h], [], rng.choice([1, 2, 3]), ["iqr", second], None,
                       rng.choice([None, []]), None, {"thresh_iqr": thr})
        if dec["lower"] != dec["higher"]:  # the rule matters (and lower(-x) mirrors higher(x))
            return case
    return case


def mk_case(task, y, quanti, quali, n_best, qm, lm, qf, lf, kw, qnames=None, lnames=None):
    qnames = qnames or ["q%d" % i for i in range(len(quanti))]
    lnames = lnames or ["s%d" % i for i in range(len(quali))]
    return {"task": task, "n": len(y), "y": encs(y),
            "quanti": [[nm, encs(c)] for nm, c in zip(qnames, quanti)],
            "quali": [[nm, encs(c)] for nm, c in zip(lnames, quali)],
            "n_best": int(n_best), "qm": qm, "lm": lm, "qf": qf, "lf": lf,
            "kw": {k: float(v).hex() for k, v in kw.items()}}


# ------------------------------------------------------------------------------------------------
# Coq literals
# ------------------------------------------------------------------------------------------------
def coq_type(t, sel):
    """one `tcase` literal: features are numbered by position in t['names']"""
    names = t["names"]
    idx = {f: i for i, f in enumerate(names)}
    ms = t["ms"]
    nm = len(ms)
    # common denominators per measure column (model keys + model threshold; spec + spec threshold)
    dm, ds = [], []
    for j in range(nm):
        vals = [r["raw"][j]["key"] for r in t["rows"] if r["raw"][j]["key"] not in (None, "err")] + [t["mthr"][j]]
        dm.append(lcm_den(vals))
        vals = [r["spec"][j] for r in t["rows"] if r["spec"][j] is not None] + [t["sthr"][j]]
        ds.append(lcm_den(vals))
    mspecs = []
    for j, k in enumerate(ms):
        mspecs.append(f"mkM {C.cbool(RANKING[k])} {C.cbool(FALSY_NAN[k])} {C.cbool(k in GATES)} "
                      f"{C.cZ(t['mthr'][j] * dm[j])} {C.cZ(t['sthr'][j] * ds[j])}")
    rows = []
    for r in t["rows"]:
        raws, specs = [], []
        for j in range(nm):
            raw = r["raw"][j]
            key = raw["key"]
            if key == "err":
                raws.append("mkRaw true false false 0")
            elif key is None:
                raws.append("mkRaw false true false 0")
            else:
                raws.append(f"mkRaw false false {C.cbool(raw['zero_nan'])} {C.cZ(key * dm[j])}")
            s = r["spec"][j]
            specs.append("None" if s is None else f"(Some {C.cZ(s * ds[j])})")
        rows.append(f"mkFeat {idx[r['name']]}%nat {C.cZ(r['cnt_nan'])} {C.cZ(r['cnt_mode'])} "
                    f"{C.clist(raws)} {C.clist(specs)}")
    fils = []
    for flt in t["filters"]:
        d = lcm_den(list(flt["mat"].values()) + [flt["thresh"]])
        mat = []
        for f in names:
            mat.append(C.clist([("(0, false)" if f == g else
                                 f"({C.cZ(flt['mat'][(f, g)] * d)}, {C.cbool(flt['gt'][(f, g)])})")
                                for g in names]))
        fils.append(f"mkFilter {C.cZ(flt['thresh'] * d)} {C.clist(mat)}")
    tn, tm = t["tnan"], t["tmode"]
    out = C.clist([f"{idx[f]}%nat" for f in sel if f in idx])
    return (f"mkT (mkTin {C.cZ(t['n'])} ({C.cZ(tn.numerator)}, {C.cZ(tn.denominator)}) "
            f"({C.cZ(tm.numerator)}, {C.cZ(tm.denominator)}) {max(0, int(t['n_best']))}%nat "
            f"{C.clist(mspecs)} {C.clist(rows)} {C.clist(fils)}) {out} {C.cbool(bool(t['fragile']))} {coq_cs(t, idx)}")


def coq_cs(t, idx):
    cs = t.get("cs")
    if cs is None:
        return "None"
    ids = lambda l: C.clist([f"{idx[f]}%nat" for f in l if f in idx])  # noqa: E731
    return (f"(Some (mkCs {ids(cs['shuffled'])} {int(cs['chunks'])}%nat {int(cs['k'])}%nat "
            f"{C.clist([ids(s) for s in cs['observed']])}))")


def coq_case(case, out, tabs):
    nf = len(case["quanti"]) + len(case["quali"])
    sel = out["sel"] if out["sel"] is not None else []
    known = {f for t in tabs.values() for f in t["names"]}
    extra = [f for f in sel if f not in known]
    ts = [coq_type(tabs[d], sel) for d in ("float", "str") if d in tabs]
    err = {"assert": "IAssert", "internal": "IInternal", None: "IOk"}[out["err"]]
    # order of the types inside the returned list must be float then str
    pos = [("float" if f in (tabs.get("float") or {"names": []})["names"] else "str") for f in sel if f in known]
    typed_order = all(not (a == "str" and b == "float") for a, b in zip(pos, pos[1:]))
    return (f"mkCase {C.cZ(case['n_best'])} {C.cZ(nf)} {C.clist(ts)} {err} "
            f"{C.cbool(len(extra) == 0 and typed_order and len(set(sel)) == len(sel))} "
            f"{C.cbool(bool(out['unchanged']))}")


# ------------------------------------------------------------------------------------------------
class C14(Prop):
    pid = "C14"
    theorems = ["C14_select_distinct_inputs", "C14_sorted_by_decreasing_measure",
                "C14_at_most_n_best_per_measure", "C14_greedy_independent", "C14_greedy_maximal",
                "C14_best_feature_returned", "C14_union_independent_refuted", "C14_checker_sound"]
    rule = ("one ClassificationSelector/RegressionSelector.select(X, y) per case: 4-60 rows (12% tiny frames of 4-11 rows + a dozen directed cases with as many rows as columns of the association table), up to 7 "
            "quantitative and 5 qualitative features built as correlated clusters (copies, affine / "
            "monotone / noisy / coarsened versions, renamed categories), target-informative columns, "
            "constant and all-NaN columns, NaN shares 5-90%; binary / multiclass / continuous targets; "
            "n_best 1..len+1 (and invalid), thresh_corr in {default,1,.9,.7,.6,.5,.3,0}, thresh_nan / "
            "thresh_mode, measure lists (kruskal, R, distance, chi2, cramerv, tschuprowt and pairs of "
            "them with thresholds), filter lists (spearman, pearson, cramerv, tschuprowt, pairs, none). "
            "Boundary-directed streams: associations exactly at thresh_corr; two association measures both "
            "computed whose rankings disagree inside the first n_best; a qualitative candidate too associated "
            "with a kept feature that is not the last better-ranked one; iqr_measure screening "
            "([iqr_measure, kruskal|R], thresh_iqr < 1) on discrete features whose decision depends on the "
            "quantile interpolation rule. A case is non-trivial when at least one feature is returned or left out for a recorded "
            "reason; distinct = distinct (task, measures, filters, per-type drop reasons, #returned)")
    assumptions = ["colsample < 1: the shuffled feature order (random.shuffle) is an oracle read back from the real "
                   "run; order, distinctness, count and pairwise independence of the final list are required, "
                   "maximality is not (n_best // 2 features are pre-selected per sample)",
                   "numeric data are integers or dyadic rationals (every exact value is a Fraction); "
                   "measure values are recomputed exactly and compared with the implementation's "
                   "floats within 1e-9; exact ties of a measure are accepted in any order",
                   "float-level oracles passed to the model: whether a value that is exactly 0 is "
                   "reported as NaN by the `if value:` test, and whether an association exactly equal "
                   "to thresh_corr is reported above it by pandas/scipy",
                   "qualitative features of a RegressionSelector carry no NaN (x.unique() then contains "
                   "NaN and scipy.kruskal gets an empty group)",
                   "thresh_nan, thresh_mode <= 1 and thresh_corr >= 0"]
    trusted_extra = ["exact recomputation of the measures in harness/props/c14.py (fractions.Fraction); "
                     "pandas DataFrame.corr / scipy chi2_contingency / kruskal / statsmodels OLS are compared "
                     "numerically (1e-9) with it on every case, not modelled"]

    def corpus(self):
        cs = []
        # minimised failing cases kept from earlier runs (corpus/findings/O41_c14_*.json), run first
        import glob
        import json
        import os
        for p in sorted(glob.glob(os.path.join(C.VERIF, "corpus", "findings", "O41_c14_*.json"))):
            cs.append(json.load(open(p))["case"])
        # O11: exact copy of the target / negated / monotone, RegressionSelector defaults
        y = [0.0, 1.0, 2.0, 3.0, 4.0, 5.0, 6.0, 7.0, 8.0, 9.0]
        cs.append(mk_case("regression", y, [list(y), [-v for v in y], [v ** 3 for v in y],
                                            [3.0, 1.0, 4.0, 1.0, 5.0, 9.0, 2.0, 6.0, 5.0, 3.0]], [], 4,
                          None, None, None, None, {}))
        # O12: second measure never computed / chi2 only
        yb = [0, 0, 0, 0, 0, 0, 1, 1, 1, 1, 1, 1]
        q0 = [0, 0, 0, 1, 1, 5, 4, 6, 6, 7, 7, 30]
        q1 = [1, 2, 3, 4, 5, 6, 7, 8, 9, 10, 11, 0]
        cs.append(mk_case("classification", yb, [q0, q1, [5, 1, 4, 2, 3, 3, 2, 4, 1, 5, 0, 6]], [], 1,
                          ["kruskal", "R"], None, None, None, {}))
        s0 = ["a", "a", "a", "a", "a", "b", "b", "b", "b", "b", "b", "a"]
        s1 = ["u", "v", "u", "v", "u", "v", "u", "v", "u", "v", "u", "v"]
        cs.append(mk_case("classification", yb, [], [s0, s1], 2, None, ["chi2", "cramerv"], None, None, {}))
        return cs

    def generate(self, rng, tier):
        n = 300 if tier == "quick" else 4000
        nb = 30 if tier == "quick" else 300
        ns = 20 if tier == "quick" else 200
        return ([add_second_call(rng, gen_case(rng)) if i % 6 == 0 else gen_case(rng) for i in range(n)]
                + [gen_boundary_case(rng) for _ in range(nb)]
                + [gen_two_measure_case(rng) for _ in range(ns)]
                + [gen_quali_filter_case(rng) for _ in range(ns)]
                + [gen_iqr_case(rng) for _ in range(ns)]
                + [gen_tiny_case(rng) for _ in range(12 if tier == "quick" else 120)]
                + [gen_inf_case(rng) for _ in range(12 if tier == "quick" else 120)]
                + [gen_colsample_case(rng) for _ in range(24 if tier == "quick" else 240)])

    def search_cases(self, rng, neighbours, rnd):
        return ([add_second_call(rng, gen_case(rng)) if i % 4 == 0 else gen_case(rng) for i in range(60)]
                + [gen_two_measure_case(rng) for _ in range(10)])

    # ---- implementation ---------------------------------------------------------------------
    def run_impl(self, case):
        return run_selector(case)

    # ---- predicate ------------------------------------------------------------------------------
    def analyse(self, case, out):
        """first call, and (cases with `again`) the second call on the same selector object"""
        tabs, fails = self.analyse_one(case, out)
        o2 = out.get("again") if isinstance(out, dict) else None
        if o2 is not None:
            c2 = second_case(case)
            tabs2, fails2 = self.analyse_one(c2, o2)
            fails = fails + [(tag, d, "second select() on the same object: " + m) for tag, d, m in fails2]
            same = (o2["sel"], o2["err"]) == (o2.get("fresh_sel"), o2.get("fresh_err"))
            if not same and not ties_present(tabs2) and not any(t["fragile"] for t in tabs2.values()):
                fails.insert(0, ("state", "-", f"the second select() on the same selector object returns "
                                             f"{o2['err'] or o2['sel']}, a fresh selector on the same input "
                                             f"returns {o2.get('fresh_err') or o2.get('fresh_sel')}"))
        return tabs, fails

    def analyse_one(self, case, out):
        tabs = build_tables(case, out)
        fails = []
        if not out["unchanged"]:
            fails.append(("modified", "-", "X or y was modified by select()"))
        if out["err"] == "internal":
            fails.append(("error", "-", f"select() raised {out.get('err_msg')}"))
        elif out["err"] == "assert":
            nf = len(case["quanti"]) + len(case["quali"])
            if 0 < case["n_best"] <= nf + 1:
                fails.append(("error", "-", "AssertionError on a valid configuration"))
        else:
            fails += spec_failures(case, tabs, out["sel"])
        for m in table_mismatch(case, tabs, out)[:3]:
            fails.append(("table", "-", m))
        return tabs, fails

    def oracle(self, case, out):
        _, fails = self.analyse(case, out)
        if not fails:
            return True, ""
        return False, " || ".join(f"[{tag}:{d}] {m}" for tag, d, m in fails[:6])

    def classify(self, case, out):
        """failure -> signature of a known root cause, or None"""
        res = self.classify_one(case, out)
        o2 = out.get("again") if isinstance(out, dict) else None
        if o2 is not None:
            res = res + self.classify_one(second_case(case), o2)
            if any(tag == "state" for tag, _, _ in self.analyse(case, out)[1]):
                res.append(None)  # state kept between two select() calls: never a known finding
        return res

    def classify_one(self, case, out):
        tabs, fails = self.analyse_one(case, out)
        res = []
        for tag, d, m in fails:
            sig = None
            ms = tabs[d]["ms"] if d in tabs else []
            if tag == "error" and out["err"] == "internal":
                msg = out.get("err_msg") or ""
                if "PearsonRResult" in msg or "SignificanceResult" in msg:
                    sig = "pearson_spearman_measure_compares_result_object"
                elif "UnboundLocalError" in msg and any(
                        sum(1 for k in t["ms"] if k in ("chi2", "cramerv", "tschuprowt")) >= 2 for t in tabs.values()):
                    sig = "second_chi2_based_measure_unboundlocal"
                elif any(len(t["filters"]) >= 2 for t in tabs.values()):
                    sig = "second_filter_on_empty_ranking_crashes"
            elif tag in ("sorted", "maximal", "count") and d in tabs and any(
                    abs(r["raw"][-1]["key"]) == BIG and r["name"] in (out["sel"] or []) for r in tabs[d]["rows"]
                    if r["raw"] and r["raw"][-1]["key"] not in (None, "err")):
                # the +-inf feature is returned (first): sortedness fails and it takes an n_best slot
                sig = "degenerate_kruskal_inf_is_ranked"
            elif tag in ("sorted", "maximal", "count"):
                if case["task"] == "regression" and d == "float" and [k for k in ms if k not in GATES] == ["distance"]:
                    sig = "regression_default_distance_measure_sign"
                elif ms == ["chi2"] or (len([k for k in ms if k not in GATES]) >= 2 and early_stop(tabs[d])):
                    sig = "second_measure_never_computed"
                elif ms == ["rkruskal"] and any(isnan(v) for _, c in case["quali"] for v in decs(c)):
                    sig = "regression_qualitative_nan_group"
                elif (d == "str" and tag in ("sorted", "maximal") and ms[-1] in ("cramerv", "tschuprowt")
                      and any(r["raw"][-1]["key"] != r["spec"][-1] for r in tabs[d]["rows"])):
                    sig = "chi2_modalities_counted_on_incomplete_rows"
            if sig is None and tag == "maximal" and d in tabs and len(tabs[d]["filters"]) >= 2:
                sig = "chained_filters_dropped_by_unreturned_feature"
            elif tag == "independent" and len([k for k in ms if RANKING[k]]) >= 2:
                sig = "multi_measure_union_correlated_pair"
            elif tag == "table" and "modalities counted on the whole columns" in m:
                sig = "chi2_modalities_counted_on_incomplete_rows"
            if (sig is None and tag in ("maximal", "sorted", "count") and d in tabs
                    and table_columns(tabs[d]) == tabs[d]["n"]
                    and not any(f in tabs[d]["names"] for f in (out["sel"] or []))):
                # O41 (fixed by /repo 0e1ef11): as many rows as columns of the association table
                sig = "rows_equal_measure_columns_selects_nothing"
            res.append(sig)
        return res

    def finding_signatures(self, case, out, msg):
        sigs = self.classify(case, out)
        if not sigs or any(s is None for s in sigs):
            return []
        return sorted(set(sigs))

    # ---- Coq side ---------------------------------------------------------------------------
    @staticmethod
    def coq_calls(c, o):
        """the select() calls of a case, in order (one, or two on the same object)"""
        calls = [coq_case(c, o, build_tables(c, o))]
        if isinstance(o, dict) and o.get("again") is not None:
            c2 = second_case(c)
            calls.append(coq_case(c2, o["again"], build_tables(c2, o["again"])))
        return C.clist(calls)

    def coq_shards(self, cases, outs):
        shards = []
        for part in chunks(list(zip(cases, outs)), 40):
            body = ";\n  ".join(self.coq_calls(c, o) for c, o in part)
            shards.append("From AC.Model Require Import Base Selector CheckC14.\n"
                          f"Definition cases : list (list c14case) := [\n  {body}\n].\n"
                          "Eval vm_compute in map verdict_seq cases.\n")
        return shards

    # ---- evidence ---------------------------------------------------------------------------
    def signature(self, case, out):
        if out.get("err"):
            return f"{case['task']}|err:{out['err']}"
        tabs = build_tables(case, out)
        parts = [case["task"]]
        for d, t in tabs.items():
            n_out = sum(1 for f in out["sel"] if f in t["names"])
            reasons = set()
            for r in t["rows"]:
                if r["name"] in out["sel"]:
                    continue
                if not Fr(r["cnt_nan"], t["n"]) < t["tnan"]:
                    reasons.add("nan")
                elif not Fr(r["cnt_mode"], t["n"]) < t["tmode"]:
                    reasons.add("mode")
                elif any(s is None for s in r["spec"]):
                    reasons.add("undef")
                else:
                    reasons.add("rank")
            parts.append(f"{d}:{'+'.join(t['ms'])}/{'+'.join(t['fs'])}/{n_out}/{''.join(sorted(reasons))}")
        return "|".join(parts)

    def shrink(self, case, out, msg):
        """drop features, then rows, while the same kind of failure remains"""
        def tags(c, o):
            _, f = self.analyse(c, o)
            return {t for t, _, _ in f}

        want = tags(case, out)
        if not want:
            return case, out, msg
        best = (case, out, msg)

        def still(c):
            o = C._worker((self.run_impl, c))
            if isinstance(o, dict) and "harness_error" in o:
                return None
            t = tags(c, o)
            if t and t & want:
                ok, m = self.oracle(c, o)
                return (c, o, m)
            return None

        changed = True
        rounds = 0
        while changed and rounds < 40:
            changed = False
            rounds += 1
            c = best[0]
            for key in ("quanti", "quali"):
                for i in range(len(c[key])):
                    if len(c["quanti"]) + len(c["quali"]) <= 1:
                        break
                    cand = dict(c)
                    cand[key] = c[key][:i] + c[key][i + 1:]
                    if c.get("again") is not None and key in c["again"]:
                        cand["again"] = dict(c["again"])
                        cand["again"][key] = c["again"][key][:i] + c["again"][key][i + 1:]
                    nf = len(cand["quanti"]) + len(cand["quali"])
                    cand["n_best"] = min(c["n_best"], nf + 1)
                    r = still(cand)
                    if r:
                        best, changed = r, True
                        break
                if changed:
                    break
            if changed:
                continue
            n = c["n"]
            for size in (n // 2, n // 4, 2, 1):
                if size < 1 or n - size < 4:
                    continue
                for start in range(0, n, size):
                    keep = [i for i in range(n) if not start <= i < start + size]
                    cand = dict(c)
                    cand["n"] = len(keep)
                    cand["y"] = [c["y"][i] for i in keep]
                    cand["quanti"] = [[nm, [col[i] for i in keep]] for nm, col in c["quanti"]]
                    cand["quali"] = [[nm, [col[i] for i in keep]] for nm, col in c["quali"]]
                    if c.get("again") is not None:
                        ag = dict(c["again"])
                        ag["y"] = [ag["y"][i] for i in keep]
                        for key in ("quanti", "quali"):
                            if key in ag:
                                ag[key] = [[nm, [col[i] for i in keep]] for nm, col in ag[key]]
                        if len({str(v) for v in ag["y"]}) < 2:
                            continue
                        cand["again"] = ag
                    if len({str(v) for v in cand["y"]}) < 2:
                        continue
                    r = still(cand)
                    if r:
                        best, changed = r, True
                        break
                if changed:
                    break
        return best

    def distribution(self, cases, outs):
        d = {"tasks": {}, "rows": {}, "n_quanti": {}, "n_quali": {}, "errors": {}, "returned": {},
             "with_nan": 0, "multi_measure": 0}
        for c, o in zip(cases, outs):
            d["tasks"][c["task"]] = d["tasks"].get(c["task"], 0) + 1
            d["rows"][c["n"]] = d["rows"].get(c["n"], 0) + 1
            d["n_quanti"][len(c["quanti"])] = d["n_quanti"].get(len(c["quanti"]), 0) + 1
            d["n_quali"][len(c["quali"])] = d["n_quali"].get(len(c["quali"]), 0) + 1
            if any(t == ["nan"] for _, col in c["quanti"] + c["quali"] for t in col):
                d["with_nan"] += 1
            if (c["qm"] and len(c["qm"]) > 1) or (c["lm"] and len(c["lm"]) > 1):
                d["multi_measure"] += 1
            if isinstance(o, dict) and "sel" in o:
                e = o.get("err") or "ok"
                d["errors"][e] = d["errors"].get(e, 0) + 1
                if o["sel"] is not None:
                    d["returned"][len(o["sel"])] = d["returned"].get(len(o["sel"]), 0) + 1
        return d


PROP = C14()
