"""C09 — Base discretization honours min_freq and keeps its granularity.

One case = one feature fitted by one class:
  cont  ContinuousDiscretizer                      (quantile boundaries)
  quant QuantitativeDiscretizer | Discretizer      (boundaries + rare-bucket pass, min_freq/2)
  ord   QualitativeDiscretizer | Discretizer       (ordinal ranking, merging loop, min_freq)
  cat   QualitativeDiscretizer | Discretizer       (default group, target-rate order)
Observable: values_orders[f] (list + content); transform(X_train)[f].value_counts() for the
python-side oracle (the property statement checked by plain counting)."""
import math
import re

import common as C
from props.base import NAN, Prop, chunks, dec, enc

STR_NAN = "__NAN__"
STR_DEFAULT = "__OTHER__"
O1_WITNESS = [7, 3, 3, 4, 6, 6, 7, 7]
MIN_FREQS = [0.5, 0.4, 0.3, 0.25, 0.2, 0.15, 0.125, 0.1, 0.07, 0.05, 1 / 3, 1 / 7, 0.35, 0.45, 0.06,
             0.15, 0.1, 0.07, 0.05, 0.04, 0.03, 0.02, 0.11, 0.09]
LETTERS = list("abcdefghijklmnopqrstuvwxyz")


def sig4(x):
    """rounds to 4 significant digits so that distinct boundaries get distinct `.3e` labels
    (label collisions are observation O2, a different property)"""
    return float(f"{x:.3e}")


def is_nan(x):
    return isinstance(x, float) and x != x


# ---- generators -------------------------------------------------------------------------------
def gen_target(rng, xs_rank, binary):
    """binary or integer-valued target, loosely dependent on the rank of x (xs_rank in [0,1])"""
    ys = []
    for r in xs_rank:
        p = 0.15 + 0.6 * r if r is not None else 0.4
        if binary:
            ys.append(1 if rng.random() < p else 0)
        else:
            ys.append(int(round(rng.gauss(10 * p, 3))))
    if binary and len(set(ys)) < 2:
        ys[0] = 1 - ys[0]
    return ys


def gen_numeric_column(rng, n, shape, q):
    if shape == "continuous":
        vals = set()
        while len(vals) < n:
            vals.add(sig4(rng.uniform(-5, 50)) if rng.random() < 0.7 else float(rng.randint(-999, 9999)))
        xs = list(vals)
    elif shape == "discrete":
        k = rng.randint(2, 40)
        pool = rng.sample(range(-20, 200), k)
        w = [rng.random() ** rng.choice([1, 2, 4]) + 0.01 for _ in pool]
        xs = [float(v) for v in rng.choices(pool, weights=w, k=n)]
    elif shape == "spiked":
        spikes = [float(v) for v in rng.sample(range(0, 30), rng.randint(1, 3))]
        share = rng.uniform(0.2, 0.8)
        xs = []
        for _ in range(n):
            if rng.random() < share:
                xs.append(rng.choice(spikes))
            else:
                xs.append(sig4(rng.uniform(0, 30)) if rng.random() < 0.6 else float(rng.randint(0, 30)))
    elif shape == "tied":
        # counts close to the over-representation threshold n/q (just below, at, just above)
        t = n / q
        xs, v = [], 0
        while len(xs) < n:
            c = max(1, int(rng.choice([math.floor(t) - 1, math.floor(t), math.ceil(t), math.ceil(t * 0.9),
                                       math.floor(t * 0.875), math.ceil(t / 2), math.floor(t / 2), 1, 2])))
            xs += [float(v)] * c
            v += rng.choice([1, 1, 2, 5])
        xs = xs[:n]
    else:  # o1like: many values with count in [0.875, 1) * n/q
        t = n / q
        xs, v = [], 0
        while len(xs) < n:
            lo, hi = math.ceil(0.875 * t), max(math.ceil(0.875 * t), math.ceil(t) - 1)
            c = rng.randint(min(lo, hi), hi) if rng.random() < 0.7 else rng.randint(1, max(1, math.ceil(t)))
            xs += [float(v)] * max(1, c)
            v += 1
        xs = xs[:n]
    rng.shuffle(xs)
    return xs


def gen_case(rng, kind, tier):
    n = rng.choice([30, 40, 43, 50, 64, 77, 100, 128, 150, 200, 256, 300, 400, 500, 600]) \
        if rng.random() < 0.7 else rng.randint(30, 600)
    if rng.random() < 0.75:
        mf = rng.choice(MIN_FREQS)
    else:
        mf = round(rng.uniform(0.03, 0.5), rng.choice([2, 3]))
    if n < 100:
        mf = max(mf, 0.05)
    q = round(1 / mf)
    binary = rng.random() < 0.6
    nan_share = rng.choice([0, 0, 0, 0.02, 0.1, 0.3])
    case = {"kind": kind, "min_freq": float(mf).hex(), "binary": binary}
    if kind in ("cont", "quant"):
        shape = rng.choice(["continuous", "discrete", "discrete", "spiked", "tied", "tied", "o1like"])
        xs = gen_numeric_column(rng, n, shape, q)
        lo, hi = min(xs), max(xs)
        rank = [(x - lo) / (hi - lo) if hi > lo else 0.5 for x in xs]
        xs = [NAN if rng.random() < nan_share else x for x in xs]
        if all(is_nan(x) for x in xs):
            xs[0] = 1.0
        rank = [None if is_nan(x) else r for x, r in zip(xs, rank)]
        case.update({"cls": "ContinuousDiscretizer" if kind == "cont"
                     else rng.choice(["QuantitativeDiscretizer", "Discretizer"]),
                     "shape": shape, "x": [enc(x) for x in xs], "y": gen_target(rng, rank, binary),
                     "order": None})
    else:
        k = rng.randint(2, max(2, min(12, int(1.6 / mf))))
        vals = rng.sample(LETTERS, k)
        if rng.random() < 0.3:
            vals = [v * rng.randint(1, 3) for v in vals]
        thr = mf * n
        shape = rng.choice(["weights", "threshold", "threshold", "uniform"])
        if shape == "threshold":
            # counts exactly at / one below / one above min_freq * n, rest on a frequent value
            counts = [max(1, int(rng.choice([math.ceil(thr), math.ceil(thr) - 1, math.floor(thr),
                                             math.floor(thr) + 1, 1, math.ceil(thr / 2)])))
                      for _ in vals]
            xs = [v for v, c in zip(vals, counts) for _ in range(c)]
            while len(xs) < n:
                xs.append(vals[0])
            xs = xs[:n]
        elif shape == "uniform":
            xs = [rng.choice(vals) for _ in range(n)]
        else:
            w = [rng.random() ** rng.choice([1, 3, 6]) + 0.005 for _ in vals]
            xs = rng.choices(vals, weights=w, k=n)
        rng.shuffle(xs)
        score = {v: rng.random() for v in vals}
        if rng.random() < 0.25:  # exactly tied target rates are likely
            score = {v: rng.choice([0.2, 0.8]) for v in vals}
        xs = [NAN if rng.random() < nan_share else x for x in xs]
        if all(is_nan(x) for x in xs):
            xs[0] = vals[0]
        rank = [None if is_nan(x) else score[x] for x in xs]
        order = None
        if kind == "ord":
            order = list(vals)
            rng.shuffle(order)
            for _ in range(rng.choice([0, 0, 1, 2])):  # never-observed values of the ranking
                order.insert(rng.randint(0, len(order)), "zz" + rng.choice(LETTERS))
            order = list(dict.fromkeys(order))
        elif rng.random() < 0.3:
            order = list(vals)
            rng.shuffle(order)
            if rng.random() < 0.5:
                order.insert(rng.randint(0, len(order)), "zz" + rng.choice(LETTERS))
            order = list(dict.fromkeys(order))
        case.update({"cls": rng.choice(["QualitativeDiscretizer", "Discretizer"]), "shape": shape,
                     "x": [enc(x) for x in xs], "y": gen_target(rng, rank, binary),
                     "order": None if order is None else [enc(v) for v in order]})
    case["extra"] = case["cls"] == "Discretizer" and rng.random() < 0.4
    return case


def counts_case(rng):
    """4-8 discrete values whose counts mix very rare and over-represented ones: chains of rare-bucket merges in
    both directions (a backward merge followed by a forward one puts the largest boundary in the middle)"""
    k = rng.randint(4, 8)
    counts = [rng.choice([2, 3, 5, 8, 12, 15, 20, 30, 60, 100, 150]) for _ in range(k)]
    xs = [float(v) for v, c in enumerate(counts) for _ in range(c)]
    rng.shuffle(xs)
    lo_, hi_ = min(xs), max(xs)
    rank = [(x - lo_) / (hi_ - lo_) if hi_ > lo_ else 0.5 for x in xs]
    binary = rng.random() < 0.6
    return {"kind": "quant", "cls": rng.choice(["QuantitativeDiscretizer", "Discretizer"]),
            "min_freq": float(rng.choice([0.05, 0.1, 0.15, 0.2])).hex(), "binary": binary, "shape": "mixed_counts",
            "x": [enc(x) for x in xs], "y": gen_target(rng, rank, binary), "order": None, "extra": False}


def band_case(rng):
    """a leftover bucket whose share lies between 1/(2q) and min_freq/2, q = round(1/min_freq) > 1/min_freq:
    rare by the property's threshold (min_freq/2) but not in the unit the quantile search uses"""
    mf = rng.choice([0.15, 0.28, 0.22, 0.35, 0.06, 0.13, 0.18, 0.29])
    q = round(1 / mf)
    n = rng.choice([200, 400, 600, 1000])
    lo, hi = math.ceil(n / (2 * q)), math.ceil(n * mf / 2) - 1
    a = rng.randint(lo, hi) if hi >= lo else max(1, hi)
    rest = n - a
    k = max(1, min(q, int(rest // math.ceil(n / q))))
    base = [rest // k] * k
    base[0] += rest - sum(base)
    pos = rng.randrange(k + 1)
    counts = base[:pos] + [a] + base[pos:]
    xs = [float(v * 3 + 1) for v, c in enumerate(counts) for _ in range(c)]
    rng.shuffle(xs)
    lo_, hi_ = min(xs), max(xs)
    rank = [(x - lo_) / (hi_ - lo_) for x in xs]
    binary = rng.random() < 0.6
    return {"kind": "quant", "cls": rng.choice(["QuantitativeDiscretizer", "Discretizer"]),
            "min_freq": float(mf).hex(), "binary": binary, "shape": "band", "x": [enc(x) for x in xs],
            "y": gen_target(rng, rank, binary), "order": None, "extra": False}


def o1_case(cls="ContinuousDiscretizer"):
    xs = [float(v) for v, c in enumerate(O1_WITNESS) for _ in range(c)]
    return {"kind": "cont" if cls == "ContinuousDiscretizer" else "quant", "cls": cls,
            "min_freq": float(1 / 7).hex(), "binary": True, "shape": "o1-witness",
            "x": [enc(x) for x in xs], "y": [i % 2 for i in range(len(xs))], "order": None,
            "extra": False}


# ---- aggregates shared by oracle and Coq emission ----------------------------------------------
def column(case):
    return [dec(t) for t in case["x"]]


def aggregate(case):
    """[(value, count, sum_y)] in first-appearance order, nan_cnt, n"""
    agg, nan_cnt = {}, 0
    for x, y in zip(column(case), case["y"]):
        if is_nan(x):
            nan_cnt += 1
            continue
        c, s = agg.get(x, (0, 0))
        agg[x] = (c + 1, s + y)
    return [(v, c, s) for v, (c, s) in agg.items()], nan_cnt, len(case["x"])


class C09(Prop):
    pid = "C09"
    theorems = ["C09_ordinal_buckets_frequent", "C09_quantitative_buckets_frequent",
                "C09_merging_conserves_and_is_contiguous", "C09_merges_only_neighbours",
                "C09_ordinal_fit_is_the_loop", "C09_merging_terminates",
                "C09_rare_pass_trigger_irrelevant", "C09_categorical_default_group",
                "C09_categorical_nan_separate", "C09_boundaries", "C09_boundaries_then_inf",
                "C09_boundaries_strict_refuted", "C09_boundaries_strict_partial",
                "C09_boundaries_strict_after_repair", "C09_quantile_recursion_depth", "C09_checker_sound",
                "C09_quantitative_fit_never_fails_internally", "C09_quantitative_fit_buckets_frequent",
                "C09_quantitative_checker_predicate_holds_on_model",
                "C09_quantile_bucket_bound_in_leaf", "C09_quantile_bucket_bound",
                "C09_quantile_bucket_bound_2_5", "C09_quantile_bucket_bound_min_freq_refuted",
                "C09_quantile_bucket_bound_min_freq_partial",
                "C09_quantile_float_premises", "C09_quantile_bucket_bound_binary64",
                "C09_quantile_bucket_bound_2_5_binary64",
                "C09_quantile_bucket_bound_min_freq_partial_binary64",
                "C09_quantile_bucket_bound_never_fails"]
    rule = ("one feature fitted by ContinuousDiscretizer / QuantitativeDiscretizer / "
            "QualitativeDiscretizer (ordinal or categorical) / Discretizer on 30-600 rows: numeric "
            "columns continuous, discrete, spiked, tied around the over-representation threshold "
            "n/q, O1-like (counts in [0.875,1)*n/q), 0-30% NaN; min_freq from a pool incl. values "
            "where 1/min_freq rounds (0.15, 0.3, 0.4, 0.07, 0.35, 0.45) or random in [0.03,0.5]; "
            "ordinal rankings with never-observed values; categorical counts exactly at / one off "
            "min_freq*n; exactly tied target rates; binary and integer-valued targets. A case is "
            "non-trivial when the fitted order differs from the raw value list (a quantile was cut, "
            "a bucket merged, a value sent to the default group) or the feature was dropped/refused; "
            "distinct = distinct (kind, class, q, #leaders, #grouped members, NaN?, outcome, "
            "over-represented?, rare pass?) signature")
    assumptions = [
        "numeric training values have at most 4 significant digits (distinct boundaries get distinct "
        "'.3e' labels; label collisions are observation O2 and belong to C04); cases where labels "
        "collide anyway are skipped and counted",
        "qualitative values are non-empty ASCII strings (no StringDiscretizer conversion, no falsy value)",
        "targets are binary or integer-valued (sums exact, one rounded division per rate)",
        "the comparison of content is per leader as a set (member order inside a group is not part "
        "of the property); categorical leader order is compared modulo exactly tied training rates",
        "the 'no bucket free of frequent values holds more than 2.5*min_freq' clause is checked by "
        "the python-side oracle by plain counting on every ContinuousDiscretizer case (no theorem)",
    ]
    trusted_extra = ["numpy.unique / value_counts / groupby().sum() aggregates computed by the harness "
                     "(plain Python counting) are the model's input"]

    # ---- generation -----------------------------------------------------------------------
    def corpus(self):
        import glob
        import json
        import os
        cs = [o1_case("ContinuousDiscretizer"), o1_case("QuantitativeDiscretizer")]
        for f in sorted(glob.glob(os.path.join(C.VERIF, "corpus", "findings", "*_c09_*.json"))):
            cs.append(json.load(open(f))["case"])
        # min_freq where q = round(1 / min_freq) is larger than 1 / min_freq: the bucket bound 2.25/q proved
        # on the model exceeds 2.5 * min_freq (q = 3: (0.2857, 0.3), q = 4: (0.2222, 0.225))
        for mf, counts, nan in ((0.29, [39, 10, 39, 12], 20), (0.295, [39, 10, 39, 12], 20), (0.224, [29, 8, 29, 8, 29, 17], 0)):
            xs = [float(v + 1) for v, c in enumerate(counts) for _ in range(c)] + [NAN] * nan
            cs.append({"kind": "cont", "cls": "ContinuousDiscretizer", "min_freq": float(mf).hex(), "binary": True,
                       "shape": "q-rounds-up", "x": [enc(x) for x in xs], "y": [i % 2 for i in range(len(xs))],
                       "order": None, "extra": False})
        return cs

    def generate(self, rng, tier):
        per_kind = 100 if tier == "quick" else 2000
        cases = []
        for kind in ("cont", "quant", "ord", "cat"):
            for _ in range(per_kind):
                c = gen_case(rng, kind, tier)
                r = rng.random()
                if r < 0.25 and kind != "ord" and c.get("order") is None:   # (custom str_nan + a given order + NaN
                    # is refused by the unchanged code with an AssertionError naming '__NAN__': not generated)
                    c["str_nan"] = rng.choice(["MISSING", "n/a"])
                if rng.random() < 0.2 and c["cls"] != "ContinuousDiscretizer":
                    # constructed with another min_freq, the case's min_freq is set before fit
                    c["late_min_freq"] = rng.choice([0.02, 0.05, 0.4])
                    c["late_how"] = rng.choice(["set_params", "attr"])
                cases.append(c)
        for _ in range(24 if tier == "quick" else 400):
            cases.append(band_case(rng))
        for _ in range(160 if tier == "quick" else 1500):
            cases.append(counts_case(rng))
        return cases

    def search_cases(self, rng, neighbours, rnd):
        cases = []
        for c in neighbours[:10]:
            for _ in range(4):
                m = dict(c)
                idx = sorted(rng.sample(range(len(c["x"])), max(2, len(c["x"]) - rng.randint(1, 3))))
                m["x"], m["y"] = [c["x"][i] for i in idx], [c["y"][i] for i in idx]
                cases.append(m)
        for kind in ("cont", "quant", "ord", "cat"):
            for _ in range(25):
                cases.append(gen_case(rng, kind, "quick"))
        return cases

    # ---- implementation -----------------------------------------------------------------
    def run_impl(self, case):
        import numpy as np
        import pandas as pd
        from AutoCarver.discretizers import (Discretizer, GroupedList, QualitativeDiscretizer,
                                             QuantitativeDiscretizer)
        from AutoCarver.discretizers.utils.quantitative_discretizers import (ContinuousDiscretizer,
                                                                             find_quantiles)

        mf = float.fromhex(case["min_freq"])
        xs, n = column(case), len(case["x"])
        kind, cls = case["kind"], case["cls"]
        out = {"res": None, "keys": [], "content": [], "by_leader": [], "raw": None, "dedup": None}
        # which find_quantiles variant does this tree implement? (probe on the O1 witness)
        w = np.array([float(v) for v, c in enumerate(O1_WITNESS) for _ in range(c)])
        probe = [float(v) for v in find_quantiles(w, 7)]
        out["dedup"] = len(set(probe)) == len(probe)
        y = pd.Series(case["y"])
        if kind in ("cont", "quant"):
            col = np.array([float(x) for x in xs], dtype=float)
            try:
                out["raw"] = [float(v).hex() for v in find_quantiles(col.copy(), round(1 / mf))]
            except Exception as e:  # noqa: BLE001
                out["raw"] = None
                out["raw_err"] = f"{type(e).__name__}: {e}"[:200]
            labels = [f"{v:.3e}" for v in sorted(set(float.fromhex(h) for h in (out["raw"] or [])))]
            if len(set(labels)) < len(labels):
                return {"skip": "distinct boundaries share a '.3e' label (observation O2)"}
            frame = {"f": col}
        else:
            frame = {"f": np.array([np.nan if is_nan(x) else x for x in xs], dtype=object)}
        if case.get("extra"):
            if kind in ("cont", "quant"):
                frame["w"] = np.array([["u", "v", "w"][i % 3] for i in range(n)], dtype=object)
            else:
                frame["z"] = np.array([float(i % 7) for i in range(n)])
        X = pd.DataFrame(frame)
        vo = None
        if case["order"] is not None:
            vo = {"f": GroupedList([dec(t) for t in case["order"]])}
        # custom missing-value sentinel (reported under the default name below); min_freq given at construction
        # or, for half of the flagged cases, set afterwards (set_params / attribute, as a grid search does)
        custom = case.get("str_nan")
        kw = {"str_nan": custom} if custom else {}
        late = case.get("late_min_freq")
        mf0 = late if late else mf
        try:
            if cls == "ContinuousDiscretizer":
                d = ContinuousDiscretizer(["f"], min_freq=mf, copy=True, **kw)
            elif cls == "QuantitativeDiscretizer":
                d = QuantitativeDiscretizer(["f"], min_freq=mf0, copy=True, **kw)
            elif cls == "QualitativeDiscretizer":
                d = QualitativeDiscretizer(["f"], min_freq=mf0, values_orders=vo, copy=True,
                                           ordinal_features=["f"] if kind == "ord" else None, **kw)
            else:
                quanti = (["f"] if kind in ("cont", "quant") else []) + (["z"] if "z" in frame else [])
                quali = (["f"] if kind == "cat" else []) + (["w"] if "w" in frame else [])
                d = Discretizer(quanti, quali, min_freq=mf0, values_orders=vo, copy=True,
                                ordinal_features=["f"] if kind == "ord" else None, **kw)
            if late and cls != "ContinuousDiscretizer":
                if case.get("late_how") == "attr":
                    d.min_freq = mf
                else:
                    d.set_params(min_freq=mf)
            d.fit(X, y)
        except AssertionError as e:
            out["res"], out["err"] = "assert", str(e)[:200]
            return out
        except Exception as e:  # noqa: BLE001
            out["res"], out["err"] = "internal", f"{type(e).__name__}: {e}"[:200]
            return out
        if "f" not in d.features or "f" not in d.values_orders:
            out["res"] = "dropped"
            return out
        order = d.values_orders["f"]
        out["res"] = "ok"

        def ren(v):
            """the custom sentinel is reported as '__NAN__'; a literal '__NAN__' met there is a foreign value"""
            if custom and isinstance(v, str):
                return STR_NAN if v == custom else ("<literal __NAN__>" if v == STR_NAN else v)
            return v
        out["keys"] = [enc(ren(k)) for k in order]
        out["content"] = [[enc(ren(k)), [enc(ren(v)) for v in vs]] for k, vs in order.content.items()]
        # the property by plain counting: rows per fitted modality after transform
        try:
            Xt = pd.DataFrame({k: (v.copy() if hasattr(v, "copy") else v) for k, v in frame.items()})
            tr = d.transform(Xt)["f"]
            vc = tr.value_counts(dropna=False)
            counts = {(STR_NAN if is_nan(k) else ren(k)): int(c) for k, c in vc.items()}
            lpv = {k: ren(v) for k, v in d.labels_per_values["f"].items()}
            out["by_leader"] = [[enc(ren(k)), int(counts.get(lpv.get(k), 0))] for k in order]
            out["n_transformed"] = int(sum(counts.values()))
        except Exception as e:  # noqa: BLE001
            out["by_leader"] = None
            out["transform_err"] = f"{type(e).__name__}: {e}"[:200]
        return out

    # ---- python-side property predicate ------------------------------------------------------
    def oracle(self, case, out):
        kind = case["kind"]
        mf = float.fromhex(case["min_freq"])
        agg, nan_cnt, n = aggregate(case)
        if kind in ("cont", "quant"):
            if out["raw"] is None:
                return False, f"find_quantiles raised {out.get('raw_err')}"
            raw = [float.fromhex(h) for h in out["raw"]]
            if any(not a < b for a, b in zip(raw, raw[1:])):
                return False, f"quantile boundaries are not strictly increasing: {raw}"
            if out["res"] != "ok":
                return False, f"fit of a well-formed quantitative column ended with {out['res']}: {out.get('err')}"
        if out["res"] != "ok":
            return True, ""
        keys = [dec(t) for t in out["keys"]]
        content = [[dec(k), [dec(v) for v in vs]] for k, vs in out["content"]]
        cdict = {k: vs for k, vs in content}
        # missing values stay a separate modality
        holders = [k for k, vs in content if STR_NAN in vs]
        if nan_cnt > 0 and not (STR_NAN in keys and cdict.get(STR_NAN) == [STR_NAN] and holders == [STR_NAN]):
            return False, "missing values are not a separate modality"
        if nan_cnt == 0 and (STR_NAN in keys or holders):
            return False, "a missing-value modality exists although the column has no missing value"
        if out["by_leader"] is None:
            return False, f"transform(X_train) failed: {out.get('transform_err')}"
        counts = [(dec(k), c) for k, c in out["by_leader"]]
        if out.get("n_transformed") != n:
            return False, "transform lost rows"
        non_missing = [(k, c) for k, c in counts if k != STR_NAN]
        if kind == "cont":
            q = round(1 / mf)
            observed = {v for v, _, _ in agg}
            if any(v not in observed for v in raw):
                return False, "a boundary is not an observed training value"
            frequent = {v for v, c, _ in agg if c >= n / q}
            missing = sorted(v for v in frequent if v not in raw)
            if missing:
                return False, f"values at least as frequent as min_freq are not boundaries: {missing}"
            exp = raw + [math.inf] + ([STR_NAN] if nan_cnt else [])
            if keys != exp:
                return False, f"leaders {keys} are not the boundaries followed by +inf"
            for k, c in non_missing:
                if k not in frequent and c / n > 2.5 * mf:
                    return False, (f"bucket ending at {k} holds {c}/{n} rows > 2.5*min_freq without "
                                   "containing an over-represented value")
        elif kind == "quant":
            nums = [k for k, _ in non_missing]
            if not nums or nums[-1] != math.inf or any(not a < b for a, b in zip(nums, nums[1:])):
                return False, f"leaders {nums} are not strictly increasing numbers ending with +inf"
            if len(non_missing) > 1:
                for k, c in non_missing:
                    if not c / n >= mf / 2:
                        return False, f"bucket ending at {k} holds {c}/{n} rows < min_freq/2"
        elif kind == "ord":
            if len(non_missing) > 1:
                for k, c in non_missing:
                    if not c / n >= mf:
                        return False, f"modality {k!r} holds {c}/{n} rows < min_freq"
            allv = [v for _, vs in content for v in vs]
            if any(dec(t) not in allv for t in case["order"]):
                return False, "a value of the ranking is in no group"
        else:
            cnt = {v: c for v, c, _ in agg}
            dflt = cdict.get(STR_DEFAULT, [])
            univ = list(cnt) + ([dec(t) for t in case["order"]] if case["order"] else [])
            for v in univ:
                if v in (STR_DEFAULT, STR_NAN):
                    continue
                should = (cnt[v] / n < mf) if v in cnt else True
                if (v in dflt) != should:
                    return False, (f"value {v!r} (count {cnt.get(v, 0)}/{n}) is "
                                   f"{'in' if v in dflt else 'not in'} the default group")
        return True, ""

    # ---- Coq side ---------------------------------------------------------------------------
    def coq_case(self, case, out):
        kind = case["kind"]
        mf = float.fromhex(case["min_freq"])
        agg, nan_cnt, n = aggregate(case)
        nums = [v for v, _, _ in agg] if kind in ("cont", "quant") else []
        raw = [float.fromhex(h) for h in (out["raw"] or [])] if kind in ("cont", "quant") else []
        sc = C.Scale(0).fit(nums + raw)

        def v(x):
            return C.cval(x, sc)

        if out["res"] == "ok":
            ks = C.clist([v(dec(t)) for t in out["keys"]])
            ct = C.clist([C.cpair(v(dec(k)), C.clist([v(dec(x)) for x in vs])) for k, vs in out["content"]])
            o = f"(IOk {ks} {ct})"
        else:
            o = {"dropped": "IDropped", "assert": "IAssert", "internal": "IInternal"}[out["res"]]
        if kind in ("cont", "quant"):
            d = C.clist([f"({C.cZ(sc.z(x))}, {C.cZ(c)}, {C.cZ(s)})" for x, c, s in sorted(agg)])
            r = C.clist([C.cZ(sc.z(x)) for x in raw])
            ctor = "KCont" if kind == "cont" else "KQuant"
            return f"{ctor} {C.cbool(out['dedup'])} {C.cfloat(mf)} {C.cZ(nan_cnt)} {d} {r} {o}"
        d = C.clist([f"({v(x)}, {C.cZ(c)}, {C.cZ(s)})" for x, c, s in agg])
        if case["order"] is not None:
            order = [dec(t) for t in case["order"]]
        else:
            order = [x for x, _, _ in agg]  # unique(): first-appearance order
        ctor = "KOrd" if kind == "ord" else "KCat"
        return f"{ctor} {C.cfloat(mf)} {C.cZ(nan_cnt)} {C.clist([v(x) for x in order])} {d} {o}"

    def coq_shards(self, cases, outs):
        shards = []
        for part in chunks(list(zip(cases, outs)), 25):
            body = ";\n  ".join(self.coq_case(c, o) for c, o in part)
            shards.append(
                "From AC.Model Require Import Base Float Quantiles Ordinal Categorical CheckC09.\n"
                "Open Scope string_scope.\nOpen Scope Z_scope.\n"
                f"Definition cases : list c09case := [\n  {body}\n].\n"
                "Eval vm_compute in map verdict cases.\n")
        return shards

    # ---- evidence -------------------------------------------------------------------------
    def signature(self, case, out):
        agg, nan_cnt, n = aggregate(case)
        mf = float.fromhex(case["min_freq"])
        q = round(1 / mf)
        if out["res"] != "ok":
            return f"{case['kind']}|{case['cls']}|{q}|{out['res']}"
        nk = len(out["keys"])
        grouped = sum(len(vs) - 1 for _, vs in out["content"])
        if case["kind"] in ("cont", "quant"):
            over = any(c >= n / q for _, c, _ in agg)
            trivial = nk <= 1
        else:
            over = False
            trivial = grouped == 0 and len(agg) <= 1
        if trivial:
            return None
        return (f"{case['kind']}|{case['cls']}|{q}|{nk}|{grouped}|{int(nan_cnt > 0)}|ok|"
                f"{int(over)}|{case['shape']}")

    def finding_signatures(self, case, out, msg):
        sigs = []
        m = re.search(r"holds (\d+)/(\d+) rows > 2\.5\*min_freq", msg)
        if m:
            # the code works in units of 1/q, q = round(1/min_freq): Properties/C09.v proves
            # 4*q*rows <= 9*len_df + 8*q for every bucket free of over-represented values
            # (C09_quantile_bucket_bound_binary64).  A bucket within THAT bound but above 2.5*min_freq is the
            # known finding; a bucket above the proved bound is a new violation
            c, n = int(m.group(1)), int(m.group(2))
            q = round(1 / float.fromhex(case["min_freq"]))
            if 4 * q * c <= 9 * n + 8 * q:
                sigs.append("bucket_bound_holds_in_units_of_rounded_q_only")
        if case["kind"] in ("cont", "quant") and out.get("raw"):
            raw = [float.fromhex(h) for h in out["raw"]]
            if len(set(raw)) < len(raw):
                sigs.append("duplicate_quantile_boundaries")
        return sigs

    def shrink(self, case, out, msg):
        """delta-debugging on rows: drop chunks of rows while the oracle still fails for the same
        reason class (first three words of the message)"""
        key = " ".join(msg.split()[:3])
        best = (case, out, msg)
        idx = list(range(len(case["x"])))
        chunk = max(1, len(idx) // 2)
        runs = 0
        while chunk >= 1 and runs < 160:
            i, changed = 0, False
            while i < len(idx) and runs < 160:
                cand_idx = idx[:i] + idx[i + chunk:]
                if len(cand_idx) < 4:
                    i += chunk
                    continue
                cand = dict(case)
                cand["x"] = [case["x"][j] for j in cand_idx]
                cand["y"] = [case["y"][j] for j in cand_idx]
                runs += 1
                o = C._worker((self.run_impl, cand))
                if isinstance(o, dict) and ("skip" in o or "harness_error" in o):
                    i += chunk
                    continue
                ok, m = self.oracle(cand, o)
                if not ok and " ".join(m.split()[:3]) == key:
                    idx, best, changed = cand_idx, (cand, o, m), True
                else:
                    i += chunk
            if not changed:
                chunk //= 2
        return best

    def distribution(self, cases, outs):
        kinds, classes, res, sizes, qs, nans = {}, {}, {}, [], {}, 0
        for c, o in zip(cases, outs):
            kinds[c["kind"] + ":" + c["shape"]] = kinds.get(c["kind"] + ":" + c["shape"], 0) + 1
            classes[c["cls"]] = classes.get(c["cls"], 0) + 1
            sizes.append(len(c["x"]))
            q = round(1 / float.fromhex(c["min_freq"]))
            qs[q] = qs.get(q, 0) + 1
            nans += any(t[0] == "nan" for t in c["x"])
            if isinstance(o, dict) and "res" in o:
                res[o["res"]] = res.get(o["res"], 0) + 1
        return {"kind_and_shape": kinds, "classes": classes, "outcomes": res,
                "rows_min": min(sizes) if sizes else 0, "rows_max": max(sizes) if sizes else 0,
                "q_histogram": dict(sorted(qs.items())), "cases_with_nan": nans,
                "integer_valued_targets": sum(1 for c in cases if not c["binary"])}


PROP = C09()
