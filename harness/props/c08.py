"""C08 — fit ends in a coherent fitted object or a clean AssertionError.
Degenerate-input generator over all classes; the fitted state is sent to Coq where the invariant
(wf_b = WF, proved; coverage of training values; quantitative leaders strictly increasing with
+inf last) is evaluated on the IMPLEMENTATION's state."""
import math

import numpy as np

import common as C
from props.base import NAN, Prop, chunks, dec, decs, enc, encs

NAMES = ["q1", "q2", "c1", "o1"]


def column(rng, kind, n, y):
    shape = rng.choice(["constant", "all_nan", "near_unique", "many_rare", "spike", "ties", "plain", "two_values",
                        "rare_tail", "nan_one_class", "rare_top", "ulps", "zero_spike", "bigint"])
    if shape == "nan_one_class":
        # observed only inside one target class (missing everywhere else), >= 2 frequent modalities
        cls0 = rng.choice(sorted(set(y)))
        k = rng.randint(2, 3)
        if kind == "quant":
            col = [float(rng.randrange(k)) if t == cls0 else NAN for t in y]
            return col, None, shape
        col = [["a", "b", "c"][rng.randrange(k)] if t == cls0 else NAN for t in y]
        order = None
        if kind == "ordinal":
            order = ["a", "b", "c"][:k] + (["d"] if rng.random() < 0.3 else [])
            rng.shuffle(order)
        return col, order, shape
    if kind == "quant":
        if shape == "constant":
            col = [3.0] * n
        elif shape == "all_nan":
            col = [NAN] * n
        elif shape == "near_unique":
            col = [float(i) for i in range(n)]
            rng.shuffle(col)
        elif shape == "many_rare":
            k = rng.randint(max(2, n // 4), max(3, n // 2))
            col = [float(rng.randrange(k)) for _ in range(n)]
        elif shape == "spike":
            col = [0.0 if rng.random() < 0.6 else float(rng.randint(1, 30)) for _ in range(n)]
        elif shape == "ties":
            col = [float(rng.randint(0, 4)) for _ in range(n)]
        elif shape == "two_values":
            col = [float(rng.randint(0, 1)) for _ in range(n)]
        elif shape == "rare_tail":
            col = [float(min(rng.randint(0, 12), rng.randint(0, 12))) for _ in range(n)]
        elif shape == "ulps":
            # neighbouring doubles: quantile boundaries that differ in their 16th-17th significant digit only
            base, step = rng.choice([(1.0, 2.0 ** -52), (2.0 ** 60, 256.0), (-1.0, 2.0 ** -53), (123.0, 2.0 ** -46)])
            col = [base + rng.randint(0, 9) * step for _ in range(n)]
        elif shape == "bigint":
            # integer identifiers above 2**53 that differ by less than the float64 spacing (known finding O49)
            base_ = rng.choice([10 ** 17, 2 ** 60])
            k = rng.choice([5, 9])
            col = [int(base_ + 3 * rng.randrange(k) + 1) for _ in range(n)]
            return col, None, shape
        elif shape == "zero_spike":
            # 0.0 is a quantile boundary, with a rare bucket just below it (and often missing values)
            neg = rng.choice([0.02, 0.03, 0.06])
            col = []
            for _ in range(n):
                r = rng.random()
                col.append(-float(rng.randint(1, 3)) if r < neg else 0.0 if r < neg + 0.45 else float(rng.randint(1, 9)))
        elif shape == "rare_top":
            # discrete feature whose largest value is rarer than min_freq (an under-populated last bucket)
            k = rng.randint(2, 5)
            col = [float(rng.randrange(k)) for _ in range(n)]
            for i in rng.sample(range(n), max(1, n // rng.choice([12, 20, 40]))):
                col[i] = float(k + rng.randint(0, 3))
        else:
            col = [round(rng.gauss(0, 10), 1) for _ in range(n)]
        order = None
    else:
        pool = ["a", "b", "c", "d", "e", "g", "h", "i", "j", "k", "l", "m"]
        if shape == "constant":
            col = ["a"] * n
        elif shape == "all_nan":
            col = [NAN] * n
        elif shape == "near_unique":
            col = [f"v{i}" for i in range(n)]
        elif shape == "many_rare":
            col = [rng.choice(pool) for _ in range(n)]
        elif shape == "spike":
            col = ["a" if rng.random() < 0.7 else rng.choice(pool[1:]) for _ in range(n)]
        elif shape == "two_values":
            col = [rng.choice(["a", "b"]) for _ in range(n)]
        elif shape == "rare_tail":
            col = [pool[min(rng.randint(0, 7), rng.randint(0, 7), rng.randint(0, 7))] for _ in range(n)]
        else:
            col = [rng.choice(pool[:5]) for _ in range(n)]
        if kind == "categ" and rng.random() < 0.2:
            col = [({"a": 1, "b": 2.0, "c": 3}.get(v, v)) for v in col]  # numeric-looking categories
        order = None
        if kind == "ordinal":
            seen = sorted({v for v in col if isinstance(v, str)})
            extra = [p for p in pool if p not in seen][: rng.randint(0, 2)]  # never observed values
            order = seen + extra
            rng.shuffle(order)
            if not order:
                order = ["a"]
            if rng.random() < 0.25 and shape != "near_unique":
                # numeric-valued ordinal feature (StringDiscretizer path); ranking given in string form, or
                # (numrank) with the raw numbers
                flt = rng.random() < 0.5
                code = {v: (float(i) + (0.5 if flt and i % 3 == 2 else 0.0) if flt else i + 1)
                        for i, v in enumerate(sorted(set(order)))}
                col = [code.get(v, v) if isinstance(v, str) else v for v in col]
                if rng.random() < 0.35:
                    order = [code[v] for v in order]
                    shape += "+numrank"
                else:
                    order = [str(int(code[v])) if float(code[v]).is_integer() else str(code[v]) for v in order]
                    shape += "+numord"
    if shape == "rare_top" and rng.random() < 0.6:
        for i in rng.sample(range(n), max(1, n // rng.choice([3, 10]))):
            col[i] = NAN
    elif shape not in ("all_nan",) and rng.random() < 0.3:
        for i in rng.sample(range(n), max(1, n // rng.choice([3, 10, 20]))):
            col[i] = NAN
    return col, order, shape


def gen_case(rng):
    klass = rng.choice(["Discretizer", "QuantitativeDiscretizer", "QualitativeDiscretizer", "BinaryCarver",
                        "BinaryCarver", "ContinuousCarver", "MulticlassCarver"])
    n = rng.choice([2, 3, 5, 8, 12, 20, 40, 80, 150])
    if klass == "ContinuousCarver":
        y = [rng.randint(0, 9) for _ in range(n)]
        if len(set(y)) < 3 and n >= 3:
            y[:3] = [0, 4, 8]
    elif klass == "MulticlassCarver":
        y = [rng.choice([0, 1, 2]) for _ in range(n)]
        if n >= 3:
            y[:3] = [0, 1, 2]
    else:
        y = [rng.randint(0, 1) for _ in range(n)]
        if n >= 2:
            y[:2] = [0, 1]
    feats = {}
    kinds = {"QuantitativeDiscretizer": ["quant"], "QualitativeDiscretizer": ["categ", "ordinal"]}.get(
        klass, ["quant", "categ", "ordinal"])
    for name in rng.sample(NAMES, rng.randint(1, 3)):
        kind = rng.choice(kinds)
        col, order, shape = column(rng, kind, n, y)
        feats[name] = {"kind": kind, "col": encs(col), "order": encs(order) if order else None, "shape": shape}
    max_n_mod = rng.randint(2, 5)
    # keep the number of tested combinations per feature small (near-unique columns with a tiny min_freq
    # give C(m-1, max_n_mod-1) groupings per class)
    min_freq = rng.choice([0.02, 0.05, 0.1, 0.2, 0.3, 0.5])
    for f in feats.values():
        m = min(len({repr(v) for v in f["col"]}), int(1 / min_freq) + 1)
        while max_n_mod > 2 and math.comb(max(m - 1, 0), max_n_mod - 1) > 4000:
            max_n_mod -= 1
    int_names = klass != "MulticlassCarver" and rng.random() < 0.1   # integer column labels 0, 1, 2 (0 is falsy)
    kwargs = rng.choice([{}, {}, {}, {"str_nan": "MISSING"}, {"str_default": "RARE"},
                         {"str_nan": "MISSING", "str_default": "RARE"}])
    return {"klass": klass, "y": y, "features": feats, "min_freq": min_freq,
            "kwargs": kwargs, "int_names": int_names,
            "max_n_mod": max_n_mod, "dropna": rng.random() < 0.6,
            "output_dtype": rng.choice(["float", "str"]), "sort_by": rng.choice(["tschuprowt", "cramerv"]),
            "min_freq_mod": rng.choice([None, None, 0.05, 0.3])}


def build(case):
    import pandas as pd
    cols = {}
    for name, f in case["features"].items():
        vals = decs(f["col"])
        if f["kind"] == "quant" and f.get("shape") == "bigint":
            cols[name] = np.array(vals, dtype="int64")
        else:
            cols[name] = np.array(vals, dtype=float) if f["kind"] == "quant" else pd.Series(vals, dtype=object)
    X = pd.DataFrame(cols)
    if case.get("int_names"):
        X.columns = [list(case["features"]).index(c) for c in X.columns]
    return X, pd.Series(case["y"])


def col_of(case, name):
    """column label used for feature `name` (an integer position when the case asks for integer labels)"""
    return list(case["features"]).index(name) if case.get("int_names") else name


def name_of(case, col):
    """inverse of col_of for raw columns; class-suffixed columns of MulticlassCarver keep their own name"""
    if case.get("int_names") and isinstance(col, (int, np.integer)) and 0 <= int(col) < len(case["features"]):
        return list(case["features"])[int(col)]
    return col


def make_obj(case):
    from AutoCarver import BinaryCarver, ContinuousCarver, MulticlassCarver
    from AutoCarver.discretizers import Discretizer, QualitativeDiscretizer, QuantitativeDiscretizer
    fs = case["features"]
    quant = [col_of(case, n) for n, f in fs.items() if f["kind"] == "quant"]
    categ = [col_of(case, n) for n, f in fs.items() if f["kind"] == "categ"]
    ordi = [col_of(case, n) for n, f in fs.items() if f["kind"] == "ordinal"]
    vo = {col_of(case, n): decs(fs[n]["order"]) for n, f in fs.items() if f["kind"] == "ordinal"}
    k = case["klass"]
    extra = dict(case.get("kwargs") or {})
    if k == "Discretizer":
        return Discretizer(quantitative_features=quant, qualitative_features=categ, ordinal_features=ordi,
                           values_orders=vo, min_freq=case["min_freq"], copy=True, **extra)
    if k == "QuantitativeDiscretizer":
        return QuantitativeDiscretizer(quantitative_features=quant, min_freq=case["min_freq"], copy=True,
                                       **{a: b for a, b in extra.items() if a == "str_nan"})
    if k == "QualitativeDiscretizer":
        return QualitativeDiscretizer(qualitative_features=categ, ordinal_features=ordi, values_orders=vo,
                                      min_freq=case["min_freq"], copy=True, **extra)
    kw = dict(min_freq=case["min_freq"], quantitative_features=quant, qualitative_features=categ,
              ordinal_features=ordi, values_orders=vo, max_n_mod=case["max_n_mod"], dropna=case["dropna"],
              output_dtype=case["output_dtype"], min_freq_mod=case["min_freq_mod"], copy=True, **extra)
    if k == "BinaryCarver":
        return BinaryCarver(sort_by=case["sort_by"], **kw)
    if k == "MulticlassCarver":
        return MulticlassCarver(sort_by=case["sort_by"], **kw)
    return ContinuousCarver(**kw)


def _same(a, b):
    if isinstance(a, str) or isinstance(b, str):
        return isinstance(a, str) and isinstance(b, str) and a == b
    if C.is_nan(a) or C.is_nan(b):
        return C.is_nan(a) and C.is_nan(b)
    return a == b


def py_partition_issue(p):
    """python twin of the Coq invariant (unique leaders, keys = content keys, disjoint groups, each leader
    in its own group, training values covered); only used to word the failure and to name the finding"""
    keys = decs(p["keys"])
    content = [(dec(k), decs(vs)) for k, vs in p["content"]]
    for i, a in enumerate(keys):
        if any(_same(a, b) for b in keys[i + 1:]):
            return f"leader {a!r} listed twice"
    ck = [k for k, _ in content]
    if len(ck) != len(keys) or any(not any(_same(k, c) for c in ck) for k in keys):
        return f"leaders {keys!r} differ from the content keys {ck!r}"
    seen = []
    for k, vs in content:
        if not any(_same(k, v) for v in vs):
            return f"leader {k!r} is not in its own group {vs!r}"
        for v in vs:
            if any(_same(v, w) for w in seen):
                return f"value {v!r} belongs to two groups (or twice to one)"
            seen.append(v)
    if not p["quant"]:
        for v in decs(p["train"]):
            if not any(_same(v, w) for w in seen):
                return f"training value {v!r} is in no group"
    return None


class C08(Prop):
    pid = "C08"
    theorems = ["C08_invariant_checker_sound", "C08_quantile_search_never_fails_internally",
                "C08_quantile_order_wf", "C08_merging_loop_total", "C08_grouping_preserves_wf",
                "C08_ordinal_fit_never_fails_internally", "C08_categorical_fit_never_fails_internally",
                "C08_quantitative_fit_wf_or_clean_failure",
                "C08_quantitative_fit_end_to_end", "C08_ordinal_fit_end_to_end",
                "C08_categorical_fit_end_to_end", "C08_grouping_family_preserves_wf",
                "C08_stage1_candidates_apply_wf", "C08_stage2_candidates_apply_wf",
                "C08_carve_kept_grouping_good", "C08_carve_kept_order_wf",
                "C08_carve_two_stage_order_wf", "C08_fit_pipeline_wf_end_to_end"]
    rule = ("degenerate-input generator: 2-150 rows; per feature one of constant / all-missing / near-unique "
            "/ many equally rare values / spike / heavy ties / two values / rare tail / plain, NaN share 0-33%, "
            "numeric-looking categories, ordinal rankings with never-observed values; all classes "
            "(Discretizer, Quantitative/QualitativeDiscretizer, Binary/Continuous/MulticlassCarver) and "
            "parameters; non-trivial = fit completed with at least one kept feature or raised; distinct = "
            "(class, shapes, outcome, kept pattern) signature")
    assumptions = ["history() rows of features dropped by a carver are reported separately (known finding "
                   "candidate), see finding_signatures"]

    def corpus(self):
        """discrete features whose rare values are almost as frequent as a quantile (O1 shapes)"""
        cs = []
        import glob
        import json
        import os
        for f in sorted(glob.glob(os.path.join(C.VERIF, "corpus", "findings", "*_c08_*.json"))):
            c = json.load(open(f)).get("case")
            if isinstance(c, dict) and "klass" in c:
                cs.append(c)
        for counts, mf in (([7, 3, 3, 4, 6, 6, 7, 7], 1 / 7), ([165, 9, 9, 9, 4, 4], 0.05), ([19, 90] + [1] * 91, 0.1)):
            col = []
            for v, c in enumerate(counts):
                col += [float(v)] * c
            y = [(i * 7) % 3 % 2 for i in range(len(col))]
            y[0], y[1] = 0, 1
            for klass in ("QuantitativeDiscretizer", "Discretizer", "BinaryCarver"):
                cs.append({"klass": klass, "y": y, "features": {"q1": {"kind": "quant", "col": encs(col), "order": None,
                                                                       "shape": "o1_like"}},
                           "min_freq": mf, "max_n_mod": 4, "dropna": True, "output_dtype": "float",
                           "sort_by": "cramerv", "min_freq_mod": None})
        return cs

    def generate(self, rng, tier):
        return [gen_case(rng) for _ in range(320 if tier == "quick" else 6000)]

    def search_cases(self, rng, neighbours, rnd):
        return [gen_case(rng) for _ in range(300)]

    def run_impl(self, case):
        import pandas as pd
        X, y = build(case)
        out = {}
        try:
            obj = make_obj(case)
        except AssertionError:
            return {"fit": "assert_init"}
        try:
            obj.fit(X, y)
        except AssertionError as e:
            return {"fit": "assert", "error": str(e)[:150]}
        except Exception as e:  # noqa: BLE001
            import traceback
            tb = traceback.extract_tb(e.__traceback__)
            where = next((f"{t.filename.split('/')[-1]}:{t.lineno}:{t.name}" for t in reversed(tb)
                          if "AutoCarver" in t.filename), "?")
            return {"fit": "internal", "error": f"{type(e).__name__}: {e}"[:300], "where": where}
        out["fit"] = "ok"
        feats = list(obj.features)
        nm = lambda c: name_of(case, c)  # noqa: E731
        skey = lambda xs: sorted(str(nm(x)) for x in xs)  # noqa: E731
        out["features"] = skey(feats)
        out["dup_features"] = len(feats) != len(set(feats))
        casted = {c: raw for raw, cs in obj.features_casting.items() for c in cs}
        out["keysets"] = {
            "values_orders": skey(obj.values_orders) == skey(feats),
            "input_dtypes": skey(obj.input_dtypes) == skey(feats),
            "labels_per_values": skey(obj.labels_per_values) == skey(feats),
            "features_dropna": skey(obj.features_dropna) == skey(feats),
            "features_casting": skey(casted) == skey(feats),
        }
        per = {}
        Xfresh, _ = build(case)
        for f in feats:
            raw = nm(casted.get(f, f))
            g = obj.values_orders[f]
            colv = decs(case["features"][raw]["col"])
            nonmiss = [v for v in colv if not C.is_nan(v)]
            distinct = []
            for v in nonmiss:
                if not any((type(v) is type(w) or (not isinstance(v, str) and not isinstance(w, str))) and v == w
                           for w in distinct):
                    distinct.append(v)
            per[str(nm(f))] = {"quant": obj.input_dtypes[f] == "float", "keys": encs(list(g)),
                      "content": [[enc(k), encs(v)] for k, v in g.content.items()],
                      "train": encs(distinct), "has_nan": len(nonmiss) != len(colv), "str_nan": obj.str_nan, "raw": raw}
        out["per"] = per
        # summary / history / transform
        try:
            s = obj.summary()
            out["summary_features"] = skey(set(s.index.get_level_values("feature"))) if len(s) else []
        except Exception as e:  # noqa: BLE001
            out["summary_error"] = f"{type(e).__name__}: {e}"[:200]
        try:
            h = obj.history()
            if h is not None and len(h):
                out["history_features"] = skey(set(h["feature"])) if "feature" in h else []
            else:
                out["history_features"] = None if h is None else []
        except Exception as e:  # noqa: BLE001
            out["history_error"] = f"{type(e).__name__}: {e}"[:200]
        try:
            Xt = obj.transform(Xfresh.copy())
            untouched = {}
            for raw in case["features"]:
                col_ = col_of(case, raw)
                if col_ not in feats and col_ not in obj.features_casting:
                    a, b = Xt[col_], Xfresh[col_]
                    untouched[raw] = bool(((a == b) | (a.isna() & b.isna())).all())
            out["untouched"] = untouched
        except Exception as e:  # noqa: BLE001
            out["transform_error"] = f"{type(e).__name__}: {e}"[:200]
        return out

    def oracle(self, case, out):
        if out.get("fit") == "internal":
            return False, f"fit raised {out['error']} at {out.get('where')}"
        if out.get("fit") != "ok":
            return True, ""
        if out["dup_features"]:
            return False, "features listed twice"
        for k, v in out["keysets"].items():
            if not v:
                return False, f"{k} does not refer to exactly the kept features {out['features']}"
        for key in ("summary_error", "history_error", "transform_error"):
            if key in out:
                return False, f"{key.split('_')[0]}() raised on the fitted object: {out[key]}"
        if out["features"] and out.get("summary_features") != out["features"]:
            return False, f"summary() lists {out.get('summary_features')} but kept features are {out['features']}"
        hf = out.get("history_features")
        if hf is not None and case["klass"].endswith("Carver") and sorted(hf) != out["features"]:
            return False, f"history() lists {hf} but kept features are {out['features']}"
        for raw, ok in out.get("untouched", {}).items():
            if not ok:
                return False, f"dropped feature {raw} is modified by transform"
        for f, p in out["per"].items():
            bad = py_partition_issue(p)
            if bad:
                return False, f"values_orders[{f}] is not a well-formed partition: {bad}"
        return True, ""

    def coq_case(self, out):
        feats = []
        for f, p in out["per"].items():
            vals = decs(p["train"]) + decs(p["keys"]) + [v for _, vs in p["content"] for v in decs(vs)]
            sc = C.Scale(0).fit(vals)

            def v(t):
                return C.cval(dec(t), sc)

            order = (f"(mkGL {C.clist([v(t) for t in p['keys']])} "
                     f"{C.clist([C.cpair(v(k), C.clist([v(x) for x in vs])) for k, vs in p['content']])})")
            feats.append(f"mkC08f {C.cbool(p['quant'])} {order} {C.clist([v(t) for t in p['train']])} "
                         f"{C.cbool(p['has_nan'])} (VStr {C.cstr(p['str_nan'])})")
        return C.clist(feats)

    def coq_shards(self, cases, outs):
        shards = []
        for part in chunks(list(zip(cases, outs)), 40):
            terms = [("verdict08 " + self.coq_case(o)) if o.get("fit") == "ok" else "0%nat" for c, o in part]
            shards.append("From AC.Model Require Import Base GroupedList CheckC13 CheckC08.\n"
                          "Open Scope string_scope.\nEval vm_compute in [" + ";\n ".join(terms) + "].\n")
        return shards

    def signature(self, case, out):
        shapes = sorted(f["kind"] + ":" + f["shape"] for f in case["features"].values())
        return f"{case['klass']}|{shapes}|{out.get('fit')}|{out.get('features')}"

    def finding_signatures(self, case, out, msg):
        sigs = []
        if "is not a well-formed partition" in msg or msg.startswith("property predicate evaluated in Coq"):
            # ordinal ranking given with the raw NUMBERS of a numeric-valued ordinal feature
            for f, p in (out.get("per") or {}).items():
                if py_partition_issue(p) and case["features"].get(p.get("raw", f), {}).get("shape", "").endswith("+numrank"):
                    sigs.append("numeric_ordinal_ranking_ill_formed_partition")
        if "expected frequencies has a zero element" in out.get("error", ""):
            sigs.append("chi2_zero_expected_frequency")
        if msg.startswith("history() lists"):
            sigs.append("history_keeps_dropped_features")
        if any(f.get("shape") == "bigint" for f in case["features"].values()) and (
                out.get("fit") == "internal" or "well-formed partition" in msg or msg.startswith("property predicate")):
            sigs.append("int64_above_2_53_labels_collide")
        if out.get("where"):
            sigs.append("internal:" + out["where"].split(":")[0] + ":" + out["where"].split(":")[-1])
        return sigs

    def distribution(self, cases, outs):
        d = {"klass": {}, "fit": {}, "shapes": {}, "rows": {}}
        for c, o in zip(cases, outs):
            d["klass"][c["klass"]] = d["klass"].get(c["klass"], 0) + 1
            d["rows"][len(c["y"])] = d["rows"].get(len(c["y"]), 0) + 1
            for f in c["features"].values():
                d["shapes"][f["shape"]] = d["shapes"].get(f["shape"], 0) + 1
            if isinstance(o, dict):
                d["fit"][str(o.get("fit"))] = d["fit"].get(str(o.get("fit")), 0) + 1
        return d

    def shrink(self, case, out, msg):
        """drop features then rows while the same failure persists"""
        best = (case, out, msg)
        sigs0 = set(self.finding_signatures(case, out, msg)) or {msg[:40]}

        def still(c):
            o = C._worker((self.run_impl, c))
            ok, m = self.oracle(c, o)
            return (not ok and (set(self.finding_signatures(c, o, m)) or {m[:40]}) == sigs0), o, m

        cur = case
        for name in list(cur["features"]):
            if len(cur["features"]) <= 1:
                break
            cand = dict(cur)
            cand["features"] = {k: v for k, v in cur["features"].items() if k != name}
            bad, o, m = still(cand)
            if bad:
                cur, best = cand, (cand, o, m)
        n = len(cur["y"])
        step = max(1, n // 2)
        while step >= 1 and n > 2:
            i = 0
            while i < n and n > 2:
                keep = [j for j in range(n) if not (i <= j < i + step)]
                if len(keep) < 2:
                    break
                cand = dict(cur)
                cand["y"] = [cur["y"][j] for j in keep]
                cand["features"] = {k: dict(v, col=[v["col"][j] for j in keep]) for k, v in cur["features"].items()}
                bad, o, m = still(cand)
                if bad:
                    cur, best, n = cand, (cand, o, m), len(keep)
                else:
                    i += step
            step //= 2
        return best


PROP = C08()
