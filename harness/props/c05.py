"""C05 — Unseen data is given fitted labels or rejected, never passed through.

Same cases and state extraction as C04 (props/c04.py); here each fitted feature is probed with
frames NOT seen at fit: numbers inside/outside/at the edges of the training range (nextafter
neighbours of every boundary, +-1e308, +-5e-324, +-inf), unseen categories with/without a default
group, numeric unseen values, injected NaN, empty and single-row frames.  Observable: every output
cell of the probed feature is a fitted label, or the exception class.
"""
import math
import re

import numpy as np

import common as C
from props.base import NAN, Prop, dec, decs, enc, encs
from props import c04 as B

UNSEEN = ["zz_unseen", "", "A", "nan", "None", 7, 3.25, -1, 0, "7", "__OTHER__", "__NAN__", "RARE", "MISSING"]


def twins(known):
    """values never seen at fit whose str() / number equals a fitted category: 1 for "1", 2.5 for
    "2.5", "2.0" / "2" for 2.0 ... (bools are left out: the model's carrier has no bool)"""
    out = []

    def add(v):
        if not B.isin(v, known) and not B.isin(v, out):
            out.append(v)

    for v in known:
        if isinstance(v, str):
            try:
                x = float(v)
            except ValueError:
                continue
            if math.isfinite(x):
                if x.is_integer() and abs(x) < 2 ** 53:
                    add(int(x))
                else:
                    add(x)
        elif not C.is_nan(v) and math.isfinite(v):
            add(str(v))
            add(str(float(v)))
            if float(v).is_integer():
                add(str(int(v)))
    return out


def quant_probes(rng, st, train):
    keys = [k for k in decs(st["keys"]) if not isinstance(k, str) and not C.is_nan(k)]
    fin = sorted(k for k in keys if math.isfinite(k))
    ps = []
    for b in fin:
        ps += [b, float(np.nextafter(b, -math.inf)), float(np.nextafter(b, math.inf))]
    for a, b in zip(fin, fin[1:]):
        ps.append(a + (b - a) / 2)
    tr = [v for v in train if not C.is_nan(v)]
    if tr:
        lo, hi = min(tr), max(tr)
        ps += [lo, hi, lo - 1, hi + 1, lo - abs(lo), hi + abs(hi), float(np.nextafter(lo, -math.inf)),
               float(np.nextafter(hi, math.inf))]
        ps += rng.sample(tr, min(6, len(tr)))
    ps += [1e308, -1e308, 5e-324, -5e-324, 0.0, -0.0, 1.7976931348623157e308, -1.7976931348623157e308]
    if rng.random() < 0.7:
        ps += [math.inf, -math.inf]
    rng.shuffle(ps)
    return [float(p) for p in ps]


def qual_probes(rng, st):
    known = [v for _, vs in st["content"] for v in decs(vs)]
    known_real = [v for v in known if not (isinstance(v, str) and v in (st["str_nan"],))]
    return known_real


def make_probes(rng, st, train):
    """list of (tag, cells, dtype) probe columns for one fitted feature"""
    probes = []
    vals = [v for _, vs in st["content"] for v in decs(vs)]
    nan_known = B.isin(st["str_nan"], vals)
    nan_own = B.isin(st["str_nan"], decs(st["keys"]))
    if st["kind"] == "quant":
        base = quant_probes(rng, st, train)
        probes.append(("numbers", base, "float64"))
        withnan = list(base[: max(3, len(base) // 3)])
        for _ in range(2):
            withnan.insert(rng.randint(0, len(withnan)), NAN)
        probes.append(("numbers+nan", withnan, "float64"))
        probes.append(("single", [rng.choice(base)], "float64"))
        probes.append(("single-nan", [NAN], "float64"))
        # the same numbers stored otherwise: python objects (None / nan for missing), nullable
        # Int64 / Float64 (pd.NA for missing), int64 (float32 is out: numpy compares in float32 there)
        small = rng.sample(base, min(10, len(base)))
        probes.append(("object", small, "object"))
        miss = list(small[:5])
        miss.insert(rng.randint(0, len(miss)), NAN)
        probes.append(("object+missing", miss, rng.choice(["object", "object-nan"])))
        ints = sorted({int(math.floor(x)) for x in base if math.isfinite(x) and abs(x) < 2 ** 52})
        ints = rng.sample(ints, min(8, len(ints))) or [0]
        kind = rng.choice(["Int64", "Float64", "int64"])
        if kind == "Int64":
            probes.append(("Int64", ints, "Int64"))
        elif kind == "Float64":
            probes.append(("Float64", small, "Float64"))
        else:
            probes.append(("int64", ints, "int64"))
        # pd.NA in a nullable column.  With NaN as its OWN modality numpy.select refuses the masked
        # comparisons on /repo (known finding nullable_pdNA_with_nan_own_group_typeerror): those
        # probes carry their own tag and are judged by the python-side oracle only
        k2 = rng.choice(["Int64", "Float64"])
        cells = list(ints[:4]) if k2 == "Int64" else list(small[:4])
        cells.insert(rng.randint(0, len(cells)), NAN)
        where = "/nan-own-group" if (nan_known and nan_own) else ("/nan-merged" if nan_known else "")
        probes.append((k2 + "+NA" + where, cells, k2))
    else:
        known = qual_probes(rng, st)
        probes.append(("known", list(known), None))
        unseen = rng.sample(UNSEEN, rng.randint(1, 3))
        mix = list(known) + unseen
        rng.shuffle(mix)
        probes.append(("unseen", mix, None))
        one = rng.choice(UNSEEN)
        probes.append(("single-unseen", [one], None))
        withnan = list(known)
        withnan.insert(rng.randint(0, len(withnan)), NAN)
        probes.append(("known+nan", withnan, None))
        probes.append(("literal-markers", list(known) + [st["str_nan"], st["str_default"]], None))
        tw = twins(known)
        if tw:
            probes.append(("twins", list(known[:3]) + tw[:6], None))
            probes.append(("single-twin", [rng.choice(tw)], None))
        if known:
            probes.append(("single", [rng.choice(known)], None))
    probes.append(("empty", [], "float64"))
    return probes


# ---- hand-made states (premises of the theorem can be false there) ----------------------------
def hand_cases(rng):
    cs = []

    def mk(kind, keys, content, odt="str", dropna=True, train=None):
        return {"cls": "Base", "params": {"output_dtype": odt, "dropna": dropna, "min_freq": 0.1},
                "json": False, "y": [],
                "features": [{"name": "h0", "kind": kind, "flavour": "hand",
                              "hand": {"keys": encs(keys), "content": [[enc(k), encs(vs)] for k, vs in content]},
                              "train": train or [1.0], "values": encs(train or [1.0])}]}

    # quantitative order edited to lose the +inf sentinel: raw values leak above the last leader
    cs.append(mk("quant", [1.0, 2.5, 10.0], [[1.0, [1.0]], [2.5, [2.5]], [10.0, [10.0]]]))
    cs.append(mk("quant", [1.0, 2.5, 10.0], [[1.0, [1.0]], [2.5, [2.5]], [10.0, [10.0]]], odt="float"))
    cs.append(mk("quant", [0.5, "__NAN__"], [[0.5, [0.5]], ["__NAN__", ["__NAN__"]]]))
    # well-formed hand-made states
    cs.append(mk("quant", [1.0, 2.5, math.inf], [[1.0, [1.0]], [2.5, [2.0, 2.5]], [math.inf, [math.inf]]]))
    cs.append(mk("quant", [1.0, math.inf, "__NAN__"],
                 [[1.0, [1.0]], [math.inf, [math.inf]], ["__NAN__", ["__NAN__"]]], dropna=False))
    cs.append(mk("quant", [1.0, math.inf], [[1.0, ["__NAN__", 1.0]], [math.inf, [math.inf]]], odt="float"))
    cs.append(mk("qual", ["a", "__OTHER__", "b"], [["a", ["a"]], ["__OTHER__", ["c", "d", "__OTHER__"]], ["b", ["e", "b"]]],
                 train=["a"]))
    cs.append(mk("qual", ["a", "b", "__NAN__"], [["a", ["a"]], ["b", ["c", "b"]], ["__NAN__", ["__NAN__"]]],
                 odt="float", dropna=False, train=["a"]))
    cs.append(mk("qual", ["a", "b"], [["a", ["a", "__NAN__"]], ["b", ["b"]]], train=["a"]))
    return cs


def leq(a, b):
    return B.leq(a, b)


def behavioural_default(st, train):
    """the default group identified from BEHAVIOUR: the value of a categorical feature's order that
    is neither a training value, nor the string form of one, nor str_nan"""
    if train is None:
        return None
    seen = []
    for v in train:
        if not C.is_nan(v):
            seen.append(v)
            if not isinstance(v, str):
                seen.append(B.py_strform(v))
    extra = [v for v in st.values() if not B.isin(v, seen) and not (isinstance(v, str) and v == st.nan)]
    return extra[0] if len(extra) == 1 and isinstance(extra[0], str) else None


def oracle_c05(st_json, cells, outs, fitted=True, cat_train=None):
    st = B.St(st_json)
    cells = decs(cells)
    vals = st.values()
    bd = behavioural_default(st, cat_train) if (fitted and st.kind == "qual") else None
    if bd is not None and bd != st.default:
        return False, (f"feature {st_json['name']}: rare training categories were grouped under {bd!r} but "
                       f"the object's str_default is {st.default!r}: unseen categories cannot reach the "
                       f"default group")
    if not fitted:
        wf = (len(st.keys) == len(st.content) and all(B.isin(k, [kk for kk, _ in st.content]) for k in st.keys)
              and not any(B.isin(k, st.keys[:i]) for i, k in enumerate(st.keys))
              and not any(B.isin(v, vals[:i]) for i, v in enumerate(vals))
              and all(B.isin(k, vs) for k, vs in st.content))
        sentinel = True
        if st.kind == "quant":
            ls = st.leaders()
            sentinel = bool(ls) and ls[-1] == math.inf and all(
                not isinstance(l, str) and math.isfinite(l) for l in ls[:-1])
        if not (wf and sentinel and st.nan):
            return True, ""

    def reason(c):
        if C.is_nan(c):
            return not st.contains(st.nan)
        if st.kind == "quant":
            return False
        return (not B.isin(c, vals)) and ((isinstance(c, str) and c == st.nan) or not B.isin(st.default, vals))

    if outs == "internal":
        return False, f"feature {st_json['name']}: transform raised a non-assertion exception"
    if outs == "assert":
        if any(reason(c) for c in cells):
            return True, ""
        return False, (f"feature {st_json['name']}: AssertionError although no cell is an unseen category "
                       f"without default group nor an unexpected NaN")
    labels = [l for _, l in st.lpv]
    outs = decs(outs)
    if len(outs) != len(cells):
        return False, f"feature {st_json['name']}: {len(cells)} cells in, {len(outs)} out"
    for c, o in zip(cells, outs):
        if reason(c):
            return False, (f"feature {st_json['name']}: cell {c!r} (unseen category without default group / "
                           f"unexpected missing value) was accepted and came out as {o!r}")
    for c, o in zip(cells, outs):
        if C.is_nan(o):
            if st.dropna or st.label(st.nan) is None:
                return False, f"feature {st_json['name']}: cell {c!r} -> missing value"
            continue
        if not any(leq(o, l) for l in labels):
            return False, (f"feature {st_json['name']}: cell {c!r} -> {o!r} which is not a fitted label "
                           f"(raw value passed through)")
        if st.kind == "quant" and not C.is_nan(c):
            l = st.first_geq(c)
            if l is not None and not leq(o, st.label(l)):
                return False, (f"feature {st_json['name']}: cell {c!r} -> {o!r}, but the first boundary >= it "
                               f"is {l!r} with label {st.label(l)!r}")
        if (st.kind == "qual" and not C.is_nan(c) and not B.isin(c, vals)
                and not (isinstance(c, str) and c == st.nan) and B.isin(st.default, vals)):
            d = st.label(st.group(st.default))
            if not leq(o, d):
                return False, (f"feature {st_json['name']}: unseen category {c!r} -> {o!r}, not the "
                               f"default group's label {d!r}")
    return True, ""


def known_sigs_c05(msg):
    """narrow: only the pd.NA probes of a feature whose NaN is its own group, only numpy.select's
    TypeError on the masked comparisons"""
    if (re.match(r"\[probe (Int64|Float64)\+NA/nan-own-group, ", msg)
            and "non-assertion exception" in msg
            and "TypeError: invalid entry 0 in condlist" in msg):
        return ["nullable_pdNA_with_nan_own_group_typeerror"]
    # NaN merged into a numeric group: `df_feature[nans] = nan_value` writes the group's leader (a
    # non-integral float, inf, or an integral float beyond int64) into the Int64 column
    if (re.match(r"\[probe Int64\+NA/nan-merged, ", msg)
            and "non-assertion exception" in msg
            and re.search(r"TypeError: Invalid value '[^']*' for dtype 'Int64'"
                          r"|OverflowError: Python int too large to convert to C long", msg)):
        return ["nullable_Int64_pdNA_leader_not_representable"]
    return []


class C05(B.C04):
    pid = "C05"
    verdict_fn = "verdict05"
    theorems = ["C05_transform_total", "C05_finite_numbers_never_rejected",
                "C05_unseen_category_goes_to_default", "C05_sentinel_necessary",
                "C05_checker_premises_sound", "C03_transform_monotone",
                "C03_transform_right_closed_intervals"]
    rule = ("one case = a fitted object (same generator as C04: every Discretizer class and both "
            "carvers, output_dtype x dropna, JSON rebuilds) or a hand-made BaseDiscretizer state "
            "(incl. orders without the +inf sentinel); every fitted feature is probed by 5-7 frames "
            "(numbers: each boundary and its two nextafter neighbours, midpoints, training min/max "
            "+-1, +-1e308, +-5e-324, +-max double, +-inf; categories: all known values, unseen "
            "strings/numbers, the literal str_nan/str_default markers (custom sentinels in ~1/3 of the "
            "cases with a categorical feature), number/string twins of fitted categories; injected NaN; single-row and "
            "empty frames), the other columns holding a value seen at fit; observable per probe "
            "frame: output cells of the probed feature or the exception class; distinct = distinct "
            "(class, kind, output_dtype, dropna, probe tag, outcome class, #groups, NaN placement, "
            "default group?) signature")
    assumptions = [
        "cells of a quantitative column are numbers or NaN (a float64 column)",
        "a raw value that leaks with output_dtype='float' and equals a rank cannot be told from a "
        "label by observation; the model tells them apart",
        "probe frames failing exactly as a recorded known finding (nullable_pdNA_with_nan_own_group_"
        "typeerror, nullable_Int64_pdNA_leader_not_representable) are judged by the python-side oracle only",
    ] + B.C04.assumptions[:3]

    def corpus(self):
        import random
        cs = hand_cases(random.Random(5))
        # custom sentinels, rare categories (default group), string categories that look like numbers
        for cls, extra in (("Discretizer", {}), ("QualitativeDiscretizer", {}),
                           ("BinaryCarver", {"max_n_mod": 3, "sort_by": "tschuprowt"})):
            pool = ["A"] * 8 + ["B"] * 6 + ["C"] * 4 + ["E", "F"]
            xs = [pool[(i * 7) % len(pool)] for i in range(120)]
            xs[5] = xs[40] = NAN
            num = [["1", "2", "3"][(i * 5 + i // 7) % 3] for i in range(120)]
            cs.append({"cls": cls, "json": cls == "QualitativeDiscretizer", "probe_seed": 11,
                       "kwargs": {"str_default": "AUTRES", "str_nan": "MANQUANT"},
                       "params": dict({"min_freq": 0.1, "output_dtype": "str", "dropna": True}, **extra),
                       "features": [{"name": "c0", "kind": "cat", "flavour": "rare", "values": encs(xs)},
                                    {"name": "c1", "kind": "cat", "flavour": "numstr", "values": encs(num)}],
                       "y": [1 if (i * 3) % 7 < 3 + (x == "A") else 0 for i, x in enumerate(xs)]})
        return cs

    def generate(self, rng, tier):
        n = 170 if tier == "quick" else 1800
        cases = []
        for i in range(n):
            cls = B.CLASSES[i % len(B.CLASSES)]
            force = {}
            r = rng.random()
            if r < 0.1:
                force = {"kind": "quant", "qflavour": rng.choice(["yyyymm", "close", "big", "tiny"])}
            elif r < 0.3:
                force = {"kind": "cat", "cflavour": rng.choice(["ints", "floats", "numstr", "mixed", "rare", "rare"])}
            c = B.gen_case(rng, cls, force)
            if len(c["y"]) > 200:
                c = B.gen_case(rng, cls, dict(force, n=rng.choice([40, 80, 120])))
            if "cat" in [f["kind"] for f in c["features"]] and rng.random() < 0.35:
                c["kwargs"] = rng.choice([{"str_default": "RARE"}, {"str_nan": "MISSING", "str_default": "RARE"},
                                          {"str_default": "AUTRES", "str_nan": "MANQUANT"}])
            c["probe_seed"] = rng.randint(0, 10 ** 9)
            cases.append(c)
        return cases

    def search_cases(self, rng, neighbours, rnd):
        return self.generate(rng, "quick")[:40]

    def run_impl(self, case):
        import random
        obj, skip = B.fit_or_skip(case)
        if skip:
            return skip
        names = [f["name"] for f in case["features"] if f["name"] in obj.features]
        if not names:
            return {"skip": "every feature was dropped at fit"}
        rng = random.Random(case.get("probe_seed", 0))
        kept = [f for f in case["features"] if f["name"] in names]
        sub = dict(case, features=kept)
        states, runs = [], []
        for f in kept:
            st = B.extract_state(obj, f["name"])
            train = f.get("train") or decs(f["values"])
            for tag, cells, dtype in make_probes(rng, st, train):
                variant = rng.choice(B.INDEX_VARIANTS)
                X = B.reindexed(B.probe_frame(sub, f["name"], cells, dtype or "float64"), variant, rng)
                outs, exc = B.run_transform(obj, X, [f["name"]])
                states.append(st)
                runs.append({"tag": tag, "index": variant, "cells": encs(cells), "out": outs[f["name"]],
                             "exc": exc})
        return {"features": states, "runs": runs}

    def run_msg(self, case, st, r):
        f = next((f for f in case["features"] if f["name"] == st["name"]), None)
        train = decs(f["values"]) if (f is not None and f["kind"] == "cat" and "hand" not in f) else None
        ok, msg = oracle_c05(st, r["cells"], r["out"], fitted=case["cls"] != "Base", cat_train=train)
        if ok:
            return None
        return (f"[probe {r['tag']}, index {r.get('index')}] {msg}"
                + (f" ({r['exc']})" if r.get("exc") else ""))

    def oracle(self, case, out):
        """a failure that is NOT a recorded known finding is reported first"""
        known = None
        for st, r in zip(out["features"], out["runs"]):
            msg = self.run_msg(case, st, r)
            if msg is not None:
                if not known_sigs_c05(msg):
                    return False, msg
                known = known or msg
        return (False, known) if known else (True, "")

    def coq_shards(self, cases, outs):
        # the model is the float64 semantics: probe frames that fail exactly as a recorded known
        # finding (nullable-dtype glue) stay on the python side
        outs2 = []
        for c, o in zip(cases, outs):
            keep = []
            for i, (st, r) in enumerate(zip(o["features"], o["runs"])):
                # judged on the outcome alone (hand-made states whose premises fail included)
                msg = (f"[probe {r['tag']}, index {r.get('index')}] feature {st['name']}: transform raised "
                       f"a non-assertion exception ({r.get('exc')})") if r["out"] == "internal" else ""
                if not known_sigs_c05(msg):
                    keep.append(i)
            outs2.append(dict(o, features=[o["features"][i] for i in keep], runs=[o["runs"][i] for i in keep]))
        return B.coq_shards_for(cases, outs2, self.verdict_fn)

    def signature(self, case, out):
        if "features" not in out:
            return None
        p = case["params"]
        parts = set()
        for st, r in zip(out["features"], out["runs"]):
            keys = decs(st["keys"])
            vals = [v for _, vs in st["content"] for v in decs(vs)]
            nanpos = "own" if B.isin(st["str_nan"], keys) else ("grouped" if B.isin(st["str_nan"], vals) else "-")
            dflt = B.isin(st["str_default"], vals)
            oc = r["out"] if isinstance(r["out"], str) else "ok"
            parts.add(f"{st['kind']}:{r['tag']}:{oc}:{min(len(keys), 6)}:{nanpos}:{int(dflt)}")
        return f"{case['cls']}|{p['output_dtype']}|{p['dropna']}|" + ",".join(sorted(parts))

    def finding_signatures(self, case, out, msg):
        return known_sigs_c05(msg)

    def shrink(self, case, out, msg):
        if case["cls"] == "Base":
            return case, out, msg
        return super().shrink(case, out, msg)

    def distribution(self, cases, outs):
        d = super().distribution(cases, outs)
        tags, outcomes, ncells, idx = {}, {}, 0, {}
        for o in outs:
            if isinstance(o, dict) and "runs" in o:
                for r in o["runs"]:
                    tags[r.get("tag")] = tags.get(r.get("tag"), 0) + 1
                    k = r["out"] if isinstance(r["out"], str) else "labels"
                    outcomes[k] = outcomes.get(k, 0) + 1
                    ncells += len(r["cells"])
                    idx[r.get("index")] = idx.get(r.get("index"), 0) + 1
        d.update({"probe_frames": tags, "outcomes": outcomes, "probe_cells": ncells, "probe_frame_index": idx})
        return d


PROP = C05()
