"""C06 — JSON save/load round trip preserves behaviour.

A *case* is a small training frame + a class/configuration (+ unseen probe frames).  The real
class is fitted, `to_json()` is dumped with the real `json.dumps`, parsed back with the real
`json.loads`, rebuilt with `load_carver` / `load_discretizer`, and dumped a second time.
Observed: serialisability, the dumped `values_orders` text (parsed with an `object_pairs_hook`, so
pairs are seen exactly as written), `values_orders` (list + content) of the original and of the
reloaded object, the second dump, every other JSON entry, attributes, `labels_per_values`,
`transform` on the training frame and on unseen frames (cells or exception class), `summary()`.

Coq side (Model/Json.v through Model/CheckC06.v): the model serialises / dumps / loads /
deserialises the ORIGINAL values_orders, per feature, with CPython's key conversion and `str`
passed as tables, and must reproduce the implementation's text, reloaded state and second text;
the property predicate C06_b is evaluated on the implementation's own output.
"""
import json
import math
import re

import numpy as np

import common as C
from props.base import NAN, Prop, chunks, dec, decs, enc, encs

SENTINEL = "numpy.inf"
CLASSES = ["Discretizer", "QuantitativeDiscretizer", "QualitativeDiscretizer", "ChainedDiscretizer",
           "BinaryCarver", "ContinuousCarver", "MulticlassCarver"]
CARVERS = ("BinaryCarver", "ContinuousCarver", "MulticlassCarver")
ALLOWED = {"Discretizer": ["quant", "cat", "ord"], "QuantitativeDiscretizer": ["quant"],
           "QualitativeDiscretizer": ["cat", "ord"], "ChainedDiscretizer": ["chain"],
           "BinaryCarver": ["quant", "cat", "ord"], "ContinuousCarver": ["quant", "cat", "ord"],
           "MulticlassCarver": ["quant", "cat", "ord"]}
CHAIN_LEVELS = [[["AB", ["a", "b"]], ["CD", ["c", "d"]], ["EF", ["e", "f"]]],
                [["ALL", ["AB", "CD", "EF"]]]]


# ------------------------------------------------------------------------------------------------
# generation
# ------------------------------------------------------------------------------------------------
def gen_quant(rng, n, flavour=None):
    """returns (values, flavour, numpy dtype)"""
    flavour = flavour or rng.choice(["uniform", "uniform", "intfloat", "intcol", "f32", "big", "tiny",
                                     "mixedmag", "negative", "halves", "yyyymm", "bigint"])
    dt = "float64"
    if flavour == "uniform":
        lo, hi = rng.choice([(0, 1), (-5, 5), (0, 1000), (-1e6, 1e6)])
        xs = [rng.uniform(lo, hi) for _ in range(n)]
    elif flavour == "intfloat":          # integer-valued floats: 2.0 must stay "2.0"
        k = rng.randint(2, 12)
        xs = [float(rng.randint(0, k)) for _ in range(n)]
    elif flavour == "intcol":            # int64 column: boundaries are numpy ints
        k = rng.randint(2, 30)
        xs = [rng.randint(-k, k) for _ in range(n)]
        dt = "int64"
    elif flavour == "bigint":
        xs = [rng.randint(0, 9) * 10 ** rng.randint(0, 17) for _ in range(n)]
        dt = "int64"
    elif flavour == "f32":               # float32 column: boundaries are numpy.float32
        xs = [float(np.float32(rng.uniform(-3, 3))) for _ in range(n)]
        dt = "float32"
    elif flavour == "big":
        xs = [rng.choice([1, -1]) * 10 ** rng.uniform(0, 300) for _ in range(n)]
    elif flavour == "tiny":
        xs = [rng.uniform(-1, 1) * 1e-300 for _ in range(n)]
    elif flavour == "mixedmag":          # 1e-300 .. 1e300 in one column
        xs = [rng.choice([1, -1]) * rng.uniform(1, 10) * 10 ** rng.choice([-300, -150, -5, 0, 5, 150, 300])
              for _ in range(n)]
    elif flavour == "negative":
        xs = [-abs(rng.gauss(0, 100)) for _ in range(n)]
    elif flavour == "yyyymm":
        base = rng.choice([202301, 199901])
        xs = [float(base + rng.randint(0, rng.randint(2, 11))) for _ in range(n)]
    else:
        xs = [rng.randint(-8, 8) / 2 for _ in range(n)]
    return xs, flavour, dt


def gen_cat(rng, n, flavour=None):
    flavour = flavour or rng.choice(["letters", "letters", "rare", "ints", "floats", "numstr", "mixed",
                                     "mixed"])
    dt = "object"
    if flavour == "letters":
        pool = list("abcdefgh")[:rng.randint(2, 8)]
        xs = [rng.choice(pool) for _ in range(n)]
    elif flavour == "rare":              # some modalities below min_freq -> default group
        pool = list("abcdefghij")[:rng.randint(4, 10)]
        xs = rng.choices(pool, weights=[2.0 ** (-i) for i in range(len(pool))], k=n)
    elif flavour == "ints":              # numeric-valued categories
        k = rng.randint(2, 6)
        xs = [rng.randint(1, k) for _ in range(n)]
        dt = rng.choice(["object", "int64"])
    elif flavour == "floats":
        pool = rng.sample([1.0, 2.0, 2.5, 10.0, -1.0, 0.25, 1e22, 1e-7], rng.randint(2, 5))
        xs = [rng.choice(pool) for _ in range(n)]
    elif flavour == "numstr":
        pool = ["1", "2", "10", "1.5", "03", "2.0"][:rng.randint(2, 6)]
        xs = [rng.choice(pool) for _ in range(n)]
    elif flavour == "sentinel":          # a category literally named like the inf sentinel
        pool = ["a", "b", SENTINEL] + list("cd")[:rng.randint(0, 2)]
        xs = [rng.choice(pool) for _ in range(n)]
    else:                                # numbers and strings in one column (never 1 with 1.0)
        pool = rng.sample([1, "1", 2, "2", "a", 2.5, "2.5", "x", 7], rng.randint(3, 6))
        xs = [rng.choice(pool) for _ in range(n)]
    return xs, flavour, dt


def gen_ord(rng, n):
    k = rng.randint(2, 7)
    order = [f"L{i}" for i in range(k)]
    xs = rng.choices(order, weights=[rng.choice([1, 1, 1, 0.15, 3]) for _ in order], k=n)
    present = [o for o in order if o in xs]
    if rng.random() < 0.7 and len(present) >= 2:
        order = present
    return xs, order


def inject_nan(rng, xs, share):
    return [NAN if rng.random() < share else x for x in xs]


def gen_target(rng, first_col, kind, n, mode):
    fin = [v for v in first_col if not C.is_nan(v)]
    if kind == "quant":
        srt = sorted(fin)
        rank = {v: i / max(1, len(srt) - 1) for i, v in enumerate(srt)}
        s = [rank.get(v, 0.9) if not C.is_nan(v) else 0.9 for v in first_col]
    else:
        keyed = sorted({repr(v) for v in fin})
        score = {k: i / max(1, len(keyed) - 1) for i, k in enumerate(keyed)}
        s = [score.get(repr(v), 0.9) for v in first_col]
    if mode == "continuous":
        return [float(round(10 * si + rng.gauss(0, 2))) for si in s]
    if mode == "multiclass":
        return [min(2, int(3 * si)) if rng.random() < 0.75 else rng.randint(0, 2) for si in s]
    return [1 if rng.random() < 0.15 + 0.6 * si else 0 for si in s]


def probe_cells(rng, f, m):
    """m cells per probe frame for one feature: (boundary, outside, nan, unseen)"""
    col = [v for v in decs(f["values"]) if not C.is_nan(v)]
    had_nan = len(col) < len(f["values"])
    kind = f["kind"]
    if kind == "quant":
        lo, hi = min(col), max(col)
        uniq = sorted(set(col))
        near = []
        for v in rng.sample(uniq, min(len(uniq), m)):
            near += [v, float(np.nextafter(float(v), math.inf)), float(np.nextafter(float(v), -math.inf))]
        inside = [rng.choice(near) for _ in range(m)]
        span = abs(float(hi) - float(lo)) or 1.0
        outside = [rng.choice([float(lo) - span, float(hi) + span, 1e308, -1e308, math.inf, -math.inf,
                               5e-324, 0.0, float(lo), float(hi)]) for _ in range(m)]
        unseen = [rng.uniform(float(lo), float(hi)) if math.isfinite(float(hi) - float(lo)) else float(lo)
                  for _ in range(m)]
        if f["dtype"] == "float32":
            inside = [float(np.float32(x)) for x in inside]
            unseen = [float(np.float32(x)) for x in unseen]
    else:
        uniq = []
        for v in col:
            if not any(v is u or (type(v) is type(u) and v == u) for u in uniq):
                uniq.append(v)
        inside = [rng.choice(uniq) for _ in range(m)]
        outside = [rng.choice(uniq) for _ in range(m)]
        unseen = [rng.choice(uniq + ["zzz", 99, 0.5, "inf", SENTINEL]) for _ in range(m)]
    nanf = [NAN if (rng.random() < 0.5) else rng.choice(inside) for _ in range(m)]
    if not had_nan and rng.random() < 0.5:
        nanf = list(inside)           # keep one NaN-free "nan" frame when NaN was not seen at fit
    return {"inside": encs(inside), "outside": encs(outside), "nan": encs(nanf), "unseen": encs(unseen)}


DEV_KINDS = ["rare_extreme", "rare_extreme", "rare_any", "missing", "small", "bootstrap"]


def gen_dev_rows(rng, feat, y, min_freq, kind):
    """row indices (into the training frame) of a dev sample whose per-modality frequencies differ
    from train.  Modalities = categories of the first feature, or equal-count value segments of a
    quantitative one.  rare_*: every other modality keeps all its rows (same target rates, hence
    the same ranking as on train) and one modality keeps 1..k rows, fewer than min_freq/2 of the
    dev sample (rare_extreme: the modality with the highest / lowest target rate, keeping rows that
    leave it highest / lowest); missing: one modality is absent from dev; small: a random 25-50 %
    subset; bootstrap: n rows drawn with replacement."""
    col = decs(feat["values"])
    n = len(col)
    idx = list(range(n))
    if kind == "small":
        return sorted(rng.sample(idx, max(8, int(n * rng.uniform(0.25, 0.5)))))
    if kind == "bootstrap":
        return sorted(rng.choices(idx, k=n))
    fin = [i for i in idx if not C.is_nan(col[i])]
    groups = {}
    if feat["kind"] == "quant":
        srt = sorted(fin, key=lambda i: col[i])
        m = rng.randint(3, 6)
        for r, i in enumerate(srt):
            groups.setdefault(min(m - 1, r * m // max(1, len(srt))), []).append(i)
    else:
        for i in fin:
            groups.setdefault(repr(col[i]), []).append(i)
    keys = sorted(groups, key=str)
    if len(keys) < 2:
        return sorted(rng.sample(idx, max(8, n // 2)))
    rate = {k: sum(y[i] for i in groups[k]) / len(groups[k]) for k in keys}
    if kind == "rare_extreme":
        top = rng.random() < 0.5
        g = max(keys, key=lambda k: rate[k]) if top else min(keys, key=lambda k: rate[k])
        cand = sorted(groups[g], key=lambda i: y[i], reverse=top)
    else:
        g = rng.choice(keys)
        cand = list(groups[g])
        rng.shuffle(cand)
    rest = [i for i in idx if i not in set(groups[g])]
    if kind == "missing":
        return rest
    kmax = max(1, int(0.45 * min_freq * (len(rest) + 1)) - 1)       # k / n_dev < min_freq / 2
    keep = cand[:rng.randint(1, max(1, min(kmax, 3)))]
    return sorted(rest + keep)


def gen_case(rng, cls=None, force=None):
    force = force or {}
    cls = cls or rng.choice(CLASSES)
    n = force.get("n") or rng.choice([40, 60, 80, 120, 200, 300])
    nfeat = force.get("nfeat") or rng.choice([1, 1, 2, 3])
    feats = []
    for i in range(nfeat):
        kind = force.get("kind") or rng.choice(ALLOWED[cls])
        if kind not in ALLOWED[cls]:
            kind = ALLOWED[cls][0]
        f = {"name": f"{kind[0]}{i}", "kind": kind}
        share = force.get("nan_share") or rng.choice([0, 0, 0.05, 0.15, 0.3])
        if kind == "quant":
            xs, fl, dt = gen_quant(rng, n, force.get("qflavour"))
            if dt == "int64":
                share = 0
        elif kind == "cat":
            xs, fl, dt = gen_cat(rng, n, force.get("cflavour"))
            if dt == "int64":
                share = 0
        elif kind == "chain":
            xs, fl, dt = rng.choices(list("abcdef"), weights=[8, 1, 4, 4, 1, 1], k=n), "chain", "object"
        else:
            xs, order = gen_ord(rng, n)
            f["order"] = encs(order)
            fl, dt = "ordinal", "object"
        if dt == "int64" and all(isinstance(v, (int, float)) and 0 <= v <= 120 and float(v).is_integer() for v in xs):
            dt = rng.choice(["int64", "int64", "int32", "int16", "int8", "uint8"])   # pd.Categorical.codes, counters
        f["flavour"], f["dtype"] = fl, dt
        f["values"] = encs(inject_nan(rng, xs, share))
        feats.append(f)
    mode = {"ContinuousCarver": "continuous", "MulticlassCarver": "multiclass"}.get(cls, "binary")
    params = {"min_freq": rng.choice([0.05, 0.1, 0.15, 0.2]),
              "output_dtype": rng.choice(["str", "float"]), "dropna": rng.choice([True, False])}
    if cls in CARVERS:
        params["max_n_mod"] = rng.choice([2, 3, 4, 5])
        if cls != "ContinuousCarver":
            params["sort_by"] = rng.choice(["tschuprowt", "cramerv"])
    if cls == "ChainedDiscretizer":
        params["unknown"] = rng.choice(["raise", "drop"])
    case = {"valid": True, "cls": cls, "params": params, "features": feats,
            "y": gen_target(rng, decs(feats[0]["values"]), feats[0]["kind"], n, mode)}
    if cls in CARVERS and (force.get("dev") or ("dev" not in force and rng.random() < 0.6)):
        # carver fitted WITH a dev sample (X_dev, y_dev): rows of the training frame
        kind = force.get("dev") if isinstance(force.get("dev"), str) else rng.choice(DEV_KINDS)
        case["dev"] = {"kind": kind, "rows": gen_dev_rows(rng, feats[0], case["y"], params["min_freq"], kind)}
    if "dropna" in force:
        params["dropna"] = force["dropna"]
    if cls not in CARVERS and (force.get("edit") or rng.random() < 0.35):
        # Discretizer classes hard-code output_dtype='str', dropna=True; the other configurations
        # are reached by loading the edited JSON of the fitted object (a BaseDiscretizer)
        case["edit"] = {"output_dtype": params["output_dtype"], "dropna": params["dropna"]}
    if "edit_op" in force or rng.random() < 0.15:
        # manual edit before dumping (update_discretizer); leaders are picked at run time.
        # "nan": missing values are grouped into an existing modality (only applied when NaN is
        # still a modality of its own, i.e. objects with dropna=False): this sets the feature's
        # features_dropna flag to True, which then differs from the global dropna
        case["edit_op"] = force.get("edit_op") or {"feat": rng.randrange(8), "pick": rng.randrange(100),
                                                   "mode": rng.choice(["group", "replace"]),
                                                   "kind": rng.choice(EDIT_KINDS)}
        if "more_edits" in force:
            case["more_edits"] = force["more_edits"]
        elif "edit_op" not in force and rng.random() < 0.4:
            case["more_edits"] = [{"feat": case["edit_op"]["feat"], "pick": rng.randrange(100),
                                   "mode": "group", "kind": rng.choice(EDIT_KINDS)}]
    m = 6
    probes = {k: {} for k in ("inside", "outside", "nan", "unseen")}
    for f in feats:
        pc = probe_cells(rng, f, m)
        for k in probes:
            probes[k][f["name"]] = pc[k]
    case["probes"] = probes
    return case


def hand_case(feats, valid=False, odt="str", dropna=True):
    """hand-made BaseDiscretizer state (witness stream): feats = [(name, kind, keys, content)]"""
    return {"valid": valid, "cls": "Base", "params": {"output_dtype": odt, "dropna": dropna},
            "features": [{"name": n, "kind": k, "flavour": "hand", "dtype": "object",
                          "hand": {"keys": encs(ks), "content": [[enc(a), encs(b)] for a, b in ct]},
                          "values": encs([v for _, b in ct for v in b if not isinstance(v, str) or k != "quant"])}
                         for n, k, ks, ct in feats],
            "y": [], "probes": {}}


# ------------------------------------------------------------------------------------------------
# running the implementation
# ------------------------------------------------------------------------------------------------
INT_DTYPES = ("int64", "int32", "int16", "int8", "uint8")


def build_frame(feats, columns=None, rows=None):
    """training frame (columns None), a subset of its rows (rows = indices, same dtypes) or a
    probe frame (columns = {name: encoded cells})"""
    import pandas as pd

    cols = {}
    for f in feats:
        vals = decs(columns[f["name"]]) if columns is not None else decs(f["values"])
        if rows is not None:
            vals = [vals[i] for i in rows]
        if f["kind"] == "quant":
            if f["dtype"] in INT_DTYPES and not any(C.is_nan(v) for v in vals) and columns is None:
                cols[f["name"]] = pd.Series(np.array([int(v) for v in vals], dtype=f["dtype"]))
            elif f["dtype"] == "float32":
                cols[f["name"]] = pd.Series(np.array([float(v) for v in vals], dtype=np.float32))
            else:
                cols[f["name"]] = pd.Series(np.array([float(v) for v in vals], dtype=float))
        elif f["dtype"] in INT_DTYPES and columns is None:
            cols[f["name"]] = pd.Series(np.array([int(v) for v in vals], dtype=f["dtype"]))
        else:
            cols[f["name"]] = pd.Series(list(vals), dtype=object)
    return pd.DataFrame(cols)


def fit_object(case):
    import pandas as pd
    from AutoCarver.carvers import BinaryCarver, ContinuousCarver, MulticlassCarver
    from AutoCarver.discretizers import (ChainedDiscretizer, Discretizer, GroupedList,
                                         QualitativeDiscretizer, QuantitativeDiscretizer)
    from AutoCarver.discretizers.utils.base_discretizers import BaseDiscretizer, load_discretizer

    cls, p, feats = case["cls"], case["params"], case["features"]
    if cls == "Base":
        vo, dtypes = {}, {}
        for f in feats:
            h = f["hand"]
            g = GroupedList(decs(h["keys"]))
            g.content = {dec(k): decs(vs) for k, vs in h["content"]}
            vo[f["name"]] = g
            dtypes[f["name"]] = "float" if f["kind"] == "quant" else "str"
        obj = BaseDiscretizer(features=[f["name"] for f in feats], values_orders=vo, input_dtypes=dtypes,
                              output_dtype=p["output_dtype"], dropna=p["dropna"], str_nan="__NAN__",
                              str_default="__OTHER__", copy=True, verbose=False)
        obj.fit()
        return obj
    X = build_frame(feats)
    y = pd.Series(case["y"])
    quant = [f["name"] for f in feats if f["kind"] == "quant"]
    cat = [f["name"] for f in feats if f["kind"] in ("cat", "chain")]
    ordi = [f["name"] for f in feats if f["kind"] == "ord"]
    orders = {f["name"]: GroupedList(decs(f["order"])) for f in feats if f["kind"] == "ord"}
    common = dict(copy=True, verbose=False)
    if cls == "Discretizer":
        obj = Discretizer(quantitative_features=quant, qualitative_features=cat, ordinal_features=ordi,
                          values_orders=orders, min_freq=p["min_freq"], **common)
    elif cls == "QuantitativeDiscretizer":
        obj = QuantitativeDiscretizer(quantitative_features=quant, min_freq=p["min_freq"], **common)
    elif cls == "QualitativeDiscretizer":
        obj = QualitativeDiscretizer(qualitative_features=cat, ordinal_features=ordi, values_orders=orders,
                                     min_freq=p["min_freq"], **common)
    elif cls == "ChainedDiscretizer":
        obj = ChainedDiscretizer(cat, p["min_freq"], [{k: list(vs) for k, vs in lv} for lv in CHAIN_LEVELS],
                                 unknown_handling=p["unknown"], **common)
    elif cls in CARVERS:
        kw = dict(min_freq=p["min_freq"], quantitative_features=quant, qualitative_features=cat,
                  ordinal_features=ordi, values_orders=orders, max_n_mod=p["max_n_mod"],
                  output_dtype=p["output_dtype"], dropna=p["dropna"], pretty_print=False, **common)
        if cls == "BinaryCarver":
            obj = BinaryCarver(sort_by=p["sort_by"], **kw)
        elif cls == "MulticlassCarver":
            obj = MulticlassCarver(sort_by=p["sort_by"], **kw)
        else:
            obj = ContinuousCarver(**kw)
    else:
        raise ValueError(cls)
    if cls == "ChainedDiscretizer":
        obj.fit(X)
    elif case.get("dev"):
        rows = case["dev"]["rows"]
        obj.fit(X, y, X_dev=build_frame(feats, rows=rows), y_dev=pd.Series([case["y"][i] for i in rows]))
    else:
        obj.fit(X, y)
    if case.get("edit"):
        js = json.loads(json.dumps(obj.to_json()))
        js["output_dtype"] = case["edit"]["output_dtype"]
        js["dropna"] = case["edit"]["dropna"]
        js["features_dropna"] = {f: case["edit"]["dropna"] for f in js["features"]}
        obj = load_discretizer(js)
    applied = []
    for op in [case.get("edit_op")] + list(case.get("more_edits", [])):
        if op:                               # manual edits (update_discretizer) before dumping
            applied.append(apply_edit(obj, op))
    obj._c06_edits_applied = applied
    return obj


NEW_VALUE = "zzz"        # a category never seen at fit (also present in the "unseen" probe frames)
EDIT_KINDS = ["merge", "replace_merge", "replace_member", "group_into_new", "group_new_value", "nan"]


def edit_kind(op):
    return op.get("kind") or ("nan" if op.get("nan") else ("merge" if op.get("mode") == "group"
                                                           else "replace_merge"))


def apply_edit(obj, op):
    """one update_discretizer call; leaders / members are picked at run time on the first feature
    (starting at op['feat']) where the edit applies.  Kinds:
      merge            group leader i into leader i+1                      (one group less)
      replace_merge    mode='replace' between two adjacent leaders          (one group less)
      replace_member   mode='replace': a member of a group becomes its leader      (same count)
      group_into_new   a qualitative group is grouped into a value that did not exist (same count)
      group_new_value  a value that did not exist is grouped into a qualitative group (same count)
      nan              missing values are grouped into a modality: NaN is a modality of its own
                       (dropna=False objects) or was never seen at fit (same count)
    Returns the kind when an edit was applied, None otherwise."""
    kind = edit_kind(op)
    names = list(obj.values_orders)
    if not names:
        return None
    k0 = op["feat"] % len(names)
    special = (obj.str_nan, obj.str_default)
    done = None
    for name in names[k0:] + names[:k0]:
        vo = obj.values_orders[name]
        qual = name in obj.qualitative_features
        leaders = [k for k in vo if k not in special]
        pick = op["pick"]
        if kind == "nan":
            own = obj.str_nan in list(vo) and list(vo.get(obj.str_nan)) == [obj.str_nan]
            unseen = not vo.contains(obj.str_nan)
            if leaders and (own or unseen):
                # (mode='replace' with a never-seen NaN is refused by update_discretizer: group only)
                obj.update_discretizer(name, op.get("mode", "group") if own else "group", NAN,
                                       leaders[pick % len(leaders)])
                done = kind
                if op.get("all"):
                    continue
        elif kind in ("merge", "replace_merge") and len(leaders) >= 2:
            i = pick % (len(leaders) - 1)
            obj.update_discretizer(name, "group" if kind == "merge" else "replace", leaders[i], leaders[i + 1])
            done = kind
        elif kind == "replace_member" and (qual or op.get("quant_ok")):
            groups = [(k, [m for m in vo.get(k) if m != k and m not in special and isinstance(m, str) == qual])
                      for k in leaders]
            groups = [(k, ms) for k, ms in groups if ms]
            if groups:
                k, ms = groups[pick % len(groups)]
                obj.update_discretizer(name, "replace", k, ms[pick % len(ms)])
                done = kind
        elif kind == "group_into_new" and qual and leaders and not vo.contains(NEW_VALUE):
            obj.update_discretizer(name, "group", leaders[pick % len(leaders)], NEW_VALUE)
            done = kind
        elif kind == "group_new_value" and qual and leaders and not vo.contains(NEW_VALUE):
            obj.update_discretizer(name, "group", NEW_VALUE, leaders[pick % len(leaders)])
            done = kind
        if done:
            break
    return done


class _Pairs(list):
    """a JSON object as the sequence of pairs that was written"""


def parse_pairs(text):
    return json.loads(text, object_pairs_hook=_Pairs)


def tree(x):
    if isinstance(x, _Pairs):
        return ["D", [[k, tree(v)] for k, v in x]]
    if isinstance(x, list):
        return ["L", [tree(v) for v in x]]
    if x is None:
        return ["N"]
    return ["A", enc(x)]


def base_number(k):
    if isinstance(k, (bool, np.bool_)):
        raise ValueError("bool value")
    if isinstance(k, (int, np.integer)):
        return int(k)
    return float(k)


def tables(keys):
    """CPython's own conversions for the finite numbers among keys: key string written by
    json.dumps, and str() of the number json.loads gives back"""
    jk, ps = [], []
    for k in keys:
        if isinstance(k, str) or C.is_nan(k) or (isinstance(k, (float, np.floating)) and math.isinf(k)):
            continue
        b = base_number(k)
        jk.append([enc(k), list(json.loads(json.dumps({b: 0})))[0]])
        ps.append([enc(k), str(json.loads(json.dumps(b)))])
    return jk, ps


def gl_state(g):
    return {"keys": encs(list(g)), "content": [[enc(k), encs(list(v))] for k, v in g.content.items()]}


def veq(a, b):
    if C.is_nan(a) and C.is_nan(b):
        return True
    if isinstance(a, str) != isinstance(b, str):
        return False
    try:
        return bool(a == b)
    except Exception:  # noqa: BLE001
        return False


def leq(xs, ys):
    return len(xs) == len(ys) and all(veq(a, b) for a, b in zip(xs, ys))


def run_transform(obj, X):
    try:
        out = obj.transform(X)
    except Exception as e:  # noqa: BLE001
        return C.exc_class(e), f"{type(e).__name__}: {str(e)[:120]}"
    return {"cols": [str(c) for c in out.columns], "dtypes": [str(t) for t in out.dtypes],
            "cells": {str(c): list(out[c]) for c in out.columns}}, None


def frames_differ(a, b):
    if isinstance(a, str) or isinstance(b, str):
        return None if a == b else f"{a if isinstance(a, str) else 'output'} vs {b if isinstance(b, str) else 'output'}"
    if a["cols"] != b["cols"]:
        return "columns differ"
    if a["dtypes"] != b["dtypes"]:
        return f"dtypes differ {a['dtypes']} vs {b['dtypes']}"
    for c in a["cols"]:
        for i, (x, y) in enumerate(zip(a["cells"][c], b["cells"][c])):
            if not veq(x, y):
                return f"column {c} row {i}: {x!r} vs {y!r}"
    return None


def summary_rows(obj):
    try:
        s = obj.summary().reset_index()
    except Exception as e:  # noqa: BLE001
        return C.exc_class(e)
    rows = []
    for _, r in s.iterrows():
        rows.append((str(r["feature"]), str(r["dtype"]), r["label"], list(r["content"])))
    return rows


def summaries_differ(a, b):
    if isinstance(a, str) or isinstance(b, str):
        return None if a == b else "summary: exception on one side only"
    if len(a) != len(b):
        return "summary: row count"
    for x, y in zip(a, b):
        if x[0] != y[0] or x[1] != y[1] or not veq(x[2], y[2]) or not leq(x[3], y[3]):
            return f"summary row {x!r} vs {y!r}"
    return None


ATTRS = ["input_dtypes", "output_dtype", "str_nan", "str_default", "dropna", "features_dropna",
         "features_casting", "copy", "is_fitted"]


def attrs_differ(o, r):
    for a in ATTRS:
        if getattr(o, a) != getattr(r, a):
            return f"attribute {a}: {getattr(o, a)!r} vs {getattr(r, a)!r}"
    for a in ("features", "quantitative_features", "qualitative_features"):
        if sorted(getattr(o, a)) != sorted(getattr(r, a)):
            return f"attribute {a}: {getattr(o, a)!r} vs {getattr(r, a)!r}"
    lo, lr = o.labels_per_values, r.labels_per_values
    if sorted(lo) != sorted(lr):
        return "labels_per_values: features"
    for f in lo:
        a, b = list(lo[f].items()), list(lr[f].items())
        if len(a) != len(b) or not all(veq(x[0], y[0]) and veq(x[1], y[1]) for x, y in zip(a, b)):
            return f"labels_per_values[{f}]: {a!r} vs {b!r}"
    return None


def struct_diff(a, b, path="to_json()"):
    """first difference between the dict returned by to_json() and json.loads(json.dumps(it)):
    dict keys must be strings, tuples count as lists, numbers by value (NaN equals NaN), booleans
    and None by identity of type"""
    if isinstance(a, dict):
        if not isinstance(b, dict):
            return f"{path}: dict vs {type(b).__name__}"
        if any(not isinstance(k, str) for k in a):
            return f"{path}: non-string key {[k for k in a if not isinstance(k, str)][:1]!r}"
        if list(a) != list(b):
            return f"{path}: keys {list(a)[:6]} vs {list(b)[:6]}"
        for k in a:
            d = struct_diff(a[k], b[k], f"{path}[{k!r}]")
            if d:
                return d
        return None
    if isinstance(a, (list, tuple)):
        if not isinstance(b, list) or len(a) != len(b):
            return f"{path}: sequence of {len(a)} vs {type(b).__name__}"
        for i, (x, y) in enumerate(zip(a, b)):
            d = struct_diff(x, y, f"{path}[{i}]")
            if d:
                return d
        return None
    if a is None or b is None or isinstance(a, (bool, np.bool_)) or isinstance(b, bool):
        same = (a is None and b is None) or (isinstance(a, (bool, np.bool_)) and isinstance(b, bool)
                                             and bool(a) == b)
        return None if same else f"{path}: {a!r} vs {b!r}"
    return None if veq(a, b) else f"{path}: {a!r} vs {b!r}"


def observe(case, obj):
    from AutoCarver.carvers import load_carver
    from AutoCarver.carvers.base_carver import BaseCarver
    from AutoCarver.discretizers.utils.base_discretizers import load_discretizer

    carver = isinstance(obj, BaseCarver)
    names = list(obj.values_orders)
    out = {"carver": carver, "klass": type(obj).__name__, "names": names, "serialisable": True,
           "text_names": [], "load": "not-run", "reload_names": [], "text2_names": [],
           "history1": False, "history2": False, "meta_diff": [], "behaviour_diff": [],
           "vo_text_same": True, "vo_json_same": True, "content_in_list_order": True,
           "loads_diff": None, "dev_rejects": 0}
    feats = []
    for n in names:
        g = obj.values_orders[n]
        jk, ps = tables(list(g) + list(g.content))
        feats.append({"name": n, "orig": gl_state(g), "jk": jk, "ps": ps, "text": ["N"], "reload": None,
                      "text2": ["N"]})
        if not leq(list(g), list(g.content)):
            out["content_in_list_order"] = False
    out["feats"] = feats
    out["edits_applied"] = [k for k in getattr(obj, "_c06_edits_applied", []) if k]
    out["features_dropna_differs_from_dropna"] = any(bool(v) != bool(obj.dropna)
                                                     for v in obj.features_dropna.values())
    try:
        j = obj.to_json()
        txt = json.dumps(j)
    except Exception as e:  # noqa: BLE001
        out["serialisable"] = False
        out["dump_error"] = f"{type(e).__name__}: {str(e)[:160]}"
        return out
    j1 = json.loads(txt)
    out["history1"] = "_history" in j1
    out["loads_diff"] = struct_diff(j, j1)        # json.loads gives back an equal structure
    hist = getattr(obj, "_history", None) or {}
    msgs = [str(m) for recs in hist.values() for rec in recs for m in (rec.get("viability_message") or [])]
    out["dev_rejects"] = sum(1 for m in msgs if "X_dev" in m)

    def split(text, key):
        try:
            top = parse_pairs(text)
        except Exception:  # noqa: BLE001
            return []
        if not isinstance(top, _Pairs):
            return []
        seen = {}
        for k, v in top:
            seen.setdefault(k, tree(v))
        for f in feats:
            if f["name"] in seen:
                f[key] = seen[f["name"]]
        return [k for k, _ in top]

    out["text_names"] = split(j1.get("values_orders", "null"), "text")
    try:
        r = (load_carver if carver else load_discretizer)(json.loads(txt))
        out["load"] = "ok"
    except Exception as e:  # noqa: BLE001
        out["load"] = C.exc_class(e)
        out["load_error"] = f"{type(e).__name__}: {str(e)[:160]}"
        return out
    out["reload_names"] = list(r.values_orders)
    for f in feats:
        if f["name"] in r.values_orders:
            f["reload"] = gl_state(r.values_orders[f["name"]])
    # second dump
    try:
        j2 = json.loads(json.dumps(r.to_json()))
    except Exception as e:  # noqa: BLE001
        out["meta_diff"].append(f"second dump failed: {type(e).__name__}")
        j2 = {}
    out["history2"] = "_history" in j2
    out["text2_names"] = split(j2.get("values_orders", "null"), "text2")
    out["vo_text_same"] = j1.get("values_orders") == j2.get("values_orders")
    try:        # same JSON value (object key order ignored)?
        out["vo_json_same"] = json.loads(j1["values_orders"]) == json.loads(j2["values_orders"])
    except Exception:  # noqa: BLE001
        out["vo_json_same"] = False
    for k in sorted(set(j1) | set(j2)):
        if k in ("values_orders", "_history"):
            continue
        a, b = j1.get(k, "<missing>"), j2.get(k, "<missing>")
        if k == "features" and isinstance(a, list) and isinstance(b, list):
            if a != b:
                out["features_order_differs"] = True
            a, b = sorted(a), sorted(b)          # list(set(features)): an unordered collection
        if a != b:
            out["meta_diff"].append(k)
    if out["history1"] and out["history2"] and j1.get("_history") != j2.get("_history"):
        out["meta_diff"].append("_history")
    # behaviour
    d = attrs_differ(obj, r)
    if d:
        out["behaviour_diff"].append(d)
    if carver and getattr(r, "_history", None) != j1.get("_history"):
        out["behaviour_diff"].append("the _history attribute of the reloaded carver is not the saved history")
    if case["cls"] != "Base":
        frames = [("train", None)] + [(k, case["probes"][k]) for k in sorted(case.get("probes", {}))]
        kinds = {}
        for tag, cols in frames:
            a, ea = run_transform(obj, build_frame(case["features"], cols))
            b, eb = run_transform(r, build_frame(case["features"], cols))
            kinds[tag] = a if isinstance(a, str) else "ok"
            d = frames_differ(a, b)
            if d:
                out["behaviour_diff"].append(f"transform[{tag}]: {d} ({ea} / {eb})")
        out["transform_kinds"] = kinds
    d = summaries_differ(summary_rows(obj), summary_rows(r))
    if d:
        out["behaviour_diff"].append(d)
    return out


def has_sentinel(case):
    for f in case["features"]:
        if any(t == ["s", SENTINEL] for t in f["values"]):
            return True
    return False


# ------------------------------------------------------------------------------------------------
# Coq encoding
# ------------------------------------------------------------------------------------------------
def numbers_in_tree(t, acc):
    if t[0] == "A":
        acc.append(dec(t[1]))
    elif t[0] == "L":
        for x in t[1]:
            numbers_in_tree(x, acc)
    elif t[0] == "D":
        for _, x in t[1]:
            numbers_in_tree(x, acc)


_BIGNUM = re.compile(r"(?<![\w.])\d{19,}(?![\w.])")


def hexify(txt):
    """long decimal literals -> hexadecimal ones (fast to parse); string literals untouched"""
    parts = txt.split('"')
    for i in range(0, len(parts), 2):
        parts[i] = _BIGNUM.sub(lambda m: hex(int(m.group(0))), parts[i])
    return '"'.join(parts)


def coq_feat(f):
    """one feature; its numbers are scaled by the feature's own power of two (the model never
    compares numbers of two features)"""
    nums = []
    for st in (f["orig"], f["reload"]):
        if st:
            nums += decs(st["keys"])
            for k, xs in st["content"]:
                nums += [dec(k)] + decs(xs)
    numbers_in_tree(f["text"], nums)
    numbers_in_tree(f["text2"], nums)
    sc = C.Scale(0).fit([x for x in nums if not isinstance(x, str) and x is not None])

    def v(t):
        return C.cval(dec(t), sc)

    def vs(ts):
        return C.clist([v(t) for t in ts])

    def gl(st):
        if st is None:
            return "(mkGL [] [])"
        return f"(mkGL {vs(st['keys'])} {C.clist([C.cpair(v(k), vs(x)) for k, x in st['content']])})"

    def jv(t):
        if t[0] == "A":
            return f"(JAtom {v(t[1])})"
        if t[0] == "N":
            return "JNone"
        if t[0] == "L":
            return f"(JList {C.clist([jv(x) for x in t[1]])})"
        return f"(JDict {C.clist([C.cpair('(VStr ' + C.cstr(k) + ')', jv(x)) for k, x in t[1]])})"

    def tbl(rows):
        return C.clist([C.cpair(v(k), C.cstr(s)) for k, s in rows])

    return (f"mkFeat (VStr {C.cstr(f['name'])}) {tbl(f['jk'])} {tbl(f['ps'])} {gl(f['orig'])} {jv(f['text'])} "
            f"{gl(f['reload'])} {jv(f['text2'])}")


def coq_case(case, out):
    def names(ns):
        return C.clist([f"(VStr {C.cstr(str(n))})" for n in ns])

    feats = C.clist([coq_feat(f) for f in out["feats"]])
    load = {"ok": f"(Ok {names(out['reload_names'])})", "assert": "AssertErr", "internal": "InternalErr",
            "not-run": "InternalErr"}[out["load"]]
    return (f"mkCase {C.cbool(case.get('valid', True))} {C.cbool(out['carver'])} {feats} "
            f"{C.cbool(out['serialisable'])} {names(out['text_names'])} {load} {names(out['text2_names'])} "
            f"{C.cbool(out['history1'])} {C.cbool(out['history2'])} {C.cbool(not out['meta_diff'])} "
            f"{C.cbool(not out['behaviour_diff'])}")


# ------------------------------------------------------------------------------------------------
# python-side predicate
# ------------------------------------------------------------------------------------------------
def problems_of(case, out):
    """the clauses of the property that fail on the implementation's own output"""
    if not case.get("valid", True):
        return []
    if not out["serialisable"]:
        return [("not_serialisable", out.get("dump_error", ""))]
    if out.get("loads_diff"):
        return [("loads_not_equal", out["loads_diff"])]
    if out["load"] != "ok":
        return [("load_raised", out.get("load_error", out["load"]))]
    pr = []
    if out["reload_names"] != out["names"]:
        pr.append(("reloaded_features_differ", f"{out['names']} vs {out['reload_names']}"))
    for f in out["feats"]:
        o, r = f["orig"], f["reload"]
        if r is None:
            continue
        ko, kr = decs(o["keys"]), decs(r["keys"])
        same = leq(ko, kr)
        if same:
            co = {json.dumps(k): decs(x) for k, x in o["content"]}
            cr = {json.dumps(k): decs(x) for k, x in r["content"]}
            same = sorted(co) == sorted(cr) and all(leq(co[k], cr[k]) for k in co)
        if not same:
            pr.append(("values_orders_differ",
                       f"feature {f['name']}: list {ko!r} -> {kr!r}; content "
                       f"{[(dec(k), decs(x)) for k, x in o['content']]!r} -> "
                       f"{[(dec(k), decs(x)) for k, x in r['content']]!r}"))
    if not out["vo_text_same"]:
        if out.get("vo_json_same"):
            pr.append(("second_dump_values_orders_key_order",
                       "the values_orders text of the reloaded object lists the content keys in another order"))
        else:
            pr.append(("second_dump_values_orders_differ", ""))
    if out["meta_diff"]:
        pr.append(("second_dump_entries_differ", ",".join(out["meta_diff"])))
    if out["history1"] != out["history2"]:
        pr.append(("history_dropped", "to_json() of the reloaded object has no _history"))
    for d in out["behaviour_diff"]:
        pr.append(("behaviour_differs", d))
    return pr



def canonical_o6_case():
    """smallest carver case: one quantitative feature, 40 rows"""
    import random

    rng = random.Random(6)
    c = gen_case(rng, "BinaryCarver", {"n": 40, "nfeat": 1, "kind": "quant", "qflavour": "halves"})
    c.pop("edit_op", None)
    return c


def canonical_sentinel_case():
    """smallest object with a category literally named "numpy.inf": one qualitative feature"""
    import random

    rng = random.Random(66)
    c = gen_case(rng, "QualitativeDiscretizer", {"n": 40, "nfeat": 1, "kind": "cat", "cflavour": "sentinel"})
    c.pop("edit", None)
    c.pop("edit_op", None)
    return c


def canonical_edit_case():
    """smallest object edited with update_discretizer(mode='replace') before dumping"""
    import random

    rng = random.Random(67)
    c = gen_case(rng, "QuantitativeDiscretizer", {"n": 60, "nfeat": 1, "kind": "quant", "qflavour": "uniform",
                                                  "edit_op": {"feat": 0, "pick": 0, "mode": "replace"}})
    c.pop("edit", None)
    return c


def dev_rare_case(cls="BinaryCarver"):
    """carver fitted with a dev sample: categories A/B/C, 100 rows each on train (target rates
    0.1 / 0.5 / 0.9), dev = 100 / 100 / 5 rows: [A][B][C] is viable on train, has the same ranking
    on dev, but C is 2.4 % of dev < min_freq / 2: a combination is rejected on the dev frequency"""
    import random

    rng = random.Random(68)
    col, y = [], []
    for cat, rate in (("A", 0.1), ("B", 0.5), ("C", 0.9)):
        n_pos = int(round(100 * rate))
        col += [cat] * 100
        y += [1] * n_pos + [0] * (100 - n_pos)
    if cls == "ContinuousCarver":
        y = [float(v * 10 + (i % 3)) for i, v in enumerate(y)]
    if cls == "MulticlassCarver":      # three classes, each category mostly one of them
        y = []
        for main in (0, 1, 2):
            y += [main] * 80 + [(main + 1) % 3] * 10 + [(main + 2) % 3] * 10
    f = {"name": "c0", "kind": "cat", "flavour": "letters", "dtype": "object", "values": encs(col)}
    params = {"min_freq": 0.1, "output_dtype": "str", "dropna": True, "max_n_mod": 3}
    if cls != "ContinuousCarver":
        params["sort_by"] = "cramerv"
    pc = probe_cells(rng, f, 6)
    return {"valid": True, "cls": cls, "params": params, "features": [f], "y": y,
            "dev": {"kind": "rare_extreme", "rows": list(range(200)) + list(range(200, 205))},
            "probes": {k: {"c0": pc[k]} for k in pc}}


class C06(Prop):
    pid = "C06"
    theorems = ["C06_roundtrip_feature", "C06_roundtrip_state", "C06_roundtrip_behaviour", "C06_normalise",
                "C06_roundtrip_idempotent", "C06_serialize_normalise", "C06_loads_dumps_plain",
                "C06_witness_key_collision", "C06_witness_sentinel_category", "C06_witness_neg_inf",
                "C06_witness_str_differs_from_key", "C06_witness_unordered_content", "C06_checker_sound"]
    rule = ("signature = class | feature kinds+flavours | config | which clauses of the property fail | "
            "transform outcome per probe frame | content dict in list order")
    assumptions = [
        "numbers are identified by value (1, 1.0, numpy.int64(1) are one model value); CPython's key "
        "conversion in json.dumps and str() of the reloaded number are per-feature tables computed by "
        "CPython itself",
        "the other JSON entries (features, features_casting, input_dtypes, output_dtype, str_nan, "
        "str_default, dropna, features_dropna, copy, _history) are one opaque JSON object in the model: "
        "json round trip of plain data is proved (C06_loads_dumps_plain), their Python-side equality is "
        "checked directly; `features` is compared as a set (the constructor does list(set(features)))",
        "behaviour equality on ALL frames is the corollary `behaviour is a function of the state` "
        "(C06_roundtrip_behaviour); that transform/summary read nothing else is checked by sampling "
        "(train frame + 4 unseen frames per case), not proved here",
        "feature names are strings other than 'numpy.inf'",
    ]
    trusted_extra = ["json module of CPython (text <-> tree), pandas transform glue"]

    # ---- cases --------------------------------------------------------------------------------
    def corpus(self):
        import random

        inf = math.inf
        cs = [canonical_o6_case(), canonical_sentinel_case(), canonical_edit_case(),
              dev_rare_case("BinaryCarver"), dev_rare_case("ContinuousCarver"), dev_rare_case("MulticlassCarver")]
        rng = random.Random(606)
        cs.append(gen_case(rng, "QualitativeDiscretizer", {"n": 80, "nfeat": 1, "kind": "cat",
                                                           "cflavour": "sentinel"}))
        cs.append(gen_case(rng, "QuantitativeDiscretizer", {"n": 80, "nfeat": 1, "kind": "quant",
                                                            "qflavour": "mixedmag"}))
        cs.append(gen_case(rng, "MulticlassCarver", {"n": 120, "nfeat": 2}))
        # witnesses of Properties/C06.v replayed on the implementation (hand-made states: only the
        # agreement model <-> implementation is demanded, valid = False)
        cs.append(hand_case([("c", "cat", [1, "1"], [(1, [1]), ("1", ["1"])])]))
        cs.append(hand_case([("c", "cat", ["a", SENTINEL], [("a", ["a"]), (SENTINEL, [SENTINEL])])]))
        cs.append(hand_case([("q", "quant", [-inf, 2.5, inf], [(-inf, [-inf]), (2.5, [1, 2.5]), (inf, [inf])])]))
        cs.append(hand_case([("c", "cat", ["b", "c"], [("c", ["c"]), ("b", ["a", "b"])])]))
        cs.append(hand_case([("q", "quant", [1, 2.5, inf, "__NAN__"],
                              [(1, [1]), (2.5, [2, 2.5]), (inf, [inf]), ("__NAN__", ["__NAN__"])]),
                             ("c", "cat", ["b", "__OTHER__"],
                              [("b", ["a", 1, "1", "b"]), ("__OTHER__", ["c", "__OTHER__"])])], valid=True))
        return cs

    def generate(self, rng, tier):
        n = 150 if tier != "thorough" else 2400
        cases = []
        for i in range(n):
            cls = CLASSES[i % len(CLASSES)] if i < 4 * len(CLASSES) else None
            force = {}
            r = rng.random()
            if i % 10 == 4:
                # family: carvers fitted with a dev sample on which one modality (highest / lowest
                # target rate) is rarer than min_freq / 2 while the ranking is the one of train
                cls = rng.choice(list(CARVERS))
                force = {"dev": "rare_extreme", "nfeat": 1, "n": rng.choice([120, 200, 300]),
                         "kind": rng.choice(["cat", "cat", "ord", "quant"])}
                if force["kind"] == "cat":
                    force["cflavour"] = rng.choice(["letters", "ints", "mixed", "numstr"])
            elif i % 10 == 7:
                # family: objects edited with update_discretizer after fit (one or two edits, every
                # class, both output dtypes), then the round trip.  Edits that keep the number of
                # groups (new leader, new value, never-seen NaN) are over-represented.
                cls = rng.choice(CLASSES[:3] + list(CARVERS))
                first = rng.choice(["merge", "replace_member", "group_into_new", "group_new_value", "nan",
                                    "replace_member", "group_into_new"])
                ops = [{"feat": rng.randrange(8), "pick": rng.randrange(100), "mode": "group", "kind": first}]
                if first == "replace_member" or rng.random() < 0.5:
                    # a merge first, so that a group with several members exists
                    ops = [{"feat": ops[0]["feat"], "pick": rng.randrange(100), "mode": "group",
                            "kind": rng.choice(["merge", "replace_merge"])}] + ops
                kinds = [k for k in ALLOWED[cls] if k != "quant"] or ["quant"]
                force = {"edit_op": ops[0], "more_edits": ops[1:], "kind": rng.choice(kinds), "nfeat": 1,
                         "n": rng.choice([80, 120, 200]), "edit": rng.random() < 0.5}
                if cls == "QuantitativeDiscretizer":
                    ops[-1]["kind"] = rng.choice(["nan", "merge", "replace_merge"])
                    force["nan_share"] = 0
            elif i % 10 == 9:
                # family: objects with dropna=False whose missing values are manually grouped before
                # dumping (features_dropna then differs from the global dropna)
                cls = rng.choice(["BinaryCarver", "ContinuousCarver", "MulticlassCarver", "Discretizer",
                                  "QuantitativeDiscretizer", "QualitativeDiscretizer"])
                kinds = [k for k in ALLOWED[cls] if k != "ord"]
                force = {"dropna": False, "edit": True, "nan_share": rng.choice([0.1, 0.2, 0.3]),
                         "kind": rng.choice(kinds), "n": rng.choice([80, 120, 200]),
                         "edit_op": {"feat": rng.randrange(8), "pick": rng.randrange(100), "nan": True,
                                     "mode": rng.choice(["group", "group", "replace"]),
                                     "all": rng.random() < 0.5}}
            elif r < 0.02:
                cls, force = rng.choice(["QualitativeDiscretizer", "Discretizer", "BinaryCarver"]), \
                    {"kind": "cat", "cflavour": "sentinel"}
            cases.append(gen_case(rng, cls, force))
        return cases

    def search_cases(self, rng, neighbours, rnd):
        return [gen_case(rng) for _ in range(120)]

    # ---- implementation -----------------------------------------------------------------------
    def run_impl(self, case):
        try:
            obj = fit_object(case)
        except Exception as e:  # noqa: BLE001   (fit failures belong to C08 / C17)
            return {"skip": f"fit raised {C.exc_class(e)}: {type(e).__name__}: {str(e)[:80]}"}
        return observe(case, obj)

    def oracle(self, case, out):
        pr = problems_of(case, out)
        if not pr:
            return True, ""
        return False, "; ".join(f"{k}: {d}"[:300] for k, d in pr)

    def coq_shards(self, cases, outs):
        shards = []
        for part in chunks(list(zip(cases, outs)), 12):
            body = ";\n  ".join(coq_case(c, o) for c, o in part)
            shards.append(hexify(
                "From AC.Model Require Import Base GroupedList Json CheckC06.\nOpen Scope string_scope.\n"
                f"Definition cases : list c06case := [\n  {body}\n].\n"
                "Eval vm_compute in map verdict cases.\n"))
        return shards

    # ---- evidence / findings --------------------------------------------------------------------
    def signature(self, case, out):
        if "feats" not in out:
            return None
        kinds = ",".join(sorted(f"{f['kind']}:{f['flavour']}" for f in case["features"]))
        p = case["params"]
        dv = case.get("dev", {}).get("kind", "-") + ("+rej" if out.get("dev_rejects") else "")
        cfg = (f"{p.get('output_dtype')}/{p.get('dropna')}/{'edit' if case.get('edit') else '-'}/"
               f"{'+'.join(out.get('edits_applied', [])) or '-'}/"
               f"fd={out.get('features_dropna_differs_from_dropna')}/dev={dv}")
        pr = ",".join(sorted({k for k, _ in problems_of(case, out)})) or "holds"
        tk = ",".join(f"{k}={v}" for k, v in sorted(out.get("transform_kinds", {}).items()))
        return f"{case['cls']}|{kinds}|{cfg}|{pr}|{tk}|{out.get('content_in_list_order')}"

    def finding_signatures(self, case, out, msg):
        """one signature per root cause present in the case, provided these causes explain EVERY
        failing clause (otherwise the failure is something else: no signature)"""
        kinds = {k for k, _ in problems_of(case, out)} if isinstance(out, dict) and "feats" in out else set()
        causes = []
        if "history_dropped" in kinds:
            causes.append(("reloaded_carver_to_json_drops_history", {"history_dropped"}))
        ops = [op for op in [case.get("edit_op")] + list(case.get("more_edits", [])) if op]
        if (any(edit_kind(op).startswith("replace") for op in ops)
                and "second_dump_values_orders_key_order" in kinds):
            causes.append(("edited_leader_content_key_order", {"second_dump_values_orders_key_order"}))
        sent = {"values_orders_differ", "load_raised", "behaviour_differs", "second_dump_values_orders_differ"}
        if has_sentinel(case) and kinds & sent:
            causes.append(("category_named_numpy_inf", sent))
        explained = set().union(*[k for _, k in causes]) if causes else set()
        if not kinds or not kinds <= explained:
            return []
        return [name for name, _ in causes]

    def shrink(self, case, out, msg):
        kinds = {k for k, _ in problems_of(case, out)}

        def fails_same(c):
            o = self.run_impl(c)
            if "feats" not in o:
                return None
            if {k for k, _ in problems_of(c, o)} == kinds:
                return o
            return None

        sigs = self.finding_signatures(case, out, msg)
        for sig, canon in (("category_named_numpy_inf", canonical_sentinel_case),
                           ("edited_leader_content_key_order", canonical_edit_case),
                           ("reloaded_carver_to_json_drops_history", canonical_o6_case)):
            if sig in sigs:     # a known root cause: its smallest instance
                c = canon()
                o = self.run_impl(c)
                if "feats" in o and sig in self.finding_signatures(c, o, ""):
                    return c, o, self.oracle(c, o)[1]
        best = (case, out, msg)
        cur = case
        # fewer features (the first one drives the target: kept)
        for i in range(len(cur["features"]) - 1, 0, -1):
            cand = json.loads(json.dumps(cur))
            name = cand["features"][i]["name"]
            del cand["features"][i]
            for k in cand.get("probes", {}):
                cand["probes"][k].pop(name, None)
            o = fails_same(cand)
            if o is not None:
                cur, best = cand, (cand, o, self.oracle(cand, o)[1])
        # fewer rows
        for _ in range(3):
            n = len(cur["y"])
            if n < 50:
                break
            cand = json.loads(json.dumps(cur))
            cand["y"] = cand["y"][:n // 2]
            if cand.get("dev"):
                cand["dev"]["rows"] = [i for i in cand["dev"]["rows"] if i < n // 2]
            for f in cand["features"]:
                f["values"] = f["values"][:n // 2]
            o = fails_same(cand)
            if o is None:
                break
            cur, best = cand, (cand, o, self.oracle(cand, o)[1])
        return best

    def distribution(self, cases, outs):
        h = {"class": {}, "flavour": {}, "rows": {}, "n_features": {}, "config": {}, "problems": {},
             "load": {}, "transform_outcomes": {}, "skipped": 0, "features_order_differs_in_second_dump": 0,
             "content_dict_not_in_list_order": 0, "witness_stream": 0}

        def inc(d, k):
            d[k] = d.get(k, 0) + 1

        for c, o in zip(cases, outs):
            if not isinstance(o, dict) or "feats" not in o:
                h["skipped"] += 1
                continue
            if not c.get("valid", True):
                h["witness_stream"] += 1
            inc(h["class"], c["cls"])
            inc(h["rows"], str(len(c["y"])))
            inc(h["n_features"], str(len(o["feats"])))
            p = c["params"]
            inc(h["config"], f"{p.get('output_dtype')}/{p.get('dropna')}")
            for f in c["features"]:
                inc(h["flavour"], f"{f['kind']}:{f['flavour']}")
            inc(h["load"], o["load"])
            for k, _ in problems_of(c, o):
                inc(h["problems"], k)
            for k, v in o.get("transform_kinds", {}).items():
                inc(h["transform_outcomes"], f"{k}:{v}")
            if o.get("features_order_differs"):
                h["features_order_differs_in_second_dump"] += 1
            if not o.get("content_in_list_order", True):
                h["content_dict_not_in_list_order"] += 1
            for k in o.get("edits_applied", []):
                inc(h.setdefault("edits_applied_before_dumping", {}), f"{k}/{c['params'].get('output_dtype')}")
            if c.get("dev"):
                d = h.setdefault("carvers_fitted_with_dev_sample", {})
                inc(d, c["dev"]["kind"])
                if o.get("dev_rejects"):
                    inc(d, "cases_with_a_combination_rejected_on_dev")
            if o.get("features_dropna_differs_from_dropna"):
                h["features_dropna_differs_from_dropna"] = h.get("features_dropna_differs_from_dropna", 0) + 1
            if c["cls"] == "MulticlassCarver":
                h["non_trivial_features_casting"] = h.get("non_trivial_features_casting", 0) + 1
        return h


PROP = C06()
