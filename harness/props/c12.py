"""C12 — MulticlassCarver equals one-vs-rest BinaryCarvers."""
import common as C
from props.base import NAN, Prop, chunks, dec, decs, enc, encs
from props.c01 import F, coq_case, gen_case, mk_frame, run_fit
from props.c02 import key


def gen12(rng):
    base = gen_case(rng, kind=rng.choice(["plain", "plain", "dev", "boundary", "tied_rates"]))
    while base["carver"] != "binary":
        base = gen_case(rng, kind=rng.choice(["plain", "plain", "dev", "boundary"]))
    classes = rng.choice([[9, 10, 11], [0, 1, 2], ["A", "B", "C", "D"], [1, 2, 10, 20, 3], ["x", "Y", "z"],
                          [100, 20, 3]])
    k = len(classes)

    def relabel(col, ys):
        out = []
        for t, v in zip(col, ys):
            # class depends on the modality (through the binary draw) and on chance
            j = (v * (k // 2) + rng.randrange(k)) % k if rng.random() < 0.7 else rng.randrange(k)
            out.append(classes[j])
        for j, c in enumerate(classes):  # every class present
            if c not in out and len(out) > j:
                out[j] = c
        return out

    base["y"] = encs(relabel(base["X"], base["y"]))
    if base["Xdev"] is not None:
        base["ydev"] = encs(relabel(base["Xdev"], base["ydev"]))
    base["carver"] = "multiclass"
    # custom sentinel strings (kwargs) must reach the per-class carvers; rare categories make the
    # default group visible in the labels
    base["kwargs"] = {}
    if rng.random() < 0.4:
        base["kwargs"] = rng.choice([{"str_default": "RARE"}, {"str_nan": "MISSING"},
                                     {"str_default": "RARE", "str_nan": "MISSING"}])
    if base["ftype"] == "categ" and rng.random() < 0.6:
        X = list(base["X"])
        for i in rng.sample(range(len(X)), min(len(X), rng.randint(1, 3))):
            if X[i] != ["nan"]:
                X[i] = enc(rng.choice(["zz", "yy"]))
        base["X"] = X
        if rng.random() < 0.5:
            base["output_dtype"] = "str"
    if base["ftype"] == "categ" and rng.random() < 0.35:
        # a previous discretization handed over: string modalities pre-grouped two by two
        mods = sorted({dec(t) for t in base["X"] if t != ["nan"] and isinstance(dec(t), str)})
        if len(mods) >= 3 and all(isinstance(dec(t), str) for t in base["X"] if t != ["nan"]):
            rng.shuffle(mods)
            groups = [mods[i:i + 2] for i in range(0, len(mods), 2)]
            base["pregroup"] = [[enc(g[0]), encs(g)] for g in groups]
    if rng.random() < 0.6 and base["min_freq_mod"] is None:
        base["min_freq_mod"] = rng.choice([base["min_freq"], base["min_freq"] / 4, base["min_freq"] * 0.8])
    return base


def derived(case, cls):
    d = dict(case)
    d["carver"] = "binary"
    d["y"] = [1 if str(dec(t)) == cls else 0 for t in case["y"]]
    if case["Xdev"] is not None:
        d["ydev"] = [1 if str(dec(t)) == cls else 0 for t in case["ydev"]]
    return d


class C12(Prop):
    pid = "C12"
    theorems = ["C12_classes_all_but_the_smallest", "C12_multiclass_is_one_vs_rest",
                "C12_column_kept_iff_binary_keeps"]
    rule = ("one MulticlassCarver fit per case (3-5 classes: ints whose string order differs from the "
            "numeric one, or strings; optional dev sample; all BinaryCarver parameters incl. explicit "
            "min_freq_mod) compared column by column with independently fitted BinaryCarvers on the "
            "indicators, and with the model (one-vs-rest over sorted string classes of the carving "
            "model); non-trivial = at least one class column kept; distinct = (classes, feature type, "
            "dev?, per-class kept pattern, #groups) signature")
    assumptions = ["the per-class comparison uses the same tie tolerance as C01"]

    def generate(self, rng, tier):
        return [gen12(rng) for _ in range(70 if tier == "quick" else 1200)]

    def search_cases(self, rng, neighbours, rnd):
        return [gen12(rng) for _ in range(60)]

    def run_impl(self, case):
        import pandas as pd
        from AutoCarver import MulticlassCarver
        out = {}
        y = pd.Series(decs(case["y"]))
        classes = list(y.astype(str).unique())
        out["classes"] = classes
        kw = dict(min_freq=case["min_freq"], max_n_mod=case["max_n_mod"], min_freq_mod=case["min_freq_mod"],
                  dropna=case["dropna"], output_dtype=case["output_dtype"], copy=True, verbose=False)
        kw.update(case.get("kwargs", {}))
        ft = case["ftype"]
        if ft == "quant":
            kw["quantitative_features"] = [F]
        elif ft == "categ":
            kw["qualitative_features"] = [F]
            if case.get("pregroup"):
                from props.c01 import pregroup_of
                kw["values_orders"] = {F: pregroup_of(case)}
        else:
            kw["ordinal_features"] = [F]
            kw["values_orders"] = {F: decs(case["order"])}
        X = mk_frame(case["X"])
        has_dev = case["Xdev"] is not None
        try:
            mc = MulticlassCarver(sort_by=case["sort_by"], **kw)
            if has_dev:
                mc.fit(X, y, X_dev=mk_frame(case["Xdev"]), y_dev=pd.Series(decs(case["ydev"])))
            else:
                mc.fit(X, y)
        except AssertionError:
            out["fit"] = "assert"
            return out
        except Exception as e:  # noqa: BLE001
            out["fit"] = "internal"
            out["error"] = f"{type(e).__name__}: {e}"[:300]
            return out
        out["fit"] = "ok"
        out["fitted"] = list(mc._history.keys())
        # mc.features is list(set(...)): its order is hash dependent and not part of the property
        out["columns"] = [f for f in out["fitted"] if f in mc.features]
        out["columns_extra"] = [f for f in mc.features if f not in out["fitted"]]
        X0 = mk_frame(case["X"])
        try:
            Xt = mc.transform(mk_frame(case["X"]))
        except Exception as e:  # noqa: BLE001
            out["fit"] = "internal"
            out["error"] = f"transform of the training frame raised {type(e).__name__}: {e}"[:300]
            return out
        out["raw_present"] = F in Xt.columns
        out["raw_unchanged"] = out["raw_present"] and bool(
            ((Xt[F] == X0[F]) | (Xt[F].isna() & X0[F].isna())).all())
        # transforming an already transformed frame again must refresh the per-class copies
        try:
            Xt2 = mc.transform(Xt.copy())
            out["retransform_same"] = all(
                bool(((Xt2[c] == Xt[c]) | (Xt2[c].isna() & Xt[c].isna())).all()) for c in mc.features)
        except Exception as e:  # noqa: BLE001
            out["retransform_same"] = f"{type(e).__name__}: {e}"[:160]
        # the same rows under a non-default row index (reversed integers / strings): same outputs, row by row
        try:
            same = True
            for idx in ([len(X0) - 1 - i for i in range(len(X0))], [f"r{i:05d}" for i in range(len(X0))]):
                Xi = mk_frame(case["X"])
                Xi.index = idx
                Xti = mc.transform(Xi)
                same = same and list(Xti.index) == idx and all(
                    all((a == b) or (a != a and b != b) for a, b in zip(list(Xti[c]), list(Xt[c])))
                    for c in mc.features)
            out["index_invariant"] = same
        except Exception as e:  # noqa: BLE001
            out["index_invariant"] = f"{type(e).__name__}: {e}"[:160]
        # a category never seen at fit: every kept class column must send it to its default group (named by the
        # str_default the user asked for) when that group exists, otherwise refuse the frame with AssertionError
        if ft == "categ":
            sd = case.get("kwargs", {}).get("str_default", "__OTHER__")
            Xu = mk_frame(case["X"])
            Xu.iloc[0, list(Xu.columns).index(F)] = "never_seen_value"
            has_default = {c: any(isinstance(v, str) and v == sd for v in mc.values_orders[c].values())
                           for c in out["columns"]}
            try:
                Xut = mc.transform(Xu)
                got = {c: Xut[c].iloc[0] for c in out["columns"]}
                bad = []
                for c in out["columns"]:
                    if not has_default[c]:
                        bad.append(f"{c}: accepted although the column has no default group")
                        continue
                    vo_c = mc.values_orders[c]
                    leader = next(k for k in vo_c if any(isinstance(v, str) and v == sd for v in vo_c.content[k]))
                    exp = mc.labels_per_values[c][leader]
                    g = got[c]
                    if not ((g == exp) or (g != g and exp != exp)):
                        bad.append(f"{c}: unseen category labelled {g!r}, its default group {sd!r} is labelled {exp!r}")
                out["unseen"] = bad
            except AssertionError:
                out["unseen"] = ([] if (out["columns"] and not all(has_default.values())) or not out["columns"]
                                 else [f"refused with AssertionError although every kept class column has the default group {sd!r}"])
            except Exception as e:  # noqa: BLE001
                out["unseen"] = [f"{type(e).__name__}: {e}"[:160]]
        per = {}
        for name in out["fitted"]:
            cls = name[len(F) + 1:]
            o = run_fit(derived(case, cls))
            if "skip" in o:
                return o
            o.pop("train_idx", None)
            o.pop("dev_labels", None)
            mk = name in mc.features
            mo = {"kept": mk}
            if mk and isinstance(o.get("base"), dict):
                vo = mc.values_orders[name]
                base_leaders = decs(o["base"]["leaders"])
                groups = []
                for leader in list(vo):
                    members = vo.content[leader]
                    g = [i for i, b in enumerate(base_leaders)
                         if any((isinstance(b, str) == isinstance(x, str)) and b == x for x in members)]
                    if any(isinstance(x, str) and x == mc.str_nan for x in members) and case["dropna"]:
                        g.append(o["base"]["m"])
                    if g:
                        groups.append(sorted(g))
                mo["groups"] = groups
                mo["labels"] = encs(list(Xt[name]))
            per[cls] = {"binary": o, "multi": mo}
        out["per"] = per
        return out

    def oracle(self, case, out):
        if out.get("fit") == "internal":
            return False, "MulticlassCarver.fit raised a non-assertion error: " + out.get("error", "")
        if out.get("fit") != "ok":
            return True, ""
        exp = sorted(out["classes"])[1:]
        got = [n[len(F) + 1:] for n in out["fitted"]]
        if got != exp:
            return False, f"classes fitted {got} != sorted string classes minus the first {exp}"
        if out.get("columns_extra"):
            return False, f"unexpected output columns {out['columns_extra']}"
        if not out.get("raw_present", True):
            return False, (f"raw feature column '{F}' is missing from transform's output "
                           f"(kept class columns: {out['columns']})")
        if not out["raw_unchanged"]:
            return False, "raw feature column modified by transform"
        if out.get("unseen"):
            return False, "transform of a frame holding a never-seen category: " + "; ".join(out["unseen"][:2])
        if out.get("index_invariant", True) is not True:
            return False, ("transform of the same rows under a non-default row index gives other class columns "
                           f"({out.get('index_invariant')})")
        if out.get("retransform_same") is not True:
            return False, ("transforming the transformed frame again does not reproduce the class columns "
                           f"({out.get('retransform_same')})")
        for cls, po in out["per"].items():
            b, m = po["binary"], po["multi"]
            if b.get("fit") != "ok":
                return False, f"class {cls}: independent BinaryCarver did not fit ({b.get('fit')}) but MulticlassCarver did"
            if bool(b.get("kept")) != bool(m["kept"]):
                return False, (f"class {cls}: column kept by MulticlassCarver={m['kept']} but an independent "
                               f"BinaryCarver with the same parameters keeps={b.get('kept')}")
            if m["kept"] and "labels" in m:
                if [key(t) for t in m["labels"]] != [key(t) for t in b["train_labels"]]:
                    return False, (f"class {cls}: column {F}_{cls} differs from the independent BinaryCarver's "
                                   f"output (groups {m.get('groups')} vs {b.get('groups')})")
        return True, ""

    def coq_case(self, case, out):
        per = []
        for name in out["fitted"]:
            cls = name[len(F) + 1:]
            b, m = out["per"][cls]["binary"], out["per"][cls]["multi"]
            if not isinstance(b.get("base"), dict) or b.get("fit") != "ok" or b["base"].get("dev") == "assert":
                return None
            d = derived(case, cls)
            mo = {"base": b["base"], "kept": m["kept"], "groups": m.get("groups", [])}
            bo = ("(Kept " + C.clist([C.clist([C.cnat(i) for i in g]) for g in b["groups"]]) + ")") if b["kept"] else "Dropped"
            per.append(f"mkC12class {C.cstr(cls)} ({coq_case(d, mo)}) {bo}")
        cols = [c for c in out["columns"]]
        return (f"mkC12 {C.cstr(F)} {C.clist([C.cstr(c) for c in out['classes']])} "
                f"{C.clist([C.cstr(n[len(F) + 1:]) for n in out['fitted']])} "
                f"{C.clist([C.cstr(c) for c in cols])} {C.clist(per)}")

    def coq_shards(self, cases, outs):
        shards = []
        for part in chunks(list(zip(cases, outs)), 5):
            terms = []
            for c, o in part:
                t = self.coq_case(c, o) if o.get("fit") == "ok" else None
                terms.append(f"verdict12 ({t})" if t else "0%nat")
            shards.append("From Coq Require Import ZArith List String.\nImport ListNotations.\n"
                          "From AC.Model Require Import Float Combos Measures Carve CheckC01 Multiclass CheckC12.\n"
                          "Open Scope Z_scope.\nOpen Scope string_scope.\n"
                          "Eval vm_compute in [" + ";\n ".join(terms) + "].\n")
        return shards

    def signature(self, case, out):
        if out.get("fit") != "ok":
            return f"fit:{out.get('fit')}"
        pat = ",".join(f"{c}:{int(p['multi']['kept'])}:{len(p['multi'].get('groups', []))}"
                       for c, p in out["per"].items())
        if not any(p["multi"]["kept"] for p in out["per"].values()):
            return None
        return f"{case['ftype']}|{case['Xdev'] is not None}|{case['min_freq_mod'] is None}|{pat}"

    def finding_signatures(self, case, out, msg):
        sigs = []
        if "is missing from transform's output" in msg and len(out.get("columns", [])) == 1:
            sigs.append("raw_column_renamed_when_single_class_column_kept")
        return sigs

    def distribution(self, cases, outs):
        d = {"ftype": {}, "with_dev": 0, "explicit_min_freq_mod": 0, "n_classes": {}}
        for c in cases:
            d["ftype"][c["ftype"]] = d["ftype"].get(c["ftype"], 0) + 1
            d["with_dev"] += c["Xdev"] is not None
            d["explicit_min_freq_mod"] += c["min_freq_mod"] is not None
            k = len(set(map(str, c["y"])))
            d["n_classes"][k] = d["n_classes"].get(k, 0) + 1
        return d


PROP = C12()
