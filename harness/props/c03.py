"""C03 — grouping preserves each feature's order (contiguity, monotone transform).
For every fitted feature of a real object: (base level) the buckets of the base Discretizer are
runs of the natural order (sorted quantile boundaries, the user's ranking; categorical leaders are
in training target-rate order); (carve level) the final groups are runs of the base modalities;
and transform, probed on boundaries, their float neighbours, midpoints and extremes, is a
non-decreasing step function.  Contiguity and monotonicity are evaluated in Coq (booleans proved
sound), the probes are also run through the transform model (C05 verdict)."""
import math

import numpy as np

import common as C
from props import c04 as B
from props import c05 as P5
from props.base import NAN, Prop, chunks, dec, decs, enc, encs


def same(a, b):
    if isinstance(a, str) or isinstance(b, str):
        return isinstance(a, str) and isinstance(b, str) and a == b
    return a == b


def base_discretizer(case):
    from AutoCarver.discretizers import Discretizer, GroupedList
    p = case["params"]
    quant = [f["name"] for f in case["features"] if f["kind"] == "quant"]
    cat = [f["name"] for f in case["features"] if f["kind"] == "cat"]
    ordi = [f["name"] for f in case["features"] if f["kind"] == "ord"]
    orders = {f["name"]: GroupedList(decs(f["order"])) for f in case["features"] if f["kind"] == "ord"}
    orders.update({f["name"]: GroupedList(decs(f["declared"])) for f in case["features"]
                   if f["kind"] == "cat" and f.get("declared")})
    return Discretizer(quantitative_features=quant, qualitative_features=cat, ordinal_features=ordi,
                       values_orders=orders, min_freq=p["min_freq"], copy=True, verbose=False,
                       **dict(case.get("kwargs") or {}))


def numeric_ordinal(rng, case):
    """re-codes the ordinal features' levels as NUMBERS (StringDiscretizer path), the ranking being given in
    string form and NOT in ascending numeric order (descending or shuffled codes)"""
    for f in case["features"]:
        if f["kind"] != "ord":
            continue
        order = decs(f["order"])
        codes = list(range(len(order)))
        if rng.random() < 0.5:
            codes.reverse()
        else:
            rng.shuffle(codes)
        flt = rng.random() < 0.4
        code = {lvl: (float(c) if flt else c) for lvl, c in zip(order, codes)}
        f["values"] = encs([code.get(v, v) if isinstance(v, str) else v for v in decs(f["values"])])
        f["order"] = encs([str(c) for c in codes])
        f["flavour"] = "ordinal_numeric"


def u_shaped_target(rng, case):
    """non-monotone target profile along the first feature (high - low - high), missing values present and
    grouped (dropna=True): the missing-value pass then re-enumerates groupings of the already carved groups"""
    f = case["features"][0]
    vals = decs(f["values"])
    if f["kind"] == "quant":
        fin = sorted(v for v in vals if not C.is_nan(v))
        pos = {v: i / max(1, len(fin) - 1) for i, v in enumerate(fin)}
        s = [pos[v] if not C.is_nan(v) else None for v in vals]
    else:
        ref = [str(x) for x in decs(f["order"])] if f["kind"] == "ord" else sorted({str(v) for v in vals if not C.is_nan(v)})
        def form(v):
            return str(int(v)) if isinstance(v, float) and v.is_integer() else str(v)
        s = [ref.index(form(v)) / max(1, len(ref) - 1) if (not C.is_nan(v) and form(v) in ref) else None for v in vals]
    if sum(x is None for x in s) == 0:
        for i in rng.sample(range(len(vals)), max(2, len(vals) // 10)):
            vals[i] = NAN
            s[i] = None
        f["values"] = encs(vals)
    nan_rate = rng.choice([0.1, 0.5, 0.9])
    prob = [nan_rate if x is None else 0.1 + 0.8 * abs(2 * x - 1) for x in s]
    if case["cls"] == "ContinuousCarver":
        case["y"] = [float(round(10 * p + rng.gauss(0, 1.5))) for p in prob]
    else:
        case["y"] = [1 if rng.random() < p else 0 for p in prob]
        if len(set(case["y"])) < 2:
            case["y"][0] = 1 - case["y"][0]
    case["params"]["dropna"] = True


def positions(members, ref):
    return sorted(i for i, r in enumerate(ref) if any(same(r, x) for x in members))


class C03(Prop):
    pid = "C03"
    coq_targets = ["Properties/C03.vo", "Model/CheckC03.vo", "Model/CheckC05.vo"]
    theorems = ["C03_base_buckets_are_contiguous_runs", "C03_ordinal_fit_contiguous",
                "C03_only_contiguous_groupings_enumerated", "C03_carved_groups_are_contiguous_runs",
                "C03_nan_placement_keeps_contiguity", "C03_quantile_leaders_strictly_increasing",
                "C03_transform_monotone", "C03_transform_right_closed_intervals", "C03_checker_sound",
                "C03_categorical_leaders_in_target_rate_order", "C03_rate_order_is_global"]
    rule = ("fitted objects of all classes (c04 generator: 40-400 rows, 1-3 features, NaN, output_dtype x "
            "dropna) + the base Discretizer with the same parameters; per fitted feature: base-level groups as "
            "positions in the natural order (sorted boundaries / user ranking), carve-level groups as positions "
            "among the base modalities, categorical leaders vs training target rates, and probe frames "
            "(boundaries, nextafter neighbours, midpoints, +-1e308, +-5e-324, +-inf); non-trivial = a feature "
            "with at least 2 groups; distinct = (class, kinds, #groups, output_dtype, dropna) signature")
    assumptions = ["categorical order by training target rate is checked by plain counting at run time (no "
                   "theorem: the float comparator of the sort is not proved transitive)",
                   "ties between exactly equal target rates are accepted in any order"]

    def generate(self, rng, tier):
        n = 160 if tier == "quick" else 3000
        cases = []
        for i in range(n):
            c = B.gen_case(rng, B.CLASSES[i % len(B.CLASSES)])
            c["json"] = False
            c["probe_seed"] = rng.randrange(10 ** 9)
            if i % 3 == 0:
                numeric_ordinal(rng, c)
            if i % 4 == 1 and c["cls"].endswith("Carver"):
                u_shaped_target(rng, c)
            if c["cls"] == "ContinuousCarver" and i % 2 == 0:
                # fractional target whose per-modality means lie within one unit (ratios)
                c["y"] = [v / 16 for v in c["y"]]
            cases.append(c)
        return cases

    def search_cases(self, rng, neighbours, rnd):
        return self.generate(rng, "quick")[:80]

    def run_impl(self, case):
        import random
        import pandas as pd
        obj, skip = B.fit_or_skip(case)
        if skip:
            return skip
        names = [f["name"] for f in case["features"] if f["name"] in obj.features]
        if not names:
            return {"skip": "every feature was dropped at fit"}
        try:
            base = base_discretizer(case)
            base.fit(B.build_frame(case), pd.Series(case["y"]))
        except Exception as e:  # noqa: BLE001
            return {"skip": f"base discretizer raised {C.exc_class(e)} (C08)"}
        rng = random.Random(case["probe_seed"])
        X = B.build_frame(case)
        y = case["y"]
        feats = []
        for f in case["features"]:
            nm = f["name"]
            if nm not in names or nm not in base.features:
                continue
            kind = f["kind"]
            vo, bo = obj.values_orders[nm], base.values_orders[nm]
            str_nan = obj.str_nan
            rec = {"name": nm, "kind": kind, "issues": []}
            bleaders = [k for k in bo if not same(k, str_nan)]
            # ---- base level --------------------------------------------------------------------
            if kind == "quant":
                ref = sorted(v for k in bleaders for v in bo.content[k] if not isinstance(v, str))
                bgroups = [positions([v for v in bo.content[k] if not isinstance(v, str)], ref) for k in bleaders]
                rec["base_m"], rec["base_groups"] = len(ref), bgroups
                if any(not (a < b) for a, b in zip(bleaders, bleaders[1:])) or (bleaders and bleaders[-1] != math.inf):
                    rec["issues"].append(f"base leaders not strictly increasing then +inf: {bleaders}")
                for k, g in zip(bleaders, bgroups):
                    if g and ref[g[-1]] != k:
                        rec["issues"].append(f"leader {k} is not the largest quantile of its group")
            elif kind == "ord":
                ref = decs(f["order"])
                bgroups = [positions(bo.content[k], ref) for k in bleaders]
                rec["base_m"], rec["base_groups"] = len(ref), bgroups
            else:
                rec["base_m"], rec["base_groups"] = len(bleaders), [[i] for i in range(len(bleaders))]
                # leaders in training target-rate order (NaN excluded), ties in any order
                col = list(X[nm])
                rates = []
                for k in bleaders:
                    mem = bo.content[k]
                    rows = [t for v, t in zip(col, y) if not C.is_nan(v) and any(same(v, x) for x in mem)]
                    rates.append(sum(rows) / len(rows) if rows else None)
                obs = [r for r in rates if r is not None]
                if any(a > b for a, b in zip(obs, obs[1:])):
                    rec["issues"].append(f"categorical leaders are not in training target-rate order: {rates}")
            # ---- carve level: final groups as positions among the base leaders -----------------
            fleaders = [k for k in vo if not same(k, str_nan)]
            fgroups = [positions(vo.content[k], bleaders) for k in fleaders]
            fgroups = [g for g in fgroups if g]
            rec["m"], rec["groups"] = len(bleaders), fgroups
            # ---- probes --------------------------------------------------------------------------
            rec["probes"] = []
            if kind == "quant":
                st = B.extract_state(obj, nm)
                train = [v for v in decs(f["values"]) if not C.is_nan(v)]
                cells = P5.quant_probes(rng, st, train)
                outs, exc = B.run_transform(obj, B.probe_frame(case, nm, cells), [nm])
                if isinstance(outs[nm], str):
                    rec["issues"].append(f"transform of finite/infinite numbers raised {outs[nm]}: {exc}")
                else:
                    # rank of an output = position of its label among the fitted leaders' labels
                    lab_rank = {}
                    for r, k in enumerate(list(vo)):
                        lab_rank[B_key(obj.labels_per_values[nm][k])] = r
                    pr = []
                    for c_, o_ in zip(cells, decs(outs[nm])):
                        kk = B_key(o_)
                        if kk not in lab_rank:
                            rec["issues"].append(f"probe {c_!r} -> {o_!r} is not a fitted label")
                            break
                        pr.append([c_, lab_rank[kk]])
                    rec["probes"] = [[enc(c_), r] for c_, r in pr]
                    rec["state"], rec["cells"], rec["outs"] = st, encs(cells), outs[nm]
            else:
                # every training value (raw form) must come out with the label of the group holding it; along
                # an ordinal ranking the output rank is then non-decreasing
                cells = []
                for v in decs(f["values"]):
                    if not C.is_nan(v) and not any(type(v) is type(w) and same(v, w) for w in cells):
                        cells.append(v)
                outs, exc = B.run_transform(obj, B.probe_frame(case, nm, cells), [nm])
                if isinstance(outs[nm], str):
                    rec["issues"].append(f"transform of the training values raised {outs[nm]}: {exc}")
                else:
                    leaders = list(vo)
                    lab_rank = {B_key(obj.labels_per_values[nm][k]): r for r, k in enumerate(leaders)}
                    got = []
                    for c_, o_ in zip(cells, decs(outs[nm])):
                        holder = [r for r, k in enumerate(leaders)
                                  if any(type(c_) is type(w) and same(c_, w) for w in vo.content[k])]
                        r_out = lab_rank.get(B_key(o_)) if not C.is_nan(o_) else None
                        if len(holder) != 1 or r_out != holder[0]:
                            rec["issues"].append(f"training value {c_!r} belongs to group(s) {holder} but transform "
                                                 f"gives {o_!r} (group {r_out})")
                            break
                        got.append((c_, r_out))
                    if kind == "ord" and not rec["issues"]:
                        ref_s = [str(x) for x in decs(f["order"])]

                        def pos(v):
                            t = str(int(v)) if isinstance(v, float) and v.is_integer() else str(v)
                            return ref_s.index(t) if t in ref_s else None
                        along = sorted((pos(c_), r) for c_, r in got if pos(c_) is not None)
                        if any(a[1] > b[1] for a, b in zip(along, along[1:])):
                            rec["issues"].append(f"transform is not monotone along the ranking: (position, group) "
                                                 f"{along}")
            feats.append(rec)
        if not feats:
            return {"skip": "no feature kept by both the object and the base discretizer"}
        return {"features": feats}

    def oracle(self, case, out):
        for f in out["features"]:
            if f["issues"]:
                return False, f"feature {f['name']}: " + "; ".join(f["issues"][:2])
            for lvl, m, groups in (("base", f["base_m"], f["base_groups"]), ("carved", f["m"], f["groups"])):
                flat = [i for g in groups for i in g]
                if flat != list(range(m)):
                    return False, (f"feature {f['name']} ({f['kind']}): {lvl} groups {groups} are not contiguous runs "
                                   f"of the {m} positions of the feature's order")
            pr = sorted(((dec(c), r) for c, r in f["probes"]), key=lambda t: t[0])
            for (x1, r1), (x2, r2) in zip(pr, pr[1:]):
                if r1 > r2:
                    return False, (f"feature {f['name']}: transform is not monotone: {x1!r} -> group {r1} but "
                                   f"{x2!r} -> group {r2}")
        return True, ""

    def coq_case(self, out):
        fs = []
        for f in out["features"]:
            for m, groups in ((f["base_m"], f["base_groups"]), (f["m"], f["groups"])):
                pr = []
                if groups is f["groups"] and f["probes"]:
                    vals = [dec(c) for c, _ in f["probes"]]
                    sc = C.Scale(0).fit([v for v in vals if math.isfinite(v)])
                    fin = [sc.z(v) for v in vals if math.isfinite(v)]
                    big = (max([abs(z) for z in fin]) if fin else 0) + 1
                    items = sorted(((big if v == math.inf else -big if v == -math.inf else sc.z(v)), r)
                                   for v, (_, r) in zip(vals, f["probes"]))
                    pr = [f"({C.cZ(z)}, {C.cZ(r)})" for z, r in items]
                fs.append(f"mkC03f {C.cnat(m)} {C.clist([C.clist([C.cnat(i) for i in g]) for g in groups])} "
                          f"{C.clist(pr)}")
        return C.clist(fs)

    def coq_shards(self, cases, outs):
        shards = []
        for part in chunks(list(zip(cases, outs)), 25):
            terms = ["verdict03 " + self.coq_case(o) for c, o in part]
            shards.append(B.hexify("From Coq Require Import ZArith List.\nImport ListNotations.\n"
                                   "From AC.Model Require Import CheckC03.\nOpen Scope Z_scope.\n"
                                   "Eval vm_compute in [" + ";\n ".join(terms) + "].\n"))
        return shards

    def signature(self, case, out):
        ng = [len(f["groups"]) for f in out["features"]]
        if max(ng) < 2:
            return None
        return f"{case['cls']}|{[f['kind'] for f in out['features']]}|{ng}|{case['params']['output_dtype']}|{case['params']['dropna']}"

    def distribution(self, cases, outs):
        d = {"cls": {}, "kinds": {}, "probe_cells": 0}
        for c, o in zip(cases, outs):
            d["cls"][c["cls"]] = d["cls"].get(c["cls"], 0) + 1
            if isinstance(o, dict) and "features" in o:
                for f in o["features"]:
                    d["kinds"][f["kind"]] = d["kinds"].get(f["kind"], 0) + 1
                    d["probe_cells"] += len(f["probes"])
        return d

    def shrink(self, case, out, msg):
        return case, {"features": [{k: v for k, v in f.items() if k not in ("state", "cells", "outs")}
                                   for f in out["features"]]}, msg


def B_key(x):
    """canonical label key (1 and 1.0 are one label)"""
    if isinstance(x, str):
        return "s:" + x
    return "n:" + repr(float(x))


PROP = C03()
