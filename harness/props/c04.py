"""C04 — transform is exactly the mapping described by the fitted values_orders.

Also hosts the machinery shared with C05 (case generation, fitting, state extraction, Coq
encoding): a *case* is a small training frame + a class/configuration; the implementation is
fitted, the fitted state of every feature is extracted (values_orders list + content, str_nan,
str_default, features_dropna, output_dtype, labels_per_values, the f"{x:.3e}" table) and sent to
Coq with the transformed cells and the implementation's output cells.
"""
import json
import math
import re

import numpy as np

import common as C
from props.base import NAN, Prop, chunks, dec, decs, enc, encs

CLASSES = ["Discretizer", "QuantitativeDiscretizer", "QualitativeDiscretizer", "BinaryCarver",
           "ContinuousCarver"]


# ------------------------------------------------------------------------------------------------
# generation of training frames
# ------------------------------------------------------------------------------------------------
def gen_quant_column(rng, n, flavour=None):
    flavour = flavour or rng.choice(["uniform", "uniform", "discrete", "yyyymm", "close", "big",
                                     "negative", "tiny", "halves", "timestamp", "near_constant", "ulps", "zero_spike"])
    if flavour == "uniform":
        lo, hi = rng.choice([(0, 1), (-5, 5), (0, 1000), (-1e6, 1e6)])
        xs = [rng.uniform(lo, hi) for _ in range(n)]
    elif flavour == "discrete":
        k = rng.randint(2, 12)
        xs = [float(rng.randint(0, k)) for _ in range(n)]
    elif flavour == "yyyymm":            # O2: boundaries equal to 4 significant digits
        k = rng.randint(2, 12)
        base = rng.choice([202301, 199901, 100001])
        xs = [float(base + rng.randint(0, k - 1)) for _ in range(n)]
    elif flavour == "close":             # 1.00004 / 1.00005 ...
        k = rng.randint(2, 9)
        base = rng.choice([1.0, 1.5, 123.4, 1e-3])
        xs = [base * (1 + rng.randint(0, k - 1) * 1e-5) for _ in range(n)]
    elif flavour == "timestamp":         # boundaries equal on their first 8-12 significant digits
        k = rng.randint(3, 9)
        base, step = rng.choice([(1700000000, 1), (1700000000, 7), (1.5e12, 1), (123456789012.0, 0.5),
                                 (1.0, 2.0 ** -40), (99999999.0, 0.125)])
        xs = [base + rng.randint(0, k - 1) * step for _ in range(n)]
    elif flavour == "ulps":              # neighbouring doubles: boundaries differ in their 16th-17th significant digit
        k = rng.randint(3, 10)
        base, step = rng.choice([(1.0, 2.0 ** -52), (2.0 ** 60, 256.0), (-1.0, 2.0 ** -53), (123.0, 2.0 ** -46)])
        xs = [base + rng.randint(0, k - 1) * step for _ in range(n)]
    elif flavour == "zero_spike":        # 0.0 is a boundary (spike at zero), a rare bucket just below it
        neg = rng.choice([0.02, 0.03, 0.06])
        xs = []
        for _ in range(n):
            r = rng.random()
            xs.append(-float(rng.randint(1, 3)) if r < neg else 0.0 if r < neg + 0.45 else float(rng.randint(1, 9)))
    elif flavour == "near_constant":     # a single interval [inf] remains after the base discretization
        base = rng.choice([0.0, 1.0, -3.5, 1e6])
        share = rng.choice([0.0, 0.0, 0.02, 0.04])
        xs = [base if rng.random() >= share else base + rng.choice([-3.0, 2.5, 6.0, 1e3]) for _ in range(n)]
    elif flavour == "big":
        xs = [rng.choice([1, -1]) * 10 ** rng.uniform(0, 300) for _ in range(n)]
    elif flavour == "negative":
        xs = [-abs(rng.gauss(0, 100)) for _ in range(n)]
    elif flavour == "tiny":
        xs = [rng.uniform(-1, 1) * 1e-300 for _ in range(n)]
    else:
        xs = [rng.randint(-8, 8) / 2 for _ in range(n)]
    return [float(x) for x in xs], flavour


def gen_cat_column(rng, n, flavour=None):
    flavour = flavour or rng.choice(["letters", "letters", "rare", "ints", "floats", "numstr",
                                     "mixed"])
    if flavour == "letters":
        pool = list("abcdefgh")[:rng.randint(2, 8)]
        xs = [rng.choice(pool) for _ in range(n)]
    elif flavour == "rare":              # skewed: some modalities below min_freq -> default group
        pool = list("abcdefghij")[:rng.randint(4, 10)]
        w = [2.0 ** (-i) for i in range(len(pool))]
        xs = rng.choices(pool, weights=w, k=n)
    elif flavour == "ints":              # numeric-looking categories
        xs = [rng.randint(1, rng.randint(2, 6)) for _ in range(n)]
        xs = [int(x) for x in xs]
    elif flavour == "floats":
        pool = rng.sample([1.0, 2.0, 3.5, 10.0, -1.0, 0.25], rng.randint(2, 5))
        xs = [rng.choice(pool) for _ in range(n)]
    elif flavour == "numstr":
        pool = ["1", "2", "10", "1.5", "03"][:rng.randint(2, 5)]
        xs = [rng.choice(pool) for _ in range(n)]
    else:                                # 1 and "1" in one column
        pool = rng.sample([1, "1", 2, "2", "a", 3.5, "3.5"], rng.randint(3, 6))
        xs = [rng.choice(pool) for _ in range(n)]
    return xs, flavour


def gen_ord_column(rng, n):
    k = rng.randint(2, 7)
    order = [f"L{i}" for i in range(k)]
    w = [rng.choice([1, 1, 1, 0.15, 3]) for _ in order]
    xs = rng.choices(order, weights=w, k=n)
    present = [o for o in order if o in xs]
    if rng.random() < 0.7:
        order = present if len(present) >= 2 else order
    return xs, order


def inject_nan(rng, xs, share):
    xs = list(xs)
    idx = [i for i in range(len(xs)) if rng.random() < share]
    for i in idx:
        xs[i] = NAN
    return xs


def gen_target(rng, features, n, continuous):
    """target correlated with the first feature so that carvers find viable groupings"""
    col = [dec(t) for t in features[0]["values"]]
    keyed = sorted({repr(v) for v in col})
    score = {k: i / max(1, len(keyed) - 1) for i, k in enumerate(keyed)}
    if features[0]["kind"] == "quant":
        fin = sorted(v for v in col if not C.is_nan(v))
        rank = {v: i / max(1, len(fin) - 1) for i, v in enumerate(fin)}
        s = [rank.get(v, 0.5) if not C.is_nan(v) else 0.9 for v in col]
    else:
        s = [score[repr(v)] for v in col]
    if continuous:
        mode = rng.choice(["int", "int", "sixteenth", "tenth"])
        if mode == "sixteenth":      # fractional, exactly representable (ratios within one unit)
            return [round(16 * (si + rng.gauss(0, 0.2))) / 16 for si in s]
        if mode == "tenth":          # non-dyadic values
            return [round(10 * si + rng.gauss(0, 2)) / 10 for si in s]
        return [float(round(10 * si + rng.gauss(0, 2))) for si in s]
    return [1 if rng.random() < 0.15 + 0.6 * si else 0 for si in s]


def gen_case(rng, cls=None, force=None):
    force = force or {}
    cls = cls or rng.choice(CLASSES)
    n = force.get("n") or rng.choice([40, 60, 80, 120, 200, 400])
    nfeat = force.get("nfeat") or rng.choice([1, 1, 2, 3])
    allowed = {"Discretizer": ["quant", "cat", "ord"], "QuantitativeDiscretizer": ["quant"],
               "QualitativeDiscretizer": ["cat", "ord"], "BinaryCarver": ["quant", "cat", "ord"],
               "ContinuousCarver": ["quant", "cat", "ord"]}[cls]
    feats = []
    for i in range(nfeat):
        kind = force.get("kind") or rng.choice(allowed)
        if kind not in allowed:
            kind = allowed[0]
        name = f"{kind[0]}{i}"
        if i >= 1 and rng.random() < 0.35:
            name = feats[0]["name"] + "_b" * i     # a name that CONTAINS another feature's name (q0 / q0_b)
        share = rng.choice([0, 0, 0.05, 0.15, 0.3])
        if force.get("nan_share") is not None:
            share = force["nan_share"]
        f = {"name": name, "kind": kind}
        if kind == "quant":
            xs, fl = gen_quant_column(rng, n, force.get("qflavour"))
        elif kind == "cat":
            xs, fl = gen_cat_column(rng, n, force.get("cflavour"))
        else:
            xs, order = gen_ord_column(rng, n)
            f["order"] = encs(order)
            fl = "ordinal"
        f["flavour"] = fl
        f["values"] = encs(inject_nan(rng, xs, share))
        if kind == "cat" and all(isinstance(v, str) for v in xs) and rng.random() < 0.25:
            # the caller also declares the modalities of a NON-ordinal feature (in an arbitrary order): the
            # feature is still ordered by target rate
            decl = sorted(set(xs))
            rng.shuffle(decl)
            f["declared"] = encs(decl)
        feats.append(f)
    continuous = cls == "ContinuousCarver"
    params = {"min_freq": rng.choice([0.05, 0.1, 0.15, 0.2, 0.34]),
              "output_dtype": rng.choice(["str", "float"]), "dropna": rng.choice([True, False])}
    if cls.endswith("Carver"):
        params["max_n_mod"] = rng.choice([2, 3, 4, 5])
        if cls == "BinaryCarver":
            params["sort_by"] = rng.choice(["tschuprowt", "cramerv"])
    case = {"cls": cls, "params": params, "json": rng.random() < 0.4, "features": feats,
            "y": gen_target(rng, feats, n, continuous)}
    if rng.random() < 0.2:
        case["kwargs"] = rng.choice([{"str_nan": "MISSING"}, {"str_default": "RARE"},
                                     {"str_nan": "MISSING", "str_default": "RARE"}])
    # read-only queries made between fit and transform (they must not change what transform returns)
    case["pre_queries"] = rng.random() < 0.4
    return case


# ------------------------------------------------------------------------------------------------
# running the implementation
# ------------------------------------------------------------------------------------------------
def build_frame(case):
    import pandas as pd

    cols = {}
    for f in case["features"]:
        vals = decs(f["values"])
        if f["kind"] == "quant":
            cols[f["name"]] = pd.Series(np.array([float(v) for v in vals], dtype=float))
        else:
            cols[f["name"]] = pd.Series(vals, dtype=object)
    return pd.DataFrame(cols)


def fit_object(case):
    """fits the requested class on a fresh frame; returns the fitted (possibly JSON-rebuilt) object"""
    import pandas as pd
    from AutoCarver.carvers import BinaryCarver, ContinuousCarver
    from AutoCarver.discretizers import (Discretizer, GroupedList, QualitativeDiscretizer,
                                         QuantitativeDiscretizer)
    from AutoCarver.discretizers.utils.base_discretizers import BaseDiscretizer, load_discretizer

    cls, p = case["cls"], case["params"]
    if cls == "Base":                     # hand-made state, no fit
        vo, dtypes = {}, {}
        for f in case["features"]:
            h = f["hand"]
            g = GroupedList([dec(k) for k in h["keys"]])
            g.content = {dec(k): decs(vs) for k, vs in h["content"]}
            vo[f["name"]] = g
            dtypes[f["name"]] = "float" if f["kind"] == "quant" else "str"
        obj = BaseDiscretizer(features=[f["name"] for f in case["features"]], values_orders=vo,
                              input_dtypes=dtypes, output_dtype=p["output_dtype"], dropna=p["dropna"],
                              str_nan="__NAN__", str_default="__OTHER__", copy=True, verbose=False)
        # the constructor re-wraps the orders: GroupedList(GroupedList) keeps list and content
        obj.fit()
        return obj
    X = build_frame(case)
    y = pd.Series(case["y"])
    kw = dict(case.get("kwargs") or {})
    quant = [f["name"] for f in case["features"] if f["kind"] == "quant"]
    cat = [f["name"] for f in case["features"] if f["kind"] == "cat"]
    ordi = [f["name"] for f in case["features"] if f["kind"] == "ord"]
    orders = {f["name"]: GroupedList(decs(f["order"])) for f in case["features"] if f["kind"] == "ord"}
    orders.update({f["name"]: GroupedList(decs(f["declared"])) for f in case["features"]
                   if f["kind"] == "cat" and f.get("declared")})
    if cls == "Discretizer":
        obj = Discretizer(quantitative_features=quant, qualitative_features=cat, ordinal_features=ordi,
                          values_orders=orders, min_freq=p["min_freq"], copy=True, verbose=False, **kw)
    elif cls == "QuantitativeDiscretizer":
        obj = QuantitativeDiscretizer(quantitative_features=quant, min_freq=p["min_freq"], copy=True,
                                      verbose=False, **{k: v for k, v in kw.items() if k == "str_nan"})
    elif cls == "QualitativeDiscretizer":
        obj = QualitativeDiscretizer(qualitative_features=cat, ordinal_features=ordi,
                                     values_orders=orders, min_freq=p["min_freq"], copy=True,
                                     verbose=False, **kw)
    elif cls == "BinaryCarver":
        obj = BinaryCarver(sort_by=p["sort_by"], min_freq=p["min_freq"], quantitative_features=quant,
                           qualitative_features=cat, ordinal_features=ordi, values_orders=orders,
                           max_n_mod=p["max_n_mod"], output_dtype=p["output_dtype"],
                           dropna=p["dropna"], copy=True, verbose=False, pretty_print=False, **kw)
    elif cls == "ContinuousCarver":
        obj = ContinuousCarver(min_freq=p["min_freq"], quantitative_features=quant,
                               qualitative_features=cat, ordinal_features=ordi, values_orders=orders,
                               max_n_mod=p["max_n_mod"], output_dtype=p["output_dtype"],
                               dropna=p["dropna"], copy=True, verbose=False, pretty_print=False, **kw)
    else:
        raise ValueError(cls)
    obj.fit(X, y)
    edit = None
    if not cls.endswith("Carver"):
        # Discretizer classes hard-code output_dtype='str', dropna=True: the other configurations
        # are reached through the JSON of the fitted object (BaseDiscretizer accepts both)
        if p["output_dtype"] != "str" or not p["dropna"]:
            edit = {"output_dtype": p["output_dtype"], "dropna": p["dropna"]}
    if case.get("json") or edit:
        js = json.loads(json.dumps(obj.to_json()))
        if edit:
            js["output_dtype"] = edit["output_dtype"]
            js["dropna"] = edit["dropna"]
            js["features_dropna"] = {f: edit["dropna"] for f in js["features"]}
        js["copy"] = True
        js["verbose"] = False
        if cls.endswith("Carver"):
            from AutoCarver.carvers import load_carver
            obj = load_carver(js)
        else:
            obj = load_discretizer(js)
    if case.get("pre_queries"):
        obj.summary()
        for f in list(obj.features)[:2]:
            obj.summary(f)
        if hasattr(obj, "history") and getattr(obj, "_history", None) is not None:
            obj.history()
    return obj


def py_strform(value):
    """StringDiscretizer.fit_feature's string form of a non-string value"""
    if isinstance(value, float) and float.is_integer(value):
        return str(int(value))
    return str(value)


def extract_state(obj, name):
    vo = obj.values_orders[name]
    keys = list(vo)
    content = [[enc(k), encs(list(v))] for k, v in vo.content.items()]
    quant = name in obj.quantitative_features
    # CPython's f"{x:.{n}e}" is the oracle; the digit-selection RULE of format_quantiles is in the
    # model (Model/FormatRule.v): tables for n = 3..17 are sent when 3 digits do not separate
    fin = [k for k in keys if not isinstance(k, str) and not C.is_nan(k) and math.isfinite(k)] if quant else []
    fmts = [[[enc(k), f"{k:.3e}".strip()] for k in fin]]
    if len({s for _, s in fmts[0]}) < len({float(k) for k in fin}):
        fmts = [[[enc(k), f"{k:.{n}e}".strip()] for k in fin] for n in range(3, 18)]
    strform = []
    if not quant:
        for _, vs in vo.content.items():
            for v in vs:
                if not isinstance(v, str) and not C.is_nan(v):
                    strform.append([enc(v), py_strform(v)])
    return {"name": name, "kind": "quant" if quant else "qual", "keys": encs(keys), "content": content,
            "str_nan": obj.str_nan, "str_default": obj.str_default,
            "dropna": bool(obj.features_dropna[name]), "odt": obj.output_dtype,
            "lpv": [[enc(k), enc(l)] for k, l in obj.labels_per_values[name].items()],
            "fmts": fmts, "strform": strform}


def string_fit_runs(case):
    """StringDiscretizer.fit_feature on every qualitative training column holding non-string values"""
    import pandas as pd
    from AutoCarver.discretizers.utils.base_discretizers import nan_unique
    from AutoCarver.discretizers.utils.type_discretizers import fit_feature

    runs = []
    for f in case["features"]:
        if f["kind"] == "quant" or "hand" in f:
            continue
        vals = decs(f["values"])
        if all(isinstance(v, str) or C.is_nan(v) for v in vals):
            continue
        col = pd.Series(vals, dtype=object)
        uniques = list(nan_unique(col))
        r = {"name": f["name"], "uniques": encs(uniques), "has_nan": bool(col.isna().any()),
             "table": [[enc(v), py_strform(v)] for v in uniques if not isinstance(v, str)]}
        try:
            _, order = fit_feature(f["name"], pd.Series(vals, dtype=object), "__NAN__")
            r["keys"] = encs(list(order))
            r["content"] = [[enc(k), encs(list(v))] for k, v in order.content.items()]
        except Exception as e:  # noqa: BLE001
            r["exc"] = C.exc_class(e)
        runs.append(r)
    return runs


def oracle_sf(r):
    if "exc" in r:
        return False, f"StringDiscretizer.fit_feature raised ({r['exc']}) on feature {r['name']}"
    keys = decs(r["keys"])
    content = [[dec(k), decs(vs)] for k, vs in r["content"]]
    tbl = [[dec(v), s] for v, s in r["table"]]
    for v in decs(r["uniques"]):
        form = v if isinstance(v, str) else next(s for k, s in tbl if veq(k, v))
        holders = [k for k, vs in content if isin(v, vs)]
        if len(holders) != 1 or not veq(holders[0], form) or not isin(form, keys):
            return False, (f"feature {r['name']}: StringDiscretizer puts {v!r} in group(s) {holders!r}, "
                           f"not under its string form {form!r}")
    return True, ""


def coq_sfcase(r):
    uniq = decs(r["uniques"])
    nums = numbers_of(uniq)
    if "keys" in r:
        nums += numbers_of(decs(r["keys"])) + [v for k, vs in r["content"] for v in numbers_of(decs(vs) + [dec(k)])]
    sc = C.Scale(0).fit([float(x) if not isinstance(x, (int, np.integer)) else int(x) for x in nums])

    def v(x):
        return C.cval(x, sc)

    if "exc" in r:
        impl = "SFAssert" if r["exc"] == "assert" else "SFInternal"
    else:
        impl = ("(SFOk " + C.clist([v(k) for k in decs(r["keys"])]) + " "
                + C.clist([C.cpair(v(dec(k)), C.clist([v(x) for x in decs(vs)])) for k, vs in r["content"]]) + ")")
    return ("mkSF " + C.clist([C.cpair(v(dec(k)), f"(VStr {C.cstr(s)})") for k, s in r["table"]]) + " "
            + C.clist([v(x) for x in uniq]) + " " + C.cbool(r["has_nan"]) + ' (VStr "__NAN__") ' + impl)


def float32_runs(obj, case, names):
    """a few float32 neighbours of the float64 boundaries, transformed in a float32 column.
    Judged by the python-side oracle only (the model is the float64 semantics)."""
    runs = []
    kept = [f for f in case["features"] if f["name"] in names]
    sub = dict(case, features=kept)
    for f in kept:
        if f["kind"] != "quant":
            continue
        st = extract_state(obj, f["name"])
        fin = [k for k in decs(st["keys"]) if not isinstance(k, str) and not C.is_nan(k) and math.isfinite(k)]
        cells = []
        for b in fin[:4]:
            with np.errstate(all="ignore"):
                c = np.float32(b)
                for x in (np.nextafter(c, np.float32(-np.inf)), c, np.nextafter(c, np.float32(np.inf))):
                    if np.isfinite(x):
                        cells.append(float(x))
        if not cells:
            continue
        X = probe_frame(sub, f["name"], cells, "float32")
        outs, exc = run_transform(obj, X, [f["name"]])
        runs.append({"state": st, "cells": encs(cells), "out": outs[f["name"]], "exc": exc})
    return runs


def oracle_f32(r):
    """float64 lookup expected; the failure is the KNOWN one iff the output is exactly what
    comparing in float32 (numpy's weak python-float scalar) predicts"""
    st = St(r["state"])
    name = r["state"]["name"]
    if isinstance(r["out"], str):
        return False, f"[float32 column] feature {name}: transform raised ({r['out']}: {r.get('exc')})"
    for c, o in zip(decs(r["cells"]), decs(r["out"])):
        l = st.first_geq(c)
        exp = None if l is None else st.label(l)
        if exp is not None and leq(exp, o):
            continue
        with np.errstate(all="ignore"):
            l32 = next((k for k in st.leaders() if not isinstance(k, str) and not C.is_nan(k)
                        and np.float32(c) <= np.float32(k)), None)
        if l32 is not None and leq(st.label(l32), o):
            return False, (f"[float32 column] feature {name}: cell {c!r} -> {o!r} = label of boundary {l32!r} "
                           f"(comparison evaluated in float32); the first boundary >= it is {l!r} with label {exp!r}")
        return False, (f"[float32 column] feature {name}: cell {c!r} -> {o!r}, but the first boundary >= it is "
                       f"{l!r} with label {exp!r}")
    return True, ""


def known_sigs_f32(msg):
    if msg.startswith("[float32 column]") and "(comparison evaluated in float32)" in msg:
        return ["float32_column_compared_in_float32"]
    return []


def benign_value(col):
    for v in col:
        if not C.is_nan(v):
            return v
    return col[0]


def probe_frame(case, name, cells, dtype="float64"):
    """frame with the fitted columns: `name` holds the probe cells, the others a value seen at fit"""
    import pandas as pd

    cols = {}
    for f in case["features"]:
        if f["name"] == name:
            if f["kind"] == "quant":
                cols[name] = as_dtype(cells, dtype)
            else:
                cols[name] = pd.Series(list(cells), dtype=object)
        else:
            b = benign_value(f.get("train") or decs(f["values"]))
            if f["kind"] == "quant":
                cols[f["name"]] = pd.Series(np.array([float(b)] * len(cells), dtype=float))
            else:
                cols[f["name"]] = pd.Series([b] * len(cells), dtype=object)
    return pd.DataFrame(cols)


INDEX_VARIANTS = ["default", "default", "offset", "shuffled", "str", "selection"]


def reindexed(X, variant, rng):
    """the same rows under a non-default row index (transform must be positional-neutral)"""
    import pandas as pd

    n = len(X)
    if variant == "default" or n == 0:
        return X
    if variant == "offset":
        X.index = pd.RangeIndex(1000, 1000 + n)
    elif variant == "shuffled":
        idx = list(range(n))
        rng.shuffle(idx)
        X.index = pd.Index(idx)
    elif variant == "str":
        X.index = pd.Index([f"r{i}" for i in range(n)])
    elif variant == "selection":          # a row selection of a larger frame
        big = pd.concat([X, X.iloc[::-1]], ignore_index=True)
        order = list(range(2 * n))
        rng.shuffle(order)
        big = big.iloc[order]
        big.index = pd.RangeIndex(0, 2 * n)
        mask = [o < n for o in order]
        sel = big[mask]
        pos = {o: i for i, o in enumerate([o for o in order if o < n])}
        # bring the selected rows back into the original row order, keeping their (odd) labels
        X = sel.iloc[[pos[i] for i in range(n)]]
    return X


def as_dtype(cells, dtype):
    """a quantitative probe column stored as float64 / object / nullable Int64 / Float64"""
    import pandas as pd

    if dtype == "object":
        return pd.Series([None if C.is_nan(v) else v for v in cells], dtype=object)
    if dtype == "object-nan":
        return pd.Series(list(cells), dtype=object)
    if dtype in ("Int64", "Float64"):
        return pd.Series([pd.NA if C.is_nan(v) else v for v in cells], dtype=dtype)
    if dtype == "int64":
        return pd.Series([int(v) for v in cells], dtype="int64")
    if dtype == "float32":
        return pd.Series(np.array(cells, dtype="float32"))
    return pd.Series(np.array([float(v) for v in cells], dtype=float))


def norm_cell(x):
    import pandas as pd

    if x is None or x is pd.NA:
        return NAN
    return x


def run_transform(obj, X, names):
    try:
        out = obj.transform(X)
    except Exception as e:  # noqa: BLE001
        return {n: C.exc_class(e) for n in names}, f"{type(e).__name__}: {str(e)[:160]}"
    if len(out) != len(X) or list(out.index) != list(X.index):
        return {n: "internal" for n in names}, "transform changed the rows / the index of the frame"
    return {n: encs([norm_cell(v) for v in out[n]]) for n in names}, None


def dedup_pairs(cells, outs):
    seen, cs, os_ = set(), [], []
    for c, o in zip(cells, outs):
        key = json.dumps([c, o])
        if key not in seen:
            seen.add(key)
            cs.append(c)
            os_.append(o)
    return cs, os_


def fit_or_skip(case):
    try:
        return fit_object(case), None
    except Exception as e:  # noqa: BLE001  (fit failures belong to C08)
        return None, {"skip": f"fit raised {C.exc_class(e)}: {type(e).__name__}"}


# ------------------------------------------------------------------------------------------------
# Coq encoding
# ------------------------------------------------------------------------------------------------
def numbers_of(xs):
    return [x for x in xs if not isinstance(x, str) and x is not None]


def coq_label(x, odt, sc):
    """a label of labels_per_values -> Coq `label`"""
    if isinstance(x, str):
        return f"(LVal (VStr {C.cstr(x)}))"
    if odt == "float" and not C.is_nan(x) and float(x).is_integer() and 0 <= x < 100000:
        return f"(LRank {int(x)}%nat)"
    return f"(LVal {C.cval(x, sc)})"


def coq_out(x, odt, sc):
    """an output cell -> Coq `out`"""
    if x is None or C.is_nan(x):
        return "OMissing"
    if isinstance(x, str):
        return f"(OLab (LVal (VStr {C.cstr(x)})))"
    if odt == "float":
        if math.isfinite(x) and float(x).is_integer() and 0 <= x < 100000:
            return f"(OLab (LRank {int(x)}%nat))"
        return f"(ORaw {C.cval(x, sc)})"
    return f"(OLab (LVal {C.cval(x, sc)}))"


def coq_tcase(st, cells, outs, fitted=True):
    keys = decs(st["keys"])
    content = [[dec(k), decs(vs)] for k, vs in st["content"]]
    lpv = [[dec(k), dec(l)] for k, l in st["lpv"]]
    cells_d = decs(cells)
    outs_d = None if isinstance(outs, str) else decs(outs)
    nums = numbers_of(keys) + [v for k, vs in content for v in numbers_of([k] + vs)]
    nums += numbers_of([k for k, _ in lpv]) + numbers_of(cells_d)
    if st["odt"] == "str":
        nums += numbers_of([l for _, l in lpv])
    if outs_d is not None:
        nums += numbers_of(outs_d)
    nums += numbers_of([dec(k) for k, _ in st["fmts"][0]]) + numbers_of([dec(v) for v, _ in st["strform"]])
    sc = C.Scale(0).fit([float(x) if not isinstance(x, (int, np.integer)) else int(x) for x in nums
                         if not C.is_nan(x)])

    def v(x):
        return C.cval(x, sc)

    kind = "Quant" if st["kind"] == "quant" else "Qual"
    odt = "OFloat" if st["odt"] == "float" else "OStr"
    if outs_d is None:
        iout = "IAssert" if outs == "assert" else "IInternal"
    else:
        iout = "(IOk " + C.clist([coq_out(o, st["odt"], sc) for o in outs_d]) + ")"
    return ("mkTCase " + " ".join([
        C.cbool(fitted), kind, C.clist([v(k) for k in keys]),
        C.clist([C.cpair(v(k), C.clist([v(x) for x in vs])) for k, vs in content]),
        f"(VStr {C.cstr(st['str_nan'] or '')})", f"(VStr {C.cstr(st['str_default'] or '')})",
        C.cbool(st["dropna"]), odt,
        C.clist([C.clist([C.cpair(v(dec(k)), C.cstr(s)) for k, s in t]) for t in st["fmts"]]),
        C.cZ(1 << sc.s),
        C.clist([C.cpair(v(k), coq_label(l, st["odt"], sc)) for k, l in lpv]),
        C.clist([C.cpair(v(dec(x)), f"(VStr {C.cstr(s)})") for x, s in st["strform"]]),
        C.clist([v(x) for x in cells_d]), iout]))


_BIGNUM = re.compile(r"(?<![\w.])\d{15,}(?![\w.%])")


def hexify(txt):
    """long decimal literals -> hexadecimal ones (linear-time parsing); string literals untouched"""
    parts = txt.split('"')
    for i in range(0, len(parts), 2):
        parts[i] = _BIGNUM.sub(lambda m: hex(int(m.group(0))), parts[i])
    return '"'.join(parts)


MAX_CELLS = 160


def thin_cells(st, cells, outs):
    """at most MAX_CELLS (cell, output) pairs of a quantitative feature go to Coq: the neighbours
    of every leader plus an even sample (the python-side oracle still sees every pair)"""
    if isinstance(outs, str) or len(cells) <= MAX_CELLS or st["kind"] != "quant":
        return cells, outs
    vals = decs(cells)
    order = sorted(range(len(vals)), key=lambda i: (C.is_nan(vals[i]), vals[i] if not C.is_nan(vals[i]) else 0))
    keep = set()
    leaders = [k for k in decs(st["keys"]) if not isinstance(k, str) and not C.is_nan(k)]
    fin = [i for i in order if not C.is_nan(vals[i])]
    import bisect
    xs = [vals[i] for i in fin]
    for l in leaders:
        j = bisect.bisect_left(xs, l)
        for d in (-2, -1, 0, 1, 2):
            if 0 <= j + d < len(fin):
                keep.add(fin[j + d])
    keep.update(i for i in order if C.is_nan(vals[i]))
    step = max(1, len(order) // max(1, MAX_CELLS - len(keep)))
    keep.update(order[::step])
    idx = sorted(keep)[:MAX_CELLS + 40]
    return [cells[i] for i in idx], [outs[i] for i in idx]


def coq_shards_for(cases, outs, verdict_fn, per_shard=12):
    shards = []
    for part in chunks(list(zip(cases, outs)), per_shard):
        body = []
        for c, o in part:
            tcs = [coq_tcase(st, *thin_cells(st, r["cells"], r["out"]), fitted=c["cls"] != "Base")
                   for st, r in zip(o["features"], o["runs"])]
            sfs = [coq_sfcase(r) for r in o.get("string_fit", [])]
            body.append(C.cpair(C.clist(tcs), C.clist(sfs)))
        txt = ("From AC.Model Require Import Base GroupedList Labels Transform FormatRule CheckC04 CheckC05 "
               "StringForm.\n"
               "Open Scope string_scope.\n"
               "Definition cases : list (list tcase * list sfcase) := [\n  " + ";\n  ".join(body) + "\n].\n"
               f"Eval vm_compute in map (fun p => worst (map {verdict_fn} (fst p) ++ map verdict_sf (snd p))) "
               "cases.\n")
        shards.append(hexify(txt))
    return shards


# ------------------------------------------------------------------------------------------------
# python-side mirror of the state (oracle)
# ------------------------------------------------------------------------------------------------
def veq(a, b):
    if C.is_nan(a) or C.is_nan(b):
        return C.is_nan(a) and C.is_nan(b)
    if isinstance(a, str) or isinstance(b, str):
        return isinstance(a, str) and isinstance(b, str) and a == b
    return a == b


def isin(x, xs):
    return any(veq(x, y) for y in xs)


class St:
    def __init__(self, st):
        self.kind, self.odt, self.dropna = st["kind"], st["odt"], st["dropna"]
        self.nan, self.default = st["str_nan"], st["str_default"]
        self.keys = decs(st["keys"])
        self.content = [[dec(k), decs(vs)] for k, vs in st["content"]]
        self.lpv = [[dec(k), dec(l)] for k, l in st["lpv"]]
        self.fmt = [[dec(k), s] for k, s in st["fmts"][0]]
        self.strform = [[dec(v), s] for v, s in st["strform"]]

    def values(self):
        return [v for _, vs in self.content for v in vs]

    def group(self, v):
        for k, vs in self.content:
            if isin(v, vs):
                return k
        return v

    def contains(self, v):
        return isin(v, self.values())

    def label(self, k):
        for kk, l in self.lpv:
            if veq(kk, k):
                return l
        return None

    def leaders(self):
        return [k for k in self.keys if not (isinstance(k, str) and k == self.nan)]

    def first_geq(self, x):
        for l in self.leaders():
            if not isinstance(l, str) and not C.is_nan(l) and x <= l:
                return l
        return None


def leq(a, b):
    """label equality (1 == 1.0, NaN == NaN)"""
    if a is None or b is None:
        return a is None and b is None
    return veq(a, b)


def oracle_c04(st_json, cells, outs):
    st = St(st_json)
    if isinstance(outs, str):
        return False, f"transform of the training frame raised ({outs})"
    for c, o in zip(decs(cells), decs(outs)):
        if C.is_nan(c):
            if not st.contains(st.nan):
                continue
            exp = st.label(st.group(st.nan)) if st.dropna else NAN
        elif st.kind == "qual":
            if not st.contains(c):
                continue
            exp = st.label(st.group(c))
        else:
            l = st.first_geq(c)
            exp = None if l is None else st.label(l)
        if exp is None or not leq(exp, o):
            return False, (f"feature {st_json['name']}: cell {c!r} -> {o!r}, but its group's label in "
                           f"labels_per_values is {exp!r}")
    labs = [st.label(k) for k in st.keys]
    for i, a in enumerate(labs):
        if a is None:
            return False, f"feature {st_json['name']}: leader {st.keys[i]!r} has no label"
        for j in range(i):
            if leq(a, labs[j]):
                return False, (f"feature {st_json['name']}: distinct groups {st.keys[j]!r} and "
                               f"{st.keys[i]!r} share the label {a!r}")
    if st.odt == "float":
        for i, a in enumerate(labs):
            if isinstance(a, str) or a != i:
                return False, f"feature {st_json['name']}: float label of group #{i} is {a!r}"
    for v, s in st.strform:
        if st.contains(s) and not veq(st.group(v), st.group(s)):
            return False, (f"feature {st_json['name']}: numeric value {v!r} is not grouped with its "
                           f"string form {s!r} (groups {st.group(v)!r} / {st.group(s)!r})")
    return True, ""


def signatures_c04(st_json):
    st = St(st_json)
    sigs = []
    labs = [st.label(k) for k in st.keys]
    strs = [s for _, s in st.fmt]
    if st.kind == "quant" and st.odt == "str" and len(set(strs)) < len(strs):
        if any(leq(a, b) for i, a in enumerate(labs) for b in labs[:i]):
            sigs.append("two_boundaries_same_3e")
    for v, s in st.strform:
        if st.contains(s) and not veq(st.group(v), st.group(s)):
            sigs.append("number_and_its_string_form_in_one_column")
            break
    if any(isin(k, st.keys[:i]) for i, k in enumerate(st.keys)):
        sigs.append("duplicated_leader")
    return sigs


# ------------------------------------------------------------------------------------------------
class C04(Prop):
    pid = "C04"
    verdict_fn = "verdict04"
    theorems = ["C04_label_table", "C04_transform_is_lookup_qualitative",
                "C04_transform_is_lookup_quantitative", "C04_missing_values", "C04_float_labels_are_ranks",
                "C04_float_labels_distinct", "C04_qualitative_str_labels_distinct",
                "C04_str_labels_distinct_iff", "C04_str_labels_distinct_when_injective",
                "C04_distinct_groups_distinct_labels", "C04_str_labels_distinct",
                "C04_two_equal_bounds_still_distinct", "C04_values_matched_through_their_string_form",
                "C04_string_discretizer_total_and_wf"]
    rule = ("one case = one training frame (40-400 rows, 1-3 features: continuous/discrete/close-"
            "boundary quantitative, categorical incl. numeric-looking values, ordinal; NaN share "
            "0-30%) x class (Discretizer, QuantitativeDiscretizer, QualitativeDiscretizer, "
            "BinaryCarver, ContinuousCarver) x output_dtype x dropna x JSON rebuild; the training "
            "frame is transformed and every distinct (input cell, output cell) pair of every fitted "
            "feature is compared with the lookup computed from values_orders/labels_per_values; "
            "non-trivial = at least one feature survived fit; distinct = distinct (class, feature "
            "kinds+flavours, output_dtype, dropna, json, number of groups, NaN placement) signature")
    assumptions = [
        "1 and 1.0 are one value (pandas/dict hashing identifies them too)",
        "Discretizer classes hard-code output_dtype='str'/dropna=True; the other combinations are "
        "obtained by editing these two fields in the object's JSON before load_discretizer",
        "fits that raise (any class) are skipped here: they belong to C08",
        "CPython's f'{x:.{n}e}' (n=3..17) and str() are oracle tables (the digit-selection rule of "
        "format_quantiles and the grouping rule of StringDiscretizer.fit_feature are modelled); pandas "
        "replace/select are glue covered only by the correspondence",
        "Model/StringForm.v (StringDiscretizer.fit_feature) is tied by correspondence and closed "
        "examples only; its general theorem (every raw value ends under its string form) is not proved",
    ]
    trusted_extra = ["state extraction in harness/props/c04.py (values_orders list+content, "
                     "labels_per_values, features_dropna read from the fitted object)"]

    # ---- generation -------------------------------------------------------------------------
    def corpus(self):
        cs = []
        # O2: boundaries equal to 4 significant digits, output_dtype='str'
        xs = [float(202301 + (i * 7) % 12) for i in range(240)]
        cs.append({"cls": "QuantitativeDiscretizer", "json": False,
                   "params": {"min_freq": 0.1, "output_dtype": "str", "dropna": True},
                   "features": [{"name": "q0", "kind": "quant", "flavour": "yyyymm", "values": encs(xs)}],
                   "y": [1 if (i * 5) % 12 < (x - 202301) else 0 for i, x in enumerate(xs)]})
        # unix-second timestamps: boundaries equal on their first 9 significant digits
        xs = [float(1700000000 + (i * 5) % 8) for i in range(160)]
        cs.append({"cls": "QuantitativeDiscretizer", "json": False,
                   "params": {"min_freq": 0.1, "output_dtype": "str", "dropna": True},
                   "features": [{"name": "q0", "kind": "quant", "flavour": "timestamp", "values": encs(xs)}],
                   "y": [1 if (i * 3) % 8 < (x - 1700000000) else 0 for i, x in enumerate(xs)]})
        # ... and the same boundaries in a hand-made BaseDiscretizer state (16 significant digits)
        ks = [1.0 + j * 2.0 ** -50 for j in range(4)]
        cs.append({"cls": "Base", "json": False, "y": [],
                   "params": {"min_freq": 0.1, "output_dtype": "str", "dropna": True},
                   "features": [{"name": "h0", "kind": "quant", "flavour": "hand",
                                 "hand": {"keys": encs(ks + [math.inf]),
                                          "content": [[enc(k), encs([k])] for k in ks + [math.inf]]},
                                 "values": encs(ks + [2.0, 0.5])}]})
        # 1 and "1" in one qualitative column
        pool = [1, "1", "a", 2]
        xs = [pool[(i * 3 + i // 4) % 4] for i in range(120)]
        cs.append({"cls": "QualitativeDiscretizer", "json": False,
                   "params": {"min_freq": 0.05, "output_dtype": "str", "dropna": True},
                   "features": [{"name": "c0", "kind": "cat", "flavour": "mixed", "values": encs(xs)}],
                   "y": [(i * 7) % 3 % 2 for i in range(120)]})
        # numeric categories through JSON, float labels, NaN kept missing
        xs = [[1.0, 2.0, 3.5, NAN][(i * 5 + i // 3) % 4] for i in range(90)]
        cs.append({"cls": "Discretizer", "json": True,
                   "params": {"min_freq": 0.1, "output_dtype": "float", "dropna": False},
                   "features": [{"name": "c0", "kind": "cat", "flavour": "floats", "values": encs(xs)}],
                   "y": [(i * 11) % 5 % 2 for i in range(90)]})
        return cs

    def generate(self, rng, tier):
        n = 260 if tier == "quick" else 3000
        cases = []
        for i in range(n):
            cls = CLASSES[i % len(CLASSES)]
            force = {}
            r = rng.random()
            if r < 0.12:
                force = {"kind": "quant", "qflavour": rng.choice(["yyyymm", "close", "timestamp"])}
            elif r < 0.24:
                force = {"kind": "cat", "cflavour": rng.choice(["ints", "floats", "numstr", "mixed"])}
            cases.append(gen_case(rng, cls, force))
        return cases

    def search_cases(self, rng, neighbours, rnd):
        return [gen_case(rng) for _ in range(60)]

    # ---- implementation -------------------------------------------------------------------
    def run_impl(self, case):
        obj, skip = fit_or_skip(case)
        if skip:
            return skip
        names = [f["name"] for f in case["features"] if f["name"] in obj.features]
        if not names:
            return {"skip": "every feature was dropped at fit"}
        states = [extract_state(obj, n) for n in names]
        X = build_frame(case)
        cells = {n: encs(list(X[n])) for n in names}
        import random
        vrng = random.Random(len(case["y"]) * 7919 + 31 * len(case["features"]) + len(json.dumps(case["params"])))
        variant = vrng.choice(INDEX_VARIANTS)
        X = reindexed(X, variant, vrng)
        outs, exc = run_transform(obj, X, names)
        runs = []
        for n in names:
            if isinstance(outs[n], str):
                cs, _ = dedup_pairs(cells[n], cells[n])
                runs.append({"cells": cs, "out": outs[n]})
            else:
                cs, os_ = dedup_pairs(cells[n], outs[n])
                runs.append({"cells": cs, "out": os_})
        return {"features": states, "runs": runs, "exc": exc, "index": variant,
                "string_fit": string_fit_runs(case), "float32": float32_runs(obj, case, names)}

    def oracle(self, case, out):
        for st, r in zip(out["features"], out["runs"]):
            ok, msg = oracle_c04(st, r["cells"], r["out"])
            if not ok:
                return False, msg
        for r in out.get("string_fit", []):
            ok, msg = oracle_sf(r)
            if not ok:
                return False, msg
        known = None                      # a failure that is not the recorded finding comes first
        for r in out.get("float32", []):
            ok, msg = oracle_f32(r)
            if not ok:
                if not known_sigs_f32(msg):
                    return False, msg
                known = known or msg
        return (False, known) if known else (True, "")

    def coq_shards(self, cases, outs):
        return coq_shards_for(cases, outs, self.verdict_fn)

    # ---- evidence -------------------------------------------------------------------------
    def signature(self, case, out):
        if "features" not in out:
            return None
        parts = []
        for st in out["features"]:
            keys = decs(st["keys"])
            nanpos = "-"
            if st["str_nan"] in [k for k in keys if isinstance(k, str)]:
                nanpos = "own"
            elif any(st["str_nan"] in [v for v in decs(vs) if isinstance(v, str)] for _, vs in st["content"]):
                nanpos = "grouped"
            fl = next(f["flavour"] for f in case["features"] if f["name"] == st["name"])
            parts.append(f"{st['kind']}:{fl}:{len(keys)}:{nanpos}")
        p = case["params"]
        return f"{case['cls']}|{p['output_dtype']}|{p['dropna']}|{bool(case.get('json'))}|{','.join(parts)}"

    def finding_signatures(self, case, out, msg):
        sigs = known_sigs_f32(msg)
        for st in out.get("features", []):
            sigs += signatures_c04(st)
        if any(not oracle_sf(r)[0] for r in out.get("string_fit", [])):
            sigs.append("number_and_its_string_form_in_one_column")
        return sigs

    def shrink(self, case, out, msg):
        """drop rows / features while the oracle still fails"""
        best = (case, out, msg)

        def attempt(cand):
            o = C._worker((self.run_impl, cand))
            if not isinstance(o, dict) or "features" not in o:
                return None
            ok, m = self.oracle(cand, o)
            return None if ok else (cand, o, m)

        cur = case
        if len(cur["features"]) > 1:
            for i in range(len(cur["features"])):
                cand = dict(cur, features=[cur["features"][i]])
                r = attempt(cand)
                if r:
                    best, cur = r, cand
                    break
        n = len(cur["y"])
        step = n // 2
        tries = 0
        while step >= 1 and tries < 40:
            changed = False
            for start in range(0, n, step):
                keep = [i for i in range(n) if not start <= i < start + step]
                if len(keep) < 10:
                    continue
                cand = dict(cur, y=[cur["y"][i] for i in keep],
                            features=[dict(f, values=[f["values"][i] for i in keep]) for f in cur["features"]])
                tries += 1
                r = attempt(cand)
                if r:
                    best, cur, n, changed = r, cand, len(keep), True
                    break
                if tries >= 40:
                    break
            if not changed:
                step //= 2
        return best

    def distribution(self, cases, outs):
        d = {"classes": {}, "rows": {}, "n_features": {}, "flavours": {}, "output_dtype": {},
             "dropna": {}, "json_rebuilt": 0, "skipped": {}, "groups_per_feature": {},
             "nan_share": {}, "transform_exceptions": 0, "cells_compared": 0, "string_fit_runs": 0,
             "frame_index": {}}

        def inc(h, k):
            h[str(k)] = h.get(str(k), 0) + 1

        for c, o in zip(cases, outs):
            inc(d["classes"], c["cls"])
            inc(d["rows"], len(c["y"]))
            inc(d["n_features"], len(c["features"]))
            inc(d["output_dtype"], c["params"]["output_dtype"])
            inc(d["dropna"], c["params"]["dropna"])
            d["json_rebuilt"] += 1 if c.get("json") else 0
            for f in c["features"]:
                inc(d["flavours"], f.get("flavour"))
                nn = sum(1 for t in f["values"] if t[0] == "nan")
                inc(d["nan_share"], round(nn / max(1, len(f["values"])), 1))
            if isinstance(o, dict) and "features" in o:
                d["string_fit_runs"] += len(o.get("string_fit", []))
                d["float32_probe_cells"] = d.get("float32_probe_cells", 0) + sum(
                    len(r["cells"]) for r in o.get("float32", []))
                if "index" in o:
                    inc(d["frame_index"], o["index"])
                for st, r in zip(o["features"], o["runs"]):
                    inc(d["groups_per_feature"], len(st["keys"]))
                    d["cells_compared"] += len(r["cells"])
                    if isinstance(r["out"], str):
                        d["transform_exceptions"] += 1
        return d


PROP = C04()
