"""Interface every property module implements (see main.py)."""
import math

import numpy as np


class Prop:
    pid = "C00"
    theorems = []          # names of the theorems in Properties/<pid>.v (for replay files)
    rule = ""
    assumptions = []
    trusted_extra = []
    coq_targets = None     # .vo files this check needs (default Properties/<pid>.vo + Model/Check<pid>.vo)

    def corpus(self):
        return []

    def generate(self, rng, tier):
        raise NotImplementedError

    def search_cases(self, rng, neighbours, rnd):
        """extra cases when an obligation broke: boundary generators at higher volume"""
        return self.generate(rng, "quick")

    def run_impl(self, case):
        raise NotImplementedError

    def oracle(self, case, out):
        return True, ""

    def coq_shards(self, cases, outs):
        raise NotImplementedError

    def signature(self, case, out):
        return None

    def finding_signatures(self, case, out, msg):
        return []

    def shrink(self, case, out, msg):
        return case, out, msg

    def distribution(self, cases, outs):
        return {}


# ---- tagged JSON encoding of Python cell values --------------------------------------------
NAN = np.nan


def enc(x):
    if isinstance(x, str):
        return ["s", str(x)]
    if isinstance(x, (bool, np.bool_)):
        return ["b", bool(x)]
    if isinstance(x, (int, np.integer)):
        return ["i", int(x)]
    if isinstance(x, (float, np.floating)):
        x = float(x)
        if x != x:
            return ["nan"]
        if math.isinf(x):
            return ["inf"] if x > 0 else ["-inf"]
        return ["f", x.hex()]
    if x is None:
        return ["none"]
    return ["?", repr(x)]


def dec(t):
    k = t[0]
    if k == "s":
        return t[1]
    if k == "i":
        return int(t[1])
    if k == "f":
        return float.fromhex(t[1])
    if k == "nan":
        return NAN
    if k == "inf":
        return math.inf
    if k == "-inf":
        return -math.inf
    if k == "none":
        return None
    if k == "b":
        return bool(t[1])
    raise ValueError(t)


def encs(xs):
    return [enc(x) for x in xs]


def decs(ts):
    return [dec(t) for t in ts]


def chunks(xs, n):
    return [xs[i:i + n] for i in range(0, len(xs), n)]
