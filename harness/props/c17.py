"""C17 — Manual edits through update_discretizer are applied coherently.

One case = a small training frame + class/configuration (generated with the C04 machinery, real
BinaryCarver / ContinuousCarver / Discretizer fits) + an ABSTRACT edit plan.  The plan is resolved
against the object's current values_orders at run time (so that a shrunk frame still yields
meaningful edits); every resolved call `update_discretizer(feature, mode, discarded, kept)` is
classified by `classify` as
   valid      — the property applies (adjacent groups for ordered features, any groups for
                categorical ones, a new modality or the missing value into an existing group,
                'replace' of a leader by a fresh value or by a member of its group),
   b / c      — valid by the property's text but known to fail (O8b: NaN already merged,
                O8c: quantitative downward merge); only generated as the LAST edit of the cases of
                their own streams,
   malformed  — anything else (mode typo, kept missing/unknown, discarded not a leader, ...): only
                the agreement with the model is checked from there on.
After EACH call the harness observes values_orders[f] (list + content), features_dropna[f],
labels_per_values[f], transform(X_train), summary(f) and the transform of
load_*(json.loads(json.dumps(obj.to_json()))).
"""
import hashlib
import json
import math
import os
import warnings

import numpy as np

import common as C
from props import c04 as K
from props.base import NAN, Prop, chunks, dec, decs, enc, encs

veq, isin, leq = K.veq, K.isin, K.leq

CLASSES = ["BinaryCarver", "ContinuousCarver", "Discretizer", "BinaryCarver", "ContinuousCarver",
           "Discretizer", "QuantitativeDiscretizer", "QualitativeDiscretizer"]
QFLAV = ["uniform", "uniform", "discrete", "halves", "negative", "yyyymm", "close"]
CFLAV = ["letters", "letters", "rare", "numstr", "ints"]

VALID_OPS = ["group", "group", "group", "nan_group", "group_fresh", "replace_fresh",
             "replace_member", "noop_same", "group_new_name"]
MALFORMED_OPS = ["typo", "kept_nan", "kept_fresh", "disc_member", "replace_leader",
                 "replace_foreign_member", "nan_literal", "nonadjacent", "into_nan",
                 "replace_unknown_disc", "group_down_mid"]


def is_num(x):
    return not isinstance(x, str) and not C.is_nan(x)


# ------------------------------------------------------------------------------------------------
# plain mirror of one feature's order
# ------------------------------------------------------------------------------------------------
class PS:
    def __init__(self, keys, content, nan, kind):
        self.keys, self.content, self.nan, self.kind = list(keys), [[k, list(v)] for k, v in content], nan, kind

    @classmethod
    def of_obs(cls, ob, nan, kind):
        return cls(decs(ob["keys"]), [[dec(k), decs(vs)] for k, vs in ob["content"]], nan, kind)

    def leaders(self):
        return [k for k in self.keys if not veq(k, self.nan)]

    def values(self):
        return [v for _, vs in self.content for v in vs]

    def contains(self, v):
        return isin(v, self.values())

    def members(self, k):
        for kk, vs in self.content:
            if veq(kk, k):
                return vs
        return []

    def group_of(self, v):
        for kk, vs in self.content:
            if isin(v, vs):
                return kk
        return None

    def is_leader(self, v):
        return isin(v, self.keys)

    def wf(self):
        ck = [k for k, _ in self.content]
        allv = self.values()
        return (not any(isin(k, self.keys[:i]) for i, k in enumerate(self.keys))
                and all(isin(k, ck) for k in self.keys) and all(isin(k, self.keys) for k in ck)
                and not any(isin(v, allv[:i]) for i, v in enumerate(allv))
                and all(isin(k, vs) for k, vs in self.content))


def fresh_str(S, c):
    i = c % 7
    while S.contains(f"new{i}"):
        i += 1
    return f"new{i}"


def num_neighbours(S, d):
    L = [k for k in S.leaders() if is_num(k)]
    i = next(j for j, k in enumerate(L) if veq(k, d))
    return (L[i - 1] if i > 0 else None), (L[i + 1] if i + 1 < len(L) else None)


def fresh_threshold(S, d, c):
    """a finite number strictly between the neighbours of the finite leader d, unknown to the order"""
    lo, hi = num_neighbours(S, d)
    cands = []
    cands.append((lo + d) / 2 if lo is not None else d - 1.0)
    cands.append((d + hi) / 2 if hi is not None and math.isfinite(hi) else d + 1.0)
    cands.append(float(round(d, 1)))
    cands.append(float(round(d)))
    cands = cands[c % 4:] + cands[:c % 4]
    for x in cands:
        x = float(x)
        if not math.isfinite(x) or S.contains(x) or abs(x) > 1e12 or (x != 0 and abs(x) < 1e-9):
            continue
        if (lo is None or lo < x) and (hi is None or x < hi):
            return x
    return None


def noop(S):
    L = S.leaders()
    return ("group", L[0], L[0])


def resolve(ab, S):
    """abstract edit -> concrete (mode, discarded, kept) against the current order"""
    op, a, b, c = ab["op"], ab["a"], ab["b"], ab["c"]
    L = S.leaders()
    quant, ordered = S.kind == "quant", S.kind in ("quant", "ord")
    numL = [k for k in L if is_num(k)] if quant else L
    finL = [k for k in numL if math.isfinite(k)] if quant else L

    if op == "group" or (op == "group_fresh" and quant):
        if len(numL) < 2:
            return noop(S)
        if ordered:
            i = a % (len(numL) - 1)
            d, k = numL[i], numL[i + 1]
            if S.kind == "ord" and b % 2:
                d, k = k, d
        else:
            i = a % len(L)
            j = (i + 1 + b % (len(L) - 1)) % len(L)
            d, k = L[i], L[j]
        return ("group", d, k)
    if op == "group_new_name":       # an existing group is grouped into a NEW name (appended last)
        if quant:
            return resolve(dict(ab, op="group"), S)
        return ("group", L[a % len(L)], fresh_str(S, c))
    if op == "nan_group":
        return ("group", NAN, numL[a % len(numL)])
    if op == "group_fresh":
        return ("group", fresh_str(S, c), L[a % len(L)])
    if op in ("replace_fresh", "replace_member"):
        if op == "replace_member":
            for s in range(len(L)):
                d = L[(a + s) % len(L)]
                ms = [m for m in S.members(d) if not veq(m, d) and not veq(m, S.nan)
                      and (is_num(m) and math.isfinite(m) if quant else isinstance(m, str))]
                if quant and not (is_num(d) and math.isfinite(d)):
                    continue
                if ms:
                    return ("replace", d, ms[b % len(ms)])
        if quant:
            if not finL:
                return noop(S)
            d = finL[a % len(finL)]
            k = fresh_threshold(S, d, c)
            return ("replace", d, k) if k is not None else noop(S)
        return ("replace", L[a % len(L)], fresh_str(S, c))
    if op == "noop_same":
        for s in range(len(L)):
            k = L[(a + s) % len(L)]
            ms = [m for m in S.members(k) if not veq(m, k) and not veq(m, S.nan)]
            if ms:
                return ("group", ms[b % len(ms)], k)
        return noop(S)
    # ---- known-finding streams ------------------------------------------------------------
    if op == "nan_regroup":
        g = S.group_of(S.nan)
        if g is None or veq(g, S.nan):
            return ("group", NAN, numL[a % len(numL)])
        others = [k for k in numL if not veq(k, g)]
        return ("group", NAN, others[a % len(others)]) if others else noop(S)
    if op == "group_down":
        if not quant or len(numL) < 2:
            return noop(S)
        i = a % (len(numL) - 1)
        return ("group", numL[i + 1], numL[i])
    # ---- malformed stream -----------------------------------------------------------------
    if op == "typo":
        return (["gruop", "Group", "merge", ""][c % 4], L[a % len(L)], L[b % len(L)])
    if op == "kept_nan":
        return (["group", "replace"][c % 2], [L[a % len(L)], NAN][b % 2], NAN)
    if op == "kept_fresh":
        k = fresh_str(S, c) if not quant else fresh_threshold(S, finL[b % len(finL)], c) if finL else None
        return ("group", L[a % len(L)], k) if k is not None else noop(S)
    if op == "disc_member":
        for s in range(len(L)):
            g = L[(a + s) % len(L)]
            ms = [m for m in S.members(g) if not veq(m, g) and not veq(m, S.nan)]
            others = [k for k in L if not veq(k, g)]
            if ms and others:
                return ("group", ms[b % len(ms)], others[c % len(others)])
        return noop(S)
    if op == "replace_leader":
        if len(L) < 2:
            return noop(S)
        i = a % len(L)
        return ("replace", L[i], L[(i + 1 + b % (len(L) - 1)) % len(L)])
    if op == "replace_foreign_member":
        for s in range(len(L)):
            g = L[(a + s) % len(L)]
            ms = [m for m in S.members(g) if not veq(m, g) and not veq(m, S.nan)]
            others = [k for k in L if not veq(k, g)]
            if ms and others:
                return ("replace", others[c % len(others)], ms[b % len(ms)])
        return noop(S)
    if op == "nan_literal":
        return ("group", S.nan, L[a % len(L)])
    if op == "nonadjacent":
        if len(numL) < 3:
            return noop(S)
        i = a % (len(numL) - 2)
        return ("group", numL[i], numL[i + 2]) if b % 2 else ("group", numL[i + 2], numL[i])
    if op == "into_nan":
        return ("group", L[a % len(L)], S.nan) if isin(S.nan, S.keys) else noop(S)
    if op == "replace_unknown_disc":
        d = fresh_str(S, c) if not quant else (max(finL) + 7.0 if finL else 1.0)
        return ("replace", d, L[a % len(L)])
    if op == "group_down_mid":       # malformed position for a downward merge / fresh number
        if quant and finL:
            return ("group", max(finL) + 3.0 + c, L[a % len(L)])
        return ("group", L[a % len(L)], L[a % len(L)])
    raise ValueError(op)


def classify(S, mode, d, k):
    """valid | b | c | malformed  — the property's notion of a valid edit, on the CURRENT order"""
    if mode not in ("group", "replace"):
        return "malformed"
    if C.is_nan(k) or veq(k, S.nan):
        return "malformed"
    if isinstance(d, str) and d == S.nan:
        return "malformed"                       # the sentinel passed literally instead of NaN
    quant = S.kind == "quant"
    if quant and (isinstance(k, str) or isinstance(d, str)):
        return "malformed"
    dd = S.nan if C.is_nan(d) else d
    L = S.leaders()
    gd = S.group_of(dd)
    if mode == "group":
        if not isin(k, L):
            # a NEW kept name on a qualitative feature: appended as a new (last) group
            if (not quant and isinstance(k, str) and not S.contains(k) and gd is not None
                    and veq(gd, dd) and not C.is_nan(d)):
                return "valid"
            return "malformed"
        if gd is not None and veq(gd, k):
            return "valid"                       # already there: warning, no-op
        if gd is None:                           # unknown to the order
            if C.is_nan(d):
                return "valid"
            return "malformed" if quant else "valid"
        if not veq(gd, dd):                      # a non-leader member of another group
            return "b" if C.is_nan(d) else "malformed"
        if C.is_nan(d):
            return "valid"                       # NaN is its own group
        if S.kind == "cat":
            return "valid"
        i, j = next(n for n, x in enumerate(L) if veq(x, dd)), next(n for n, x in enumerate(L) if veq(x, k))
        if quant:
            if j == i + 1 and dd < k:
                return "valid"
            if j == i - 1 and k < dd:
                return "c"
            return "malformed"
        return "valid" if abs(i - j) == 1 else "malformed"
    # replace
    if not isin(dd, L) or C.is_nan(d):
        return "malformed"
    if veq(dd, k):
        return "valid"
    gk = S.group_of(k)
    if gk is not None and not veq(gk, dd):
        return "malformed"
    if quant:
        if not (is_num(dd) and math.isfinite(dd) and is_num(k) and math.isfinite(k)):
            return "malformed"
        lo, hi = num_neighbours(S, dd)
        return "valid" if (lo is None or lo < k) and (hi is None or k < hi) else "malformed"
    return "valid" if isinstance(k, str) else "malformed"


# ------------------------------------------------------------------------------------------------
# generation
# ------------------------------------------------------------------------------------------------
NAN_SPELLINGS = ["np.nan", "float", "f64", "f32", "None", "pd.NA"]


def nan_marker(name):
    """the object the caller uses to designate missing values: pandas.isna is True for all of them and
    update_discretizer must treat them alike (the model sees VNaN)"""
    import pandas as pd
    return {"np.nan": np.nan, "float": float("nan"), "f64": np.float64("nan"), "f32": np.float32("nan"),
            "None": None, "pd.NA": pd.NA}.get(name, np.nan)


def abstract(rng, op):
    return {"op": op, "a": rng.randrange(1000), "b": rng.randrange(1000), "c": rng.randrange(1000),
            "m": rng.choice(NAN_SPELLINGS)}


def gen_case17(rng, stream, cls=None, prefer=None):
    cls = cls or rng.choice(CLASSES)
    if stream == "downward":
        prefer = "quant"
        if cls == "QualitativeDiscretizer":
            cls = "Discretizer"
    if prefer == "quant" and cls == "QualitativeDiscretizer":
        cls = "QuantitativeDiscretizer"
    force = {"n": rng.choice([40, 60, 80, 120, 200]), "qflavour": rng.choice(QFLAV),
             "cflavour": rng.choice(CFLAV), "nfeat": rng.choice([1, 2, 2, 3])}
    if prefer == "quant":
        force["kind"] = "quant"
    if stream == "newname":
        prefer = "qual"
        if cls == "QuantitativeDiscretizer":
            cls = "QualitativeDiscretizer"
        force["kind"] = rng.choice(["cat", "ord"])
        force["cflavour"] = rng.choice(["letters", "letters", "rare"])
    base = K.gen_case(rng, cls, force)
    if stream == "newname":
        # features WITH a separate '__NAN__' group (dropna=False) and, as control, without
        base["params"]["dropna"] = rng.random() < 0.3
        base["params"]["output_dtype"] = rng.choice(["str", "float"])
        if rng.random() < 0.8:
            for ft in base["features"]:
                for i in range(rng.randrange(3), len(ft["values"]), rng.choice([4, 6, 9])):
                    ft["values"][i] = ["nan"]
    if prefer == "quant":
        # carvers keep few groups: lower the bar so that several boundaries survive
        base["params"]["min_freq"] = rng.choice([0.05, 0.1, 0.15])
        if "max_n_mod" in base["params"]:
            base["params"]["max_n_mod"] = rng.choice([3, 4, 5])
    if stream in ("nan_regroup",) or rng.random() < 0.5:
        # make sure missing values are present in most cases
        f = rng.choice(base["features"])
        vals = f["values"]
        if not any(t[0] == "nan" for t in vals):
            for i in range(0, len(vals), rng.choice([5, 7, 9])):
                vals[i] = ["nan"]
    base["json"] = rng.random() < 0.15
    n = rng.randint(1, 8)
    if stream == "valid":
        plan = [abstract(rng, rng.choice(VALID_OPS)) for _ in range(n)]
    elif stream == "newname":
        plan = [abstract(rng, rng.choice(VALID_OPS)) for _ in range(rng.randint(0, 1))]
        plan += [abstract(rng, rng.choice(["group_new_name", "group_new_name", "replace_fresh"]))]
        plan += [abstract(rng, rng.choice(VALID_OPS)) for _ in range(rng.randint(0, 5))]
    elif stream == "nan_regroup":
        plan = [abstract(rng, rng.choice(VALID_OPS)) for _ in range(rng.randint(0, 3))]
        plan += [abstract(rng, "nan_group"), abstract(rng, "nan_regroup")]
    elif stream == "downward":
        plan = [abstract(rng, rng.choice(["group", "replace_fresh", "nan_group"]))
                for _ in range(rng.randint(0, 2))]
        plan += [abstract(rng, "group_down")]
    else:
        plan = [abstract(rng, rng.choice(VALID_OPS)) for _ in range(rng.randint(0, 3))]
        plan += [abstract(rng, rng.choice(MALFORMED_OPS))]
        plan += [abstract(rng, rng.choice(VALID_OPS + MALFORMED_OPS)) for _ in range(rng.randint(0, 4))]
    return {"base": base, "stream": stream, "pick": rng.randrange(1000), "prefer": prefer, "plan": plan}


# ------------------------------------------------------------------------------------------------
# running the implementation
# ------------------------------------------------------------------------------------------------
def reload_object(obj):
    from AutoCarver.carvers import load_carver
    from AutoCarver.discretizers.utils.base_discretizers import load_discretizer

    js = json.loads(json.dumps(obj.to_json()))
    js["copy"] = True
    js["verbose"] = False
    return load_carver(js) if "_history" in js else load_discretizer(js)


def observe(obj, base, f, others):
    vo = obj.values_orders[f]
    ob = {"keys": encs(list(vo)), "content": [[enc(k), encs(list(v))] for k, v in vo.content.items()],
          "dropna": bool(obj.features_dropna[f]),
          "lpv": [[enc(k), enc(l)] for k, l in obj.labels_per_values[f].items()]}
    names = [f] + others
    outs, exc = K.run_transform(obj, K.build_frame(base), names)
    ob["out"], ob["exc"] = outs[f], exc
    ob["others"] = hashlib.md5(json.dumps([outs[n] for n in others]).encode()).hexdigest()[:10]
    try:
        o2 = reload_object(obj)
        jouts, jexc = K.run_transform(o2, K.build_frame(base), [f])
        ob["jout"], ob["jexc"] = jouts[f], jexc
    except Exception as e:  # noqa: BLE001
        ob["jout"], ob["jexc"] = C.exc_class(e), f"reload: {type(e).__name__}: {str(e)[:120]}"
    try:
        sm = obj.summary(f).reset_index()
        sm = sm[sm["feature"] == f]          # summary(f) also lists the NaN rows of other features
        ob["summary"] = [[enc(r["label"]), encs(list(r["content"]))] for _, r in sm.iterrows()]
    except Exception as e:  # noqa: BLE001
        ob["summary"] = f"{C.exc_class(e)}: {type(e).__name__}: {str(e)[:120]}"
    return ob


def feature_kind(base, name):
    return next(ft["kind"] for ft in base["features"] if ft["name"] == name)


# ------------------------------------------------------------------------------------------------
# python-side property predicate
# ------------------------------------------------------------------------------------------------
def lpv_get(lpv, v):
    for k, l in lpv:
        if veq(k, v):
            return l
    return None


def same_set(a, b):
    return all(isin(x, b) for x in a) and all(isin(x, a) for x in b) and len(a) == len(b)


def state_json(ob, ctx):
    """the observation in the shape c04.oracle_c04 expects"""
    keys = decs(ob["keys"])     # listed "str_nan last": the order in which the labels are built
    keys = [k for k in keys if not veq(k, ctx["nan"])] + [k for k in keys if veq(k, ctx["nan"])]
    return {"name": ctx["feature"], "kind": "quant" if ctx["kind"] == "quant" else "qual",
            "keys": encs(keys), "content": ob["content"], "str_nan": ctx["nan"],
            "str_default": ctx["default"], "dropna": ob["dropna"], "odt": ctx["odt"], "lpv": ob["lpv"],
            "fmts": [[]], "strform": []}


def check_labels(S, ob, ctx):
    lpv = [[dec(k), dec(l)] for k, l in ob["lpv"]]
    for k, vs in S.content:
        lk = lpv_get(lpv, k)
        if lk is None:
            return f"[labels] leader {k!r} has no label"
        for v in vs:
            lv = lpv_get(lpv, v)
            if lv is None or not leq(lv, lk):
                return f"[labels] member {v!r} of group {k!r} is labelled {lv!r}, the group {lk!r}"
    if len(lpv) != len(S.values()):
        return "[labels] labels_per_values has entries that are not in the order"
    okeys = S.leaders() + ([S.nan] if isin(S.nan, S.keys) else [])   # labels are built "str_nan last"
    labs = [lpv_get(lpv, k) for k in okeys]
    for i, a in enumerate(labs):
        if any(leq(a, b) for b in labs[:i]):
            return f"[labels] two groups share the label {a!r}"
        if ctx["odt"] == "float" and (isinstance(a, str) or a != i):
            return f"[labels] float label of group {okeys[i]!r} (#{i}, missing values last) is {a!r}"
        if ctx["odt"] == "str" and ctx["kind"] != "quant" and not leq(a, okeys[i]):
            return f"[labels] qualitative group {okeys[i]!r} is labelled {a!r}"
    return None


def check_summary(S, ob, ctx, cells):
    sm = ob["summary"]
    if isinstance(sm, str):
        return f"[summary] summary() raised {sm}"
    rows = [[dec(l), decs(cs)] for l, cs in sm]
    lpv = [[dec(k), dec(l)] for k, l in ob["lpv"]]
    quant = ctx["kind"] == "quant"
    if not quant:
        for lab, cs in rows:
            for v in cs:
                lv = lpv_get(lpv, v)
                if lv is None or not leq(lv, lab):
                    return f"[summary] summary lists {v!r} under label {lab!r} but its label is {lv!r}"
    if isinstance(ob["out"], str):
        return None
    seen = []
    for x, o in zip(cells, decs(ob["out"])):
        if o is None or C.is_nan(o):
            continue
        key = (repr(x), repr(o))
        if key in seen:
            continue
        seen.append(key)
        hits = [cs for lab, cs in rows if leq(lab, o)]
        if not hits:
            return f"[summary] transform outputs the label {o!r} but summary() has no such row"
        if C.is_nan(x):
            if not any(isin(ctx["nan"], cs) for cs in hits):
                return (f"[summary] missing values are transformed to {o!r} but summary() does not list "
                        f"{ctx['nan']} in that group")
        elif not quant and isinstance(x, str) and x != ctx["default"]:
            if not any(isin(x, cs) for cs in hits):
                return f"[summary] {x!r} is transformed to {o!r} but summary() does not list it there"
    return None


def check_edit(before, ed, after, ctx, cells):
    """the property for one valid edit; returns None or a message starting with a [category]"""
    mode, d, k = ed["mode"], dec(ed["d"]), dec(ed["k"])
    nan, kind = ctx["nan"], ctx["kind"]
    B, A = PS.of_obs(before, nan, kind), PS.of_obs(after, nan, kind)
    dd = nan if C.is_nan(d) else d
    if after["oc"] not in ("done", "warn"):
        return f"[raised] valid edit raised {after['oc']} ({after.get('exc_edit')})"
    if not A.wf():
        return "[wf] values_orders is not a consistent partition any more"
    gd = B.group_of(dd)
    already = gd is not None and veq(gd, k)
    if already:
        if after["oc"] != "warn" or not all(veq(x, y) for x, y in zip(A.keys, B.keys)) or len(A.keys) != len(B.keys) \
                or not all(same_set(A.members(x), B.members(x)) for x in A.keys):
            return "[effect] the discarded value already was in the kept group, yet the order changed"
    else:
        if after["oc"] != "done":
            return f"[effect] expected a completed edit, got {after['oc']}"
        if mode == "group":
            dgroup = B.members(dd) if B.is_leader(dd) else [dd]
            new_k = not B.is_leader(k)
            exp_keys = [x for x in B.keys + ([k] if new_k else []) if not veq(x, dd)]
            exp_k = list(dgroup) + ([k] if new_k else list(B.members(k)))
        else:
            exp_keys = [k if veq(x, dd) else x for x in B.keys]
            exp_k = list(B.members(dd)) if isin(k, B.members(dd)) else [k] + list(B.members(dd))
        if len(exp_keys) != len(A.keys) or not all(veq(x, y) for x, y in zip(A.keys, exp_keys)):
            return f"[effect] leaders after the edit are {A.keys!r}, expected {exp_keys!r}"
        if not same_set(A.members(k), exp_k):
            return f"[effect] group {k!r} holds {A.members(k)!r}, expected {exp_k!r}"
        for x in A.keys:
            if not veq(x, k) and not same_set(A.members(x), B.members(x)):
                return f"[effect] group {x!r} changed although it is not part of the edit"
    if after["dropna"] != (C.is_nan(d) or before["dropna"]):
        return "[effect] features_dropna changed unexpectedly"
    m = check_labels(A, after, ctx)
    if m:
        return m
    if isinstance(after["out"], str):
        return f"[lookup] transform of the training frame raised after the edit ({after['exc']})"
    ok, m = K.oracle_c04(state_json(after, ctx), encs(cells), after["out"])
    if not ok:
        return "[lookup] " + m
    if isinstance(after["jout"], str) or not all(leq(a, b) for a, b in zip(decs(after["out"]), decs(after["jout"]))):
        return f"[json] the object reloaded from its JSON transforms differently ({after.get('jexc')})"
    if after["others"] != before["others"]:
        return "[others] the transform of another feature changed"
    if ed["rows"] and not isinstance(before["out"], str):
        lb, la = [[dec(x), dec(l)] for x, l in before["lpv"]], [[dec(x), dec(l)] for x, l in after["lpv"]]
        for x, ob_, oa in zip(cells, decs(before["out"]), decs(after["out"])):
            if ob_ is None or C.is_nan(ob_):
                exp = lpv_get(la, k) if C.is_nan(d) else NAN
            else:
                leader = next((key for key in B.keys if leq(lpv_get(lb, key), ob_)), None)
                if leader is None:
                    return f"[rows] cell {x!r}: label {ob_!r} before the edit belongs to no group"
                exp = lpv_get(la, k if veq(leader, dd) else leader)
            if exp is None or not leq(exp, oa):
                return (f"[rows] row with value {x!r} was in the group labelled {ob_!r}; after "
                        f"{mode}({d!r} -> {k!r}) it is labelled {oa!r}, expected {exp!r}")
    m = check_summary(A, after, ctx, cells)
    if m:
        return m
    return None


# ------------------------------------------------------------------------------------------------
class C17(Prop):
    pid = "C17"
    theorems = ["C17_valid_edit_keeps_wf", "C17_group_effect", "C17_replace_only_renames",
                "C17_labels_refresh_consistent", "C17_every_history",
                "C17_transform_after_edit_qualitative", "C17_quantitative_upward_merge",
                "C17_transform_after_edit_quantitative", "C17_downward_merge_refuted",
                "C17_nan_regroup_refuted", "C17_rejected_edit_can_break_refuted",
                "C17_valid_history_decidable_sound", "C17_valid_edit_effect",
                "C17_new_name_with_nan_group"]
    rule = ("one case = one real fit (BinaryCarver / ContinuousCarver / Discretizer / Quantitative- / "
            "QualitativeDiscretizer; 40-200 rows, 1-3 quantitative / ordinal / categorical features, "
            "NaN share 0-30%, output_dtype str/float, dropna True/False, 15% rebuilt from JSON) + a "
            "history of 1-8 update_discretizer calls on one fitted feature, resolved against the "
            "current order: adjacent groups (ordered features), any two groups (categorical), a new "
            "modality or NaN (spelled numpy.nan / float('nan') / numpy.float64 / numpy.float32 / None / "
            "pandas.NA, drawn per edit) into an existing group, 'replace' by a fresh value / a member, no-op "
            "edits; separate streams end with a NaN edit when NaN is already merged (O8b) or a "
            "quantitative downward merge (O8c); a malformed stream (mode typo, kept missing / unknown, "
            "discarded not a leader, the sentinel string, non adjacent merges, ...) compares outcome "
            "class and post-state with the model.  After EVERY call: order list+content, "
            "features_dropna, labels_per_values, transform(X_train), summary(f), transform of the "
            "JSON-reloaded object.  non-trivial = at least one completed edit; distinct = distinct "
            "(class, feature kind, output_dtype, dropna, stream, op names, outcomes) signature")
    assumptions = [
        "valid edit = discarded is a leader (or a value unknown to a qualitative feature, or NaN "
        "while NaN is not merged yet) and kept is a leader, adjacent and upward for quantitative "
        "features, adjacent for ordinal ones; 'replace': discarded is a leader, kept a fresh value "
        "or a member of its group (a quantitative 'replace' moves a boundary by design: the row-level "
        "effect is then not prescribed)",
        "quantitative features are edited with numbers / NaN only (a string argument makes "
        "numpy.isfinite raise inside the label refresh: outside the model's domain)",
        "summary() and the other features' outputs are checked by the python-side oracle only; "
        "JSON text round trip itself belongs to C06 (the model reloads = re-fits from the order)",
        "edits on an unknown feature name are not generated",
    ]
    trusted_extra = ["state extraction and edit resolution in harness/props/c17.py; generators and "
                     "fitting helpers of harness/props/c04.py"]

    # ---- generation -------------------------------------------------------------------------
    def corpus(self):
        import random
        rng = random.Random(1717)
        cs = []
        # O50 (fixed by 1b184ac): group into a NEW name while '__NAN__' is its own group
        f50 = os.path.join(C.VERIF, "corpus", "findings", "O50_c17_group_into_new_name_with_nan_group.json")
        if os.path.exists(f50):
            cs.append(json.load(open(f50))["case"])
        for stream, cls, prefer in [("valid", "Discretizer", None), ("valid", "BinaryCarver", "quant"),
                                    ("malformed", "ContinuousCarver", None)]:
            cs.append(gen_case17(rng, stream, cls, prefer))
        return cs

    def generate(self, rng, tier):
        n = 300 if tier == "quick" else 8000
        cases = []
        for i in range(n):
            r = i % 20
            if r < 8:
                stream = "valid"
            elif r < 11:
                stream = "newname"
            elif r < 13:
                stream = "nan_regroup"
            elif r < 15:
                stream = "downward"
            else:
                stream = "malformed"
            prefer = "quant" if (stream == "valid" and i % 3 == 0) else None
            cases.append(gen_case17(rng, stream, CLASSES[i % len(CLASSES)], prefer))
        return cases

    def search_cases(self, rng, neighbours, rnd):
        return [gen_case17(rng, rng.choice(["valid", "valid", "malformed"])) for _ in range(100)]

    # ---- implementation -------------------------------------------------------------------
    def run_impl(self, case):
        base = case["base"]
        obj, skip = K.fit_or_skip(base)
        if skip:
            return skip
        names = [ft["name"] for ft in base["features"] if ft["name"] in obj.features]
        if not names:
            return {"skip": "every feature was dropped at fit"}
        want = {"qual": ("cat", "ord"), "quant": ("quant",)}.get(case.get("prefer"), ())
        pref = [n for n in names if feature_kind(base, n) in want] or names
        f = pref[case["pick"] % len(pref)]
        kind = feature_kind(base, f)
        others = [n for n in names if n != f]
        ctx = {"feature": f, "kind": kind, "nan": obj.str_nan, "default": obj.str_default,
               "odt": obj.output_dtype, "global_dropna": bool(obj.dropna), "cls": base["cls"]}
        X = K.build_frame(base)
        out = {"ctx": ctx, "cells": encs(list(X[f])), "obs0": observe(obj, base, f, others), "edits": [],
               "obs": []}
        out["obs0"]["oc"] = "done"
        if not PS.of_obs(out["obs0"], ctx["nan"], kind).leaders():
            return {"skip": "the feature has no group besides missing values"}
        valid = True
        for i, ab in enumerate(case["plan"]):
            vo = obj.values_orders[f]
            S = PS(list(vo), [[k, list(v)] for k, v in vo.content.items()], ctx["nan"], kind)
            if not S.leaders():
                break
            mode, d, k = resolve(ab, S)
            cl = classify(S, mode, d, k)
            last = i == len(case["plan"]) - 1
            wanted = {"nan_regroup": "b", "downward": "c"}.get(case["stream"])
            if cl in ("b", "c") and not (valid and last and cl == wanted):
                mode, d, k = noop(S)
                cl = classify(S, mode, d, k)
            if cl == "malformed" and case["stream"] != "malformed":
                mode, d, k = noop(S)
                cl = classify(S, mode, d, k)
            valid = valid and cl != "malformed"
            d = float(d) if is_num(d) and kind == "quant" else d
            k = float(k) if is_num(k) and kind == "quant" else k
            ed = {"op": ab["op"], "mode": mode, "d": enc(d), "k": enc(k), "class": cl, "valid": valid,
                  "rows": not (kind == "quant" and mode == "replace")}
            exc_edit = None
            # missing values are designated with the spelling drawn for this edit
            d_arg = nan_marker(ab.get("m")) if C.is_nan(d) else d
            k_arg = nan_marker(ab.get("m")) if C.is_nan(k) else k
            if C.is_nan(d) or C.is_nan(k):
                ed["nan_spelling"] = ab.get("m", "np.nan")
            try:
                with warnings.catch_warnings(record=True) as w:
                    warnings.simplefilter("always")
                    obj.update_discretizer(f, mode, d_arg, k_arg)
                oc = "warn" if any("already grouped" in str(x.message) for x in w) else "done"
            except AssertionError as e:
                oc, exc_edit = "assert", f"AssertionError: {str(e)[:120]}"
            except Exception as e:  # noqa: BLE001
                oc, exc_edit = "internal", f"{type(e).__name__}: {str(e)[:120]}"
            finally:
                warnings.simplefilter("ignore")
            ob = observe(obj, base, f, others)
            ob["oc"], ob["exc_edit"] = oc, exc_edit
            out["edits"].append(ed)
            out["obs"].append(ob)
            if cl in ("b", "c"):
                break
        return out

    # ---- python-side property predicate ---------------------------------------------------
    def oracle(self, case, out):
        ctx = out["ctx"]
        cells = decs(out["cells"])
        S0 = PS.of_obs(out["obs0"], ctx["nan"], ctx["kind"])
        m = None
        if not S0.wf():
            m = "[wf] fitted values_orders is not a consistent partition"
        m = m or check_labels(S0, out["obs0"], ctx)
        if m:
            return False, "fitted object (before any edit): " + m
        before = out["obs0"]
        for i, (ed, after) in enumerate(zip(out["edits"], out["obs"])):
            if not ed["valid"]:
                break
            m = check_edit(before, ed, after, ctx, cells)
            if m:
                return False, (f"edit #{i} {ed['mode']}({dec(ed['d'])!r} -> {dec(ed['k'])!r}) on {ctx['kind']} "
                               f"feature {ctx['feature']} of {ctx['cls']}: {m}")
            before = after
        return True, ""

    # ---- Coq side ---------------------------------------------------------------------------
    def probe_idx(self, out):
        cells = decs(out["cells"])
        ctx = out["ctx"]
        keep, seen = [], []
        if ctx["kind"] != "quant":
            for i, x in enumerate(cells):
                key = "nan" if C.is_nan(x) else repr(x)
                if key not in seen:
                    seen.append(key)
                    keep.append(i)
            return keep[:60]
        marks = []
        for ob in [out["obs0"]] + out["obs"]:
            marks += [x for x in decs(ob["keys"]) if is_num(x) and math.isfinite(x)]
        for ed in out["edits"]:
            marks += [x for x in (dec(ed["d"]), dec(ed["k"])) if is_num(x) and math.isfinite(x)]
        fin = sorted((i for i, x in enumerate(cells) if not C.is_nan(x)), key=lambda i: cells[i])
        xs = [cells[i] for i in fin]
        import bisect
        ks = set()
        for mk in set(marks):
            j = bisect.bisect_left(xs, mk)
            for dlt in (-1, 0, 1):
                if 0 <= j + dlt < len(fin):
                    ks.add(fin[j + dlt])
        nan_rows = [i for i, x in enumerate(cells) if C.is_nan(x)]
        ks.update(nan_rows[:1])
        step = max(1, len(fin) // 12)
        ks.update(fin[::step])
        ks = sorted(ks)
        if len(ks) > 70:
            ks = ks[:: len(ks) // 70 + 1] + nan_rows[:1]
        return sorted(set(ks))

    def coq_case(self, case, out):
        ctx = out["ctx"]
        quant = ctx["kind"] == "quant"
        idx = self.probe_idx(out)
        cells = [decs(out["cells"])[i] for i in idx]
        allobs = [out["obs0"]] + out["obs"]
        nums = K.numbers_of(cells)
        for ob in allobs:
            nums += K.numbers_of(decs(ob["keys"]))
            nums += [v for k, vs in ob["content"] for v in K.numbers_of([dec(k)] + decs(vs))]
            for key in ("out", "jout"):
                if not isinstance(ob[key], str):
                    nums += K.numbers_of([dec(ob[key][i]) for i in idx])
            if ctx["odt"] == "str":
                nums += K.numbers_of([dec(l) for _, l in ob["lpv"]])
        for ed in out["edits"]:
            nums += K.numbers_of([dec(ed["d"]), dec(ed["k"])])
        nums = [x for x in nums if not C.is_nan(x)]
        sc = C.Scale(0).fit([float(x) if not isinstance(x, (int, np.integer)) else int(x) for x in nums])

        def v(x):
            return C.cval(x, sc)

        fmts = [[]]
        if quant:
            uni = []
            for x in nums:
                if math.isfinite(x) and not isin(float(x), uni):
                    uni.append(float(x))
            fmts = [[[x, f"{x:.3e}".strip()] for x in uni]]
            if len({s for _, s in fmts[0]}) < len(uni):
                fmts = [[[x, f"{x:.{n}e}".strip()] for x in uni] for n in range(3, 18)]

        def cobs(ob):
            def io(o):
                if isinstance(o, str):
                    return "IAssert" if o == "assert" else "IInternal"
                return "(IOk " + C.clist([K.coq_out(dec(o[i]), ctx["odt"], sc) for i in idx]) + ")"
            oc = {"done": "UDone", "warn": "UWarn", "assert": "UAssert", "internal": "UInternal"}[ob["oc"]]
            return ("(mkUObs " + " ".join([
                oc, C.clist([v(dec(k)) for k in ob["keys"]]),
                C.clist([C.cpair(v(dec(k)), C.clist([v(dec(x)) for x in vs])) for k, vs in ob["content"]]),
                C.cbool(ob["dropna"]),
                C.clist([C.cpair(v(dec(k)), K.coq_label(dec(l), ctx["odt"], sc)) for k, l in ob["lpv"]]),
                io(ob["out"]), io(ob["jout"])]) + ")")

        def cedit(ed):
            mode = {"group": "MGroup", "replace": "MReplace"}.get(ed["mode"], "MBad")
            return (f"(mkUEdit {mode} {v(dec(ed['d']))} {v(dec(ed['k']))} {C.cbool(ed['valid'])} "
                    f"{C.cbool(ed['rows'])})")

        return ("mkUCase " + " ".join([
            "Quant" if quant else "Qual", f"(VStr {C.cstr(ctx['nan'] or '')})",
            f"(VStr {C.cstr(ctx['default'] or '')})", "OFloat" if ctx["odt"] == "float" else "OStr",
            C.clist([C.clist([C.cpair(v(x), C.cstr(s)) for x, s in t]) for t in fmts]),
            C.cZ(1 << sc.s), C.clist([v(x) for x in cells]), cobs(out["obs0"]),
            C.clist([cedit(e) for e in out["edits"]]), C.clist([cobs(o) for o in out["obs"]])]))

    def coq_shards(self, cases, outs):
        shards = []
        for part in chunks(list(zip(cases, outs)), 8):
            body = ";\n  ".join(self.coq_case(c, o) for c, o in part)
            txt = ("From AC.Model Require Import Base GroupedList Labels Transform FormatRule CheckC04 "
                   "Update CheckC17.\nOpen Scope string_scope.\n"
                   f"Definition cases : list ucase := [\n  {body}\n].\n"
                   "Eval vm_compute in map verdict cases.\n")
            shards.append(K.hexify(txt))
        return shards

    # ---- evidence / findings / shrinking -------------------------------------------------------
    def signature(self, case, out):
        if "ctx" not in out:
            return None
        if not any(o["oc"] == "done" for o in out["obs"]):
            return None
        ctx = out["ctx"]
        ops = ",".join(f"{e['op']}:{o['oc'][0]}" for e, o in zip(out["edits"], out["obs"]))
        return (f"{ctx['cls']}|{ctx['kind']}|{ctx['odt']}|{out['obs0']['dropna']}|{case['stream']}|{ops}")

    def finding_signatures(self, case, out, msg):
        sigs = []
        if "ctx" not in out or "edit #" not in msg:
            return sigs
        try:
            i = int(msg.split("edit #")[1].split(" ")[0])
        except ValueError:
            return sigs
        ctx, ed = out["ctx"], out["edits"][i]
        before, after = ([out["obs0"]] + out["obs"])[i], out["obs"][i]
        B = PS.of_obs(before, ctx["nan"], ctx["kind"])
        mode, d, k = ed["mode"], dec(ed["d"]), dec(ed["k"])
        dd = ctx["nan"] if C.is_nan(d) else d
        if "[raised]" in msg and after["oc"] == "internal" and "isnan" in (after.get("exc_edit") or ""):
            sigs.append("update_isnan_typeerror")
        if ("[raised]" in msg and after["oc"] == "assert" and C.is_nan(d) and mode == "group"
                and classify(B, mode, d, k) == "b"):
            sigs.append("nan_edit_when_nan_already_grouped")
        if (("[rows]" in msg or "[lookup]" in msg) and ctx["kind"] == "quant" and mode == "group"
                and classify(B, mode, d, k) == "c"):
            sigs.append("quantitative_downward_merge")
        if ("[raised]" in msg and after["oc"] == "assert" and mode == "replace" and B.is_leader(dd)
                and not veq(k, dd) and isin(k, B.members(dd))):
            sigs.append("replace_with_group_member")
        A = PS.of_obs(after, ctx["nan"], ctx["kind"])
        if (any(t in msg for t in ("[labels]", "[lookup]", "[rows]", "[json]", "[summary]"))
                and isin(ctx["nan"], A.keys) and not veq(A.keys[-1], ctx["nan"])):
            sigs.append("labels_misaligned_when_nan_group_not_last")
        if ("[summary] missing values" in msg and ctx["kind"] != "quant" and not ctx["global_dropna"]
                and after["dropna"]):
            sigs.append("summary_ignores_nan_after_edit")
        return sigs

    def shrink(self, case, out, msg):
        cat = msg.split(": [", 1)[1].split("]")[0] if ": [" in msg else None

        def attempt(cand):
            o = C._worker((self.run_impl, cand))
            if not isinstance(o, dict) or "ctx" not in o:
                return None
            ok, m = self.oracle(cand, o)
            if ok or (cat and f"[{cat}]" not in m):
                return None
            return cand, o, m

        best = (case, out, msg)
        cur = case
        # 1. cut the plan after the failing edit, then drop earlier edits
        if "edit #" in msg:
            i = int(msg.split("edit #")[1].split(" ")[0])
            cand = dict(cur, plan=cur["plan"][:i + 1])
            r = attempt(cand)
            if r:
                best, cur = r, cand
        changed = True
        while changed and len(cur["plan"]) > 1:
            changed = False
            for j in range(len(cur["plan"]) - 1):
                cand = dict(cur, plan=cur["plan"][:j] + cur["plan"][j + 1:])
                r = attempt(cand)
                if r:
                    best, cur, changed = r, cand, True
                    break
        # 2. keep only the edited feature
        f = best[1]["ctx"]["feature"]
        base = cur["base"]
        if len(base["features"]) > 1:
            cand = dict(cur, base=dict(base, features=[ft for ft in base["features"] if ft["name"] == f]))
            r = attempt(cand)
            if r:
                best, cur = r, cand
        # 3. drop rows
        base = cur["base"]
        n = len(base["y"])
        step, tries = n // 2, 0
        while step >= 1 and tries < 24:
            changed = False
            for start in range(0, n, step):
                keep = [i for i in range(n) if not start <= i < start + step]
                if len(keep) < 12:
                    continue
                nb = dict(base, y=[base["y"][i] for i in keep],
                          features=[dict(ft, values=[ft["values"][i] for i in keep]) for ft in base["features"]])
                cand = dict(cur, base=nb)
                tries += 1
                r = attempt(cand)
                if r:
                    best, cur, base, n, changed = r, cand, nb, len(keep), True
                    break
                if tries >= 24:
                    break
            if not changed:
                step //= 2
        return best

    def distribution(self, cases, outs):
        d = {"classes": {}, "streams": {}, "feature_kind": {}, "output_dtype": {}, "dropna_at_fit": {},
             "edits_per_history": {}, "resolved_ops": {}, "edit_classes": {}, "outcomes": {},
             "rows": {}, "json_rebuilt": 0, "transform_exceptions_after_edit": 0, "nan_in_order": 0}

        def inc(h, k):
            h[str(k)] = h.get(str(k), 0) + 1

        for c, o in zip(cases, outs):
            inc(d["classes"], c["base"]["cls"])
            inc(d["streams"], c["stream"])
            inc(d["rows"], len(c["base"]["y"]))
            d["json_rebuilt"] += 1 if c["base"].get("json") else 0
            if not (isinstance(o, dict) and "ctx" in o):
                continue
            inc(d["feature_kind"], o["ctx"]["kind"])
            inc(d["output_dtype"], o["ctx"]["odt"])
            inc(d["dropna_at_fit"], o["obs0"]["dropna"])
            inc(d["edits_per_history"], len(o["edits"]))
            if any(t[0] == "s" and t[1] == o["ctx"]["nan"] for _, vs in o["obs0"]["content"] for t in vs):
                d["nan_in_order"] += 1
            for e, ob in zip(o["edits"], o["obs"]):
                inc(d["resolved_ops"], e["op"])
                if "nan_spelling" in e:
                    inc(d.setdefault("nan_spellings", {}), e["nan_spelling"])
                inc(d["edit_classes"], e["class"])
                inc(d["outcomes"], ob["oc"])
                if isinstance(ob["out"], str):
                    d["transform_exceptions_after_edit"] += 1
        return d


PROP = C17()
