"""C02 — carved features respect max_n_mod, min_freq_mod and dev robustness.
Same real fits as C01; the python-side oracle checks the bounds directly on transform outputs,
the Coq side evaluates C02_b (and C01_b) on the implementation's outcome and compares with the
model."""
from props.base import dec
from props.c01 import C01, gen_case


def is_missing(t):
    return t == ["nan"]


def key(t):
    """canonical label: 1 and 1.0 are the same label"""
    v = dec(t)
    return repr(float(v)) if isinstance(v, (int, float)) else repr(v)


class C02(C01):
    pid = "C02"
    coq_targets = ["Properties/C02.vo", "Model/CheckC01.vo"]
    theorems = ["C02_bounds_of_kept_grouping", "C02_rows_ok_means", "C02_checker_predicate_holds_on_model",
                "C02_domain_guard",
                "C02_rank_order_is_sort_independent", "C02_rank_order_is_sort_independent_with_nan",
                "C02_rank_order_is_the_stable_sort", "C02_same_ranks_without_ties",
                "C02_same_ranks_excludes_strict_inversion", "C02_tie_free_candidates_are_decided",
                "C02_tied_rates_make_the_rank_test_sort_dependent"]

    def oracle(self, case, out):
        ok, msg = super().oracle(case, out)
        if not ok:
            return ok, msg
        if not (self.usable(out) and out["kept"]):
            return True, ""
        mfm = case["min_freq_mod"] if case["min_freq_mod"] is not None else case["min_freq"] / 2
        y = case["y"]
        xin = case["X"]
        lab = out["train_labels"]
        miss_in = [is_missing(t) for t in xin]
        miss_out = [is_missing(t) for t in lab]
        if case["dropna"]:
            if any(miss_out):
                return False, "missing output although dropna=True"
        elif miss_in != miss_out:
            return False, "missing values are not preserved in place with dropna=False"

        def stats(labels, ys):
            d = {}
            for t, v in zip(labels, ys):
                if is_missing(t):
                    continue
                d.setdefault(key(t), []).append(v)
            return d

        st = stats(lab, y)
        if len(st) > case["max_n_mod"]:
            return False, f"{len(st)} distinct non-missing labels > max_n_mod={case['max_n_mod']}"
        n = sum(len(v) for v in st.values())  # all rows when dropna (no missing output) else non-missing
        for k, v in st.items():
            if not len(v) / n >= mfm:
                return False, f"label {k} carries {len(v)}/{n} < min_freq_mod={mfm}"
        # label -> position of its group in the feature's order
        pos = {}
        for t, i in zip(lab, out["train_idx"]):
            if not is_missing(t):
                pos[key(t)] = min(pos.get(key(t), 10 ** 9), i)
        if case["Xdev"] is not None:
            dl = out["dev_labels"]
            sd = stats(dl, case["ydev"])
            # with min_freq_mod > 0 every group holds dev rows; with an explicit 0 a group may be empty on dev
            # (its dev frequency 0 >= 0): the ranking is then compared on the groups that dev holds
            if not set(sd) <= set(st) or (mfm > 0 and set(sd) != set(st)):
                return False, f"label sets differ between train {sorted(st)} and dev {sorted(sd)}"
            nd = sum(len(v) for v in sd.values())
            for k, v in sd.items():
                if not len(v) / nd >= mfm:
                    return False, f"dev: label {k} carries {len(v)}/{nd} < min_freq_mod={mfm}"
            order = [k for k in sorted(st, key=lambda k: pos[k]) if k in sd]
            rt = [sum(st[k]) / len(st[k]) for k in order]
            rd = [sum(sd[k]) / len(sd[k]) for k in order]
            # a strict inversion between two groups; exactly tied rates are ordered by numpy's (unstable)
            # quicksort in the code and are accepted in any order
            if any(rt[i] < rt[j] and rd[i] > rd[j] for i in range(len(order)) for j in range(len(order))):
                return False, f"labels rank differently by target rate on train {rt} and dev {rd}"
        return True, ""

    def generate(self, rng, tier):
        n = 260 if tier == "quick" else 5000
        kinds = ["boundary", "dev", "dev_missing", "dev_invert", "dev_nan_shift", "dev_nan_shift", "plain", "few",
                 "tied_rates"]
        return [gen_case(rng, kind=rng.choice(kinds)) for _ in range(n)]


PROP = C02()
