"""C16 — summary() and history() truthfully describe the fitted object.

Two families of cases, both on real objects:

 S  (`fam == "S"`)  a small training frame (props.c04.gen_case) x class (the four discretizers and
    the three carvers) x output_dtype x dropna x JSON rebuild.  Observed: summary(), summary(f) for
    every kept f and for dropped / never declared names, history(), history(f), transform(X_train),
    the fitted state of every kept feature (as in C04).  The python oracle states the property on
    these outputs; Coq evaluates Model/Summary.v on the fitted states and compares the rows
    (CheckC16.verdict_summary).
 H  (`fam == "H"`)  one carver fit on one feature (props.c01.gen_case: dev samples, boundary
    min_freq_mod, tied rates).  c01.run_fit gives the base modalities through the real Discretizer,
    their target multisets and the fitted grouping; the history records are mapped back to base
    modality numbers (quantitative combinations are written with interval labels, qualitative ones
    with raw values) and Coq compares them with the model's records, association values included
    (CheckC16.verdict_history).
"""
import itertools
import json
import math

import numpy as np

import common as C
from props import c01, c04
from props.base import NAN, Prop, chunks, dec, decs, enc, encs

CLASSES = ["Discretizer", "QuantitativeDiscretizer", "QualitativeDiscretizer", "BinaryCarver",
           "ContinuousCarver", "MulticlassCarver"]
LEAK = "summary_feature_leaks_nan_rows_of_other_features"
UNKNOWN = "never_declared_feature"


# ------------------------------------------------------------------------------------------------
# generation
# ------------------------------------------------------------------------------------------------
def gen_s_case(rng, cls=None, force=None):
    cls = cls or rng.choice(CLASSES)
    if cls == "MulticlassCarver":
        case = c04.gen_case(rng, "BinaryCarver", force)
        case["cls"] = cls
        col = decs(case["features"][0]["values"])
        keyed = sorted({repr(v) for v in col})
        pos = {k: i / max(1, len(keyed) - 1) for i, k in enumerate(keyed)}
        ncls = rng.choice([3, 3, 4])
        y = []
        for v in col:
            s = pos[repr(v)]
            y.append(min(ncls - 1, int(s * ncls)) if rng.random() < 0.6 else rng.randrange(ncls))
        case["y"] = y
    else:
        case = c04.gen_case(rng, cls, force)
    case["fam"] = "S"
    names = [f["name"] for f in case["features"]]
    overlap = any(a != b and a in b for a in names for b in names)
    if len(names) > 1 and not overlap and rng.random() < 0.4:
        # feature names contained in one another (age / age_band): features are selected by name
        j = rng.randrange(1, len(names))
        new = rng.choice([names[0] + "_b", names[0] + "2", "x" + names[0]])
        if new not in names:
            case["features"][j]["name"] = new
    p = case["params"]
    if "max_n_mod" in p and p["min_freq"] < 0.1:
        # up to 20 base modalities: keep the number of tested combinations (all recorded in the
        # history) in the hundreds
        p["max_n_mod"] = min(p["max_n_mod"], 3)
    # summary()/history()/history(f) are pure queries: the order of the calls is part of the case
    case["hist_order"] = rng.choice(["all_first", "all_first", "each_first"])
    # per-feature missing-value status different from the object's global flag: an object built with
    # dropna=False whose missing values are then grouped feature by feature with update_discretizer
    # ("edit"), or whose features_dropna differ through its JSON ("mixed")
    has_nan = any(t[0] == "nan" for f in case["features"] for t in f["values"])
    if not p["dropna"] and has_nan and rng.random() < 0.6:
        case["nan_variant"] = rng.choice(["edit", "edit", "mixed"])
        pat = [rng.random() < 0.6 for _ in range(8)]
        if not any(pat):
            pat[rng.randrange(3)] = True
        case["nan_pattern"] = pat
    return case


def gen_h_case(rng, kind=None):
    case = c01.gen_case(rng, kind)
    case["fam"] = "H"
    return case


# ------------------------------------------------------------------------------------------------
# running the implementation: S cases
# ------------------------------------------------------------------------------------------------
def feature_lists(case):
    quant = [f["name"] for f in case["features"] if f["kind"] == "quant"]
    cat = [f["name"] for f in case["features"] if f["kind"] == "cat"]
    ordi = [f["name"] for f in case["features"] if f["kind"] == "ord"]
    return quant, cat, ordi


def fit_object16(case):
    obj = fit_plain(case)
    variant = case.get("nan_variant")
    if not variant:
        return obj
    import numpy
    pat = case["nan_pattern"]
    names = sorted(obj.features)
    chosen = [n for i, n in enumerate(names) if pat[i % len(pat)]
              and any(isinstance(k, str) and k == obj.str_nan for k in obj.values_orders[n])]
    if variant == "edit":
        # the documented way: group the missing values of these features with their first modality
        for n in chosen:
            leader = next(k for k in obj.values_orders[n] if not (isinstance(k, str) and k == obj.str_nan))
            obj.update_discretizer(n, "group", numpy.nan, leader)
        return obj
    js = json.loads(json.dumps(obj.to_json()))
    for n in chosen:
        js["features_dropna"][n] = True
    js["copy"] = True
    js["verbose"] = False
    if "_history" in js:
        from AutoCarver.carvers import load_carver
        return load_carver(js)
    from AutoCarver.discretizers.utils.base_discretizers import load_discretizer
    return load_discretizer(js)


def fit_plain(case):
    if case["cls"] != "MulticlassCarver":
        return c04.fit_object(case)
    import pandas as pd
    from AutoCarver.carvers import MulticlassCarver, load_carver
    from AutoCarver.discretizers import GroupedList

    p = case["params"]
    quant, cat, ordi = feature_lists(case)
    orders = {f["name"]: GroupedList(decs(f["order"])) for f in case["features"] if f["kind"] == "ord"}
    orders.update({f["name"]: GroupedList(decs(f["declared"])) for f in case["features"]
                   if f["kind"] == "cat" and f.get("declared")})
    obj = MulticlassCarver(sort_by=p["sort_by"], min_freq=p["min_freq"], quantitative_features=quant,
                           qualitative_features=cat, ordinal_features=ordi, values_orders=orders,
                           max_n_mod=p["max_n_mod"], output_dtype=p["output_dtype"], dropna=p["dropna"],
                           copy=True, verbose=False, pretty_print=False, **dict(case.get("kwargs") or {}))
    obj.fit(c04.build_frame(case), pd.Series(case["y"]))
    if case.get("json"):
        js = json.loads(json.dumps(obj.to_json()))
        js["copy"] = True
        js["verbose"] = False
        obj = load_carver(js)
    return obj


def targets_of(case):
    """[(suffix, y)] : the targets the base discretization of each (casted) feature sees"""
    import pandas as pd

    y = pd.Series(case["y"])
    if case["cls"] != "MulticlassCarver":
        return [("", y)]
    classes = sorted(list(y.unique()))[1:]
    return [(f"_{c}", (y == c).astype(int)) for c in classes]


def base_modalities(case):
    """base modalities of every declared (casted) feature through the real Discretizer"""
    from AutoCarver.discretizers import Discretizer, GroupedList

    p = case["params"]
    quant, cat, ordi = feature_lists(case)
    res = {}
    for suffix, y in targets_of(case):
        orders = {f["name"]: GroupedList(decs(f["order"])) for f in case["features"] if f["kind"] == "ord"}
        orders.update({f["name"]: GroupedList(decs(f["declared"])) for f in case["features"]
                       if f["kind"] == "cat" and f.get("declared")})
        try:
            disc = Discretizer(quantitative_features=quant, qualitative_features=cat, ordinal_features=ordi,
                               values_orders=orders, min_freq=p["min_freq"], copy=True, verbose=False,
                               **dict(case.get("kwargs") or {}))
            disc.fit(c04.build_frame(case), y)
        except Exception as e:  # noqa: BLE001
            for f in case["features"]:
                res[f["name"] + suffix] = {"error": C.exc_class(e)}
            continue
        for f in case["features"]:
            n = f["name"]
            if n not in disc.features:
                res[n + suffix] = {"dropped": True}
                continue
            vo = disc.values_orders[n]
            order = list(vo)
            res[n + suffix] = {
                "kind": "quant" if n in disc.quantitative_features else "qual",
                "order": encs(order),
                "labels": encs([disc.labels_per_values[n][v] for v in order]),
                "content": [[enc(k), encs(list(vo.content[k]))] for k in order],
                "str_nan": disc.str_nan}
    return res


def vkey(v):
    """hashable identity of a cell value: strings apart from numbers, 1 == 1.0"""
    if isinstance(v, str):
        return ("s", v)
    if C.is_nan(v):
        return ("nan",)
    return ("n", float(v))


class Base:
    """maps the elements of a history combination back to base modality numbers"""

    def __init__(self, b):
        self.kind = b["kind"]
        self.nan = b["str_nan"]
        order = decs(b["order"])
        self.has_nan = any(isinstance(v, str) and v == self.nan for v in order)
        self.m = len(order) - (1 if self.has_nan else 0)
        self.of = {}
        i = 0
        for v, lab, (_, members) in zip(order, decs(b["labels"]), b["content"]):
            if isinstance(v, str) and v == self.nan:
                self.of[vkey(self.nan)] = self.m
                continue
            if self.kind == "quant":
                self.of[vkey(lab)] = i
            else:
                for x in decs(members):
                    self.of[vkey(x)] = i
            i += 1

    def ids(self, values):
        out = set()
        for v in values:
            k = vkey(v)
            if k not in self.of:
                return None
            out.add(self.of[k])
        return sorted(out)

    def grouping(self, comb):
        gs = [self.ids(g) for g in comb]
        if any(g is None or not g for g in gs):
            return None
        return sorted(gs, key=lambda g: g[0])


def table(df):
    rows = []
    for (feat, dtype), r in df.iterrows():
        rows.append([str(feat), str(dtype), enc(r["label"]), encs(list(r["content"]))])
    return rows


def call_table(fn):
    try:
        return table(fn())
    except Exception as e:  # noqa: BLE001
        return C.exc_class(e)


def records_of(df):
    """history DataFrame -> list of plain records"""
    recs = []
    if df is None:
        return None
    meas = [c for c in df.columns if c in ("tschuprowt", "cramerv", "kruskal")]
    for r in df.to_dict(orient="records"):
        comb = r.get("combination")
        rec = {"removed": r.get("removed") is True}
        if isinstance(comb, list):
            rec["comb"] = [encs(list(g)) for g in comb]
            val = None
            for c in meas:
                x = r.get(c)
                if x is not None and not (isinstance(x, float) and x != x):
                    val = float(x)
            rec["measure"] = enc(val) if val is not None else ["nan"]
            v = r.get("viability")
            rec["viab"] = bool(v) if isinstance(v, (bool, np.bool_)) else None
            msg = r.get("viability_message")
            rec["msg"] = [str(m) for m in msg] if isinstance(msg, list) else []
            rec["nan"] = bool(r.get("grouping_nan")) if r.get("grouping_nan") is not None else False
        if "feature" in r and isinstance(r["feature"], str):
            rec["feature"] = r["feature"]
        recs.append(rec)
    return recs


def call_records(fn):
    try:
        return records_of(fn())
    except Exception as e:  # noqa: BLE001
        return C.exc_class(e)


def strip_recs(rs):
    return json.dumps([{k: v for k, v in r.items() if k != "feature"} for r in rs], sort_keys=True)


def never_declared(kept, declared):
    """names no feature carries: a plain one, one that contains the name of a kept feature and one
    that is contained in it (feature selection is by equality of names, never by substring)"""
    names = [UNKNOWN]
    if kept:
        k = sorted(kept)[0]
        names += [k + "_zz", "zz_" + k + "_zz"]
        if len(k) > 1:
            names.append(k[:-1])
    return [n for n in names if n not in declared and n not in kept]


def snapshot(obj):
    """to_json() as plain JSON data"""
    return json.loads(json.dumps(obj.to_json(), sort_keys=True, default=repr))


def strip_feature_key(js):
    js = dict(js)
    if isinstance(js.get("_history"), dict):
        js["_history"] = {f: [{k: v for k, v in r.items() if k != "feature"} if isinstance(r, dict) else r
                              for r in recs] for f, recs in js["_history"].items()}
    return js


def run_s(case):
    obj, skip = None, None
    try:
        obj = fit_object16(case)
    except Exception as e:  # noqa: BLE001  (fit failures belong to C08)
        return {"skip": f"fit raised {C.exc_class(e)}: {type(e).__name__}"}
    declared = [f["name"] + sfx for sfx, _ in targets_of(case) for f in case["features"]]
    kept = [n for n in obj.features]
    states = [c04.extract_state(obj, n) for n in kept]
    raw_of = {c: r for r, cs in obj.features_casting.items() for c in cs}
    X = c04.build_frame(case)
    outs, exc = c04.run_transform(obj, X, kept)
    runs = []
    for n in kept:
        col = encs(list(X[raw_of.get(n, n)]))
        if isinstance(outs[n], str):
            cs, _ = c04.dedup_pairs(col, col)
            runs.append({"cells": cs, "out": outs[n]})
        else:
            cs, os_ = c04.dedup_pairs(col, outs[n])
            runs.append({"cells": cs, "out": os_})
    out = {"features": states, "runs": runs, "exc": exc, "kept": kept, "declared": declared,
           "input_dtypes": {n: obj.input_dtypes.get(n) for n in kept}}
    j0 = snapshot(obj)
    out["summary_all"] = call_table(lambda: obj.summary())
    out["summary_each"] = {n: call_table(lambda n=n: obj.summary(n)) for n in kept}
    unknown = [n for n in declared if n not in kept] + never_declared(kept, declared)
    out["summary_unknown"] = {n: call_table(lambda n=n: obj.summary(n)) for n in unknown}
    out["summary_all_2"] = call_table(lambda: obj.summary())
    j1 = snapshot(obj)
    out["pure_summary"] = j0 == j1
    if case["cls"].endswith("Carver"):
        def each():
            return {n: call_records(lambda n=n: obj.history(n)) for n in kept}
        if case.get("hist_order", "each_first") == "all_first":
            out["history_all"] = call_records(lambda: obj.history())
            out["history_each"] = each()
            out["history_all_2"] = call_records(lambda: obj.history())
            out["history_each_2"] = each()
        else:
            out["history_each"] = each()
            out["history_all"] = call_records(lambda: obj.history())
            out["history_each_2"] = each()
            out["history_all_2"] = call_records(lambda: obj.history())
        hist_declared = list(getattr(obj, "_history", None) or {})
        out["history_unknown"] = {n: (lambda r: r if isinstance(r, str) else "table")(
            call_records(lambda n=n: obj.history(n))) for n in never_declared(kept, declared + hist_declared)}
        out["summary_all_3"] = call_table(lambda: obj.summary())
        j2 = snapshot(obj)
        out["pure_history"] = j1 == j2
        out["pure_history_modulo_feature_key"] = strip_feature_key(j1) == strip_feature_key(j2)
        h1, h2 = j1.get("_history") or {}, j2.get("_history") or {}
        out["stored_history_sizes"] = {str(n): [len(h1.get(n, [])), len(h2.get(n, []))] for n in h2}
        out["base"] = base_modalities(case)
    else:
        h = None
        try:
            h = obj.history()
        except Exception as e:  # noqa: BLE001
            h = C.exc_class(e)
        out["history_none"] = h is None
    return out


# ------------------------------------------------------------------------------------------------
# running the implementation: H cases
# ------------------------------------------------------------------------------------------------
def run_h(case):
    import pandas as pd

    out = c01.run_fit(case)
    if "skip" in out:
        return out
    out.pop("train_labels", None)
    out.pop("dev_labels", None)
    out.pop("train_idx", None)
    if out.get("fit") != "ok" or not isinstance(out.get("base"), dict) or out["base"].get("dev") == "assert":
        return {"skip": f"outside C16 (base={out.get('base') if not isinstance(out.get('base'), dict) else 'ok'}, "
                        f"fit={out.get('fit')}): C08/C01"}
    F = c01.F
    y = pd.Series(case["y"])
    disc = c01.build_discretizer(case)
    disc.fit(c01.mk_frame(case["X"]), y)
    vo = disc.values_orders[F]
    order = list(vo)
    b = {"kind": "quant" if F in disc.quantitative_features else "qual", "order": encs(order),
         "labels": encs([disc.labels_per_values[F][v] for v in order]),
         "content": [[enc(k), encs(list(vo.content[k]))] for k in order], "str_nan": disc.str_nan}
    out["basemap"] = b
    carver = c01.build_carver(case)
    if case.get("Xdev") is not None:
        carver.fit(c01.mk_frame(case["X"]), y, X_dev=c01.mk_frame(case["Xdev"]), y_dev=pd.Series(case["ydev"]))
    else:
        carver.fit(c01.mk_frame(case["X"]), y)
    out["kept2"] = F in carver.features
    out["history_f"] = call_records(lambda: carver.history(F))
    out["history_all"] = call_records(lambda: carver.history())
    out["summary_all"] = call_table(lambda: carver.summary())
    return out


# ------------------------------------------------------------------------------------------------
# python-side statement of the property
# ------------------------------------------------------------------------------------------------
def leq(a, b):
    return c04.leq(a, b)


def rows_of(tbl, name):
    return [[dec(l), decs(cs)] for f, _, l, cs in tbl if f == name]


def same_rows(a, b):
    """two lists of (label, content) equal as sets of (label, set of content)"""
    if len(a) != len(b):
        return False

    def has(r, rows):
        return any(leq(r[0], q[0]) and len(r[1]) == len(q[1]) and all(c04.isin(x, q[1]) for x in r[1])
                   for q in rows)

    return all(has(r, b) for r in a) and all(has(r, a) for r in b)


def oracle_summary_feature(st_json, rows, cells, outs, dtype):
    st = c04.St(st_json)
    name = st_json["name"]
    exp_dtype = "float" if st.kind == "quant" else "str"
    if dtype != exp_dtype:
        return False, f"summary: feature {name} has dtype {dtype!r}, input_dtypes says {exp_dtype!r}"
    for i, (l, _) in enumerate(rows):
        if any(leq(l, q[0]) for q in rows[:i]):
            return False, f"summary: feature {name} has two rows with label {l!r}"
    if any(not cs for _, cs in rows):
        return False, f"summary: feature {name} has a row without content"

    def holders(v):
        return [l for l, cs in rows if c04.isin(v, cs)]

    known = st.values()
    nan_known = st.contains(st.nan)
    if st.kind == "qual":
        def shown(v):
            return (isinstance(v, str) and v != st.default and not (not st.dropna and v == st.nan))
        for v in known:
            if not shown(v):
                continue
            hs = holders(v)
            if len(hs) != 1:
                return False, (f"summary: known value {v!r} of feature {name} is shown in {len(hs)} rows "
                               f"(rows {rows!r})")
            if not leq(hs[0], st.label(v)):
                return False, (f"summary: value {v!r} of feature {name} is shown under label {hs[0]!r} but "
                               f"labels_per_values maps it to {st.label(v)!r}")
        for l, cs in rows:
            for v in cs:
                if not (st.contains(v) and shown(v)):
                    return False, (f"summary: row {l!r} of feature {name} shows {v!r}, which is not a known "
                                   f"non-numeric value (str_default / hidden NaN sentinel / number)")
    else:
        if len(rows) != len(st.keys):
            return False, (f"summary: quantitative feature {name} has {len(rows)} rows for {len(st.keys)} "
                           f"fitted groups")
        for k in st.keys:
            if not any(leq(l, st.label(k)) for l, _ in rows):
                return False, f"summary: no row of feature {name} carries the label {st.label(k)!r} of group {k!r}"
        for l, cs in rows:
            rest = [v for v in cs if not (isinstance(v, str) and v == st.nan)]
            if len(rest) != 1 or not isinstance(rest[0], str):
                # the missing-value group alone shows only the sentinel
                if not (not rest and nan_known and leq(l, st.label(st.group(st.nan)))):
                    return False, f"summary: row {l!r} of feature {name} has content {cs!r} (one interval expected)"
            if st.odt == "str" and rest and not leq(rest[0], l):
                return False, f"summary: row {l!r} of feature {name} shows the interval {rest[0]!r}"
        if nan_known:
            hs = holders(st.nan)
            want = st.label(st.group(st.nan))
            if len(hs) != 1 or not leq(hs[0], want):
                return False, (f"summary: missing values of feature {name} belong to the group labelled "
                               f"{want!r} but the sentinel is shown in rows {hs!r}")
        elif holders(st.nan):
            return False, f"summary: feature {name} shows the NaN sentinel although it is not a known value"
    if isinstance(outs, str):
        return False, f"transform of the training frame raised ({outs})"
    for c, o in zip(decs(cells), decs(outs)):
        if C.is_nan(c):
            if st.dropna and nan_known:
                hs = holders(st.nan)
                if len(hs) != 1 or not leq(hs[0], o):
                    return False, (f"feature {name}: transform sends missing values to {o!r} but summary "
                                   f"shows the sentinel under {hs!r}")
            continue
        if st.kind == "qual":
            if isinstance(c, str) and st.contains(c) and c != st.default and c != st.nan:
                hs = holders(c)
                if len(hs) != 1 or not leq(hs[0], o):
                    return False, (f"feature {name}: transform sends {c!r} to {o!r} but summary shows it "
                                   f"under {hs!r}")
        else:
            if C.is_nan(o) or not any(leq(l, o) for l, _ in rows):
                return False, f"feature {name}: transform output {o!r} (cell {c!r}) is the label of no summary row"
    return True, ""


def leak_rows(out):
    """rows of summary(f) that belong to another feature"""
    res = []
    for n, tbl in out.get("summary_each", {}).items():
        if isinstance(tbl, str):
            continue
        for f, _, l, cs in tbl:
            if f != n:
                res.append((n, f, dec(l), decs(cs)))
    return res


def oracle_summary(case, out):
    tbl = out["summary_all"]
    if isinstance(tbl, str):
        return False, f"summary() raised ({tbl})"
    kept = out["kept"]
    listed = []
    for f, _, _, _ in tbl:
        if f not in listed:
            listed.append(f)
    if sorted(listed) != sorted(kept):
        return False, f"summary() lists the features {sorted(listed)}, the kept features are {sorted(kept)}"
    for st, r in zip(out["features"], out["runs"]):
        n = st["name"]
        dt = next(d for f, d, _, _ in tbl if f == n)
        ok, msg = oracle_summary_feature(st, rows_of(tbl, n), r["cells"], r["out"], dt)
        if not ok:
            return False, msg
    for n in kept:
        t1 = out["summary_each"][n]
        if isinstance(t1, str):
            return False, f"summary({n!r}) raised ({t1}) although {n!r} is a kept feature"
        foreign = [(f, dec(l), decs(cs)) for f, _, l, cs in t1 if f != n]
        if foreign:
            return False, (f"summary({n!r}) contains rows of other features: {foreign!r}")
        if not same_rows(rows_of(t1, n), rows_of(tbl, n)):
            return False, f"summary({n!r}) = {rows_of(t1, n)!r} differs from the rows of {n!r} in summary()"
    for n, t1 in out["summary_unknown"].items():
        if t1 != "assert":
            return False, (f"summary({n!r}) for a feature that is not kept: AssertionError expected, got "
                           f"{t1 if isinstance(t1, str) else 'a table'}")
    for tag in ("summary_all_2", "summary_all_3"):
        t2 = out.get(tag)
        if t2 is not None and t2 != tbl:
            return False, ("summary() is not a pure query: a later call (after summary(f) / history() calls) "
                           "returns a different table than the first one")
    if out.get("pure_summary") is False:
        return False, "summary() is not a pure query: to_json() differs before and after the summary calls"
    return True, ""


def compositions(m, kmax):
    """all groupings of 0..m-1 into 2..kmax contiguous groups"""
    res = []
    for k in range(2, min(kmax, m) + 1):
        for cuts in itertools.combinations(range(1, m), k - 1):
            bounds = [0] + list(cuts) + [m]
            res.append([list(range(bounds[i], bounds[i + 1])) for i in range(k)])
    return res


def nan_compositions(k, nan_id, kmax):
    res = []
    for comp in compositions(k, kmax):
        for i in range(len(comp)):
            res.append([g + ([nan_id] if j == i else []) for j, g in enumerate(comp)])
        if len(comp) < kmax:
            res.append(comp + [[nan_id]])
    return res


def split_records(recs):
    """-> (raw, stage1, stage2, removed?, error message)"""
    body = [r for r in recs if "comb" in r]
    removed = [r for r in recs if "comb" not in r]
    if any(not r.get("removed") for r in removed):
        return None, None, None, None, "a record without combination that is not the removed marker"
    if removed and recs[-1] is not removed[-1]:
        return None, None, None, None, "the removed marker is not the last record"
    raw = [r for r in body if r["msg"] == ["Raw X distribution"]]
    rest = [r for r in body if r["msg"] != ["Raw X distribution"]]
    if raw and body[0] is not raw[0]:
        return None, None, None, None, "the raw distribution is not the first record"
    s1 = [r for r in rest if not r["nan"]]
    s2 = [r for r in rest if r["nan"]]
    if rest != s1 + s2:
        return None, None, None, None, "records of the missing-value stage precede records of the first stage"
    return raw, s1, s2, bool(removed), None


def shape_ok(recs):
    flags = [r["viab"] for r in recs]
    if True in flags:
        i = flags.index(True)
        return all(f is False for f in flags[:i]) and all(f is None for f in flags[i + 1:])
    return all(f is False for f in flags)


def last_viable(recs):
    for r in reversed(recs):
        if r["viab"] is True:
            return r
    return None


def measure_of(r):
    return dec(r["measure"])


def oracle_history_feature(name, recs, base, max_n_mod, dropna, kept, fitted):
    """recs: records of one feature; base: Base; fitted: partition of base numbers (kept only)"""
    raw, s1, s2, removed, err = split_records(recs)
    if err:
        return False, f"history({name!r}): {err}"
    n_units = base.m + (1 if base.has_nan else 0)
    if n_units > 1:
        if len(raw) != 1:
            return False, f"history({name!r}) holds {len(raw)} raw distribution records"
        g = base.grouping([decs(x) for x in raw[0]["comb"]])
        if g != [[i] for i in range(n_units)]:
            return False, (f"history({name!r}): the raw distribution {raw[0]['comb']!r} is not the list of "
                           f"the {n_units} base modalities")
        if raw[0]["viab"] is not None:
            return False, f"history({name!r}): the raw distribution carries a viability flag"
    elif raw:
        return False, f"history({name!r}) holds a raw record for a feature with a single modality"
    for tag, stage in (("first", s1), ("missing-value", s2)):
        if not shape_ok(stage):
            return False, (f"history({name!r}), {tag} stage: viability flags {[r['viab'] for r in stage]} are not "
                           f"'False.., True, then not checked'")
        ms = [measure_of(r) for r in stage]
        if any(C.is_nan(x) for x in ms):
            return False, f"history({name!r}), {tag} stage: a record has no association value"
        if any(b > a * (1 + 1e-9) + 1e-12 for a, b in zip(ms, ms[1:])):
            return False, f"history({name!r}), {tag} stage: association values are not decreasing: {ms}"
    want1 = compositions(base.m, max_n_mod) if base.m > 1 else []
    got1 = [base.grouping([decs(x) for x in r["comb"]]) for r in s1]
    if any(g is None for g in got1):
        return False, f"history({name!r}): a combination mentions a value that is no base modality"
    if sorted(map(json.dumps, got1)) != sorted(map(json.dumps, want1)):
        return False, (f"history({name!r}): the first stage holds {len(got1)} combinations, the "
                       f"{len(want1)} groupings of {base.m} modalities into 2..{max_n_mod} groups were expected "
                       f"exactly once each")
    v1 = last_viable(s1)
    want2 = []
    if v1 is not None and dropna and base.has_nan:
        c1 = base.grouping([decs(x) for x in v1["comb"]])
        want2 = [[sorted(i2 for j in g for i2 in (c1[j] if j < len(c1) else [base.m])) for g in comp]
                 for comp in nan_compositions(len(c1), len(c1), max_n_mod)]
        want2 = [sorted(c, key=lambda g: g[0]) for c in want2]
    got2 = [base.grouping([decs(x) for x in r["comb"]]) for r in s2]
    if any(g is None for g in got2):
        return False, f"history({name!r}): a combination mentions a value that is no base modality"
    if sorted(map(json.dumps, got2)) != sorted(map(json.dumps, want2)):
        return False, (f"history({name!r}): the missing-value stage holds {len(got2)} combinations, "
                       f"{len(want2)} placements of the missing values were expected exactly once each")
    if kept:
        lv = last_viable(s1 + s2)
        if lv is None:
            return False, f"history({name!r}): no combination is flagged viable although the feature is kept"
        g = base.grouping([decs(x) for x in lv["comb"]])
        if fitted is not None and sorted(map(json.dumps, g)) != sorted(map(json.dumps, fitted)):
            return False, (f"history({name!r}): the last combination flagged viable {g} is not the fitted "
                           f"grouping {fitted} (base modality numbers, missing values = {base.m})")
        if removed:
            return False, f"history({name!r}): a kept feature is flagged removed"
    return True, ""


def fitted_partition(st_json, base, dropna):
    """values_orders of a kept QUALITATIVE feature -> partition of base modality numbers"""
    st = c04.St(st_json)
    groups = []
    for _, members in st.content:
        g = set()
        for x in members:
            if isinstance(x, str) and x == base.nan:
                if dropna:
                    g.add(base.m)
            elif vkey(x) in base.of:
                g.add(base.of[vkey(x)])
        if g:
            groups.append(sorted(g))
    return sorted(groups, key=lambda g: g[0])


def fitted_partition_quant(st_json, base_json, dropna):
    st = c04.St(st_json)
    order = decs(base_json["order"])
    nan = base_json["str_nan"]
    bl = [v for v in order if not (isinstance(v, str) and v == nan)]
    m = len(bl)
    groups = []
    for k, members in st.content:
        g = set()
        for x in members:
            if isinstance(x, str) and x == nan:
                if dropna:
                    g.add(m)
            else:
                for i, b in enumerate(bl):
                    if b == x:
                        g.add(i)
        if g:
            groups.append(sorted(g))
    return sorted(groups, key=lambda g: g[0])


def oracle_history_s(case, out):
    p = case["params"]
    if not case["cls"].endswith("Carver"):
        if not out.get("history_none"):
            return False, "history() of a discretizer that is not a carver is not None"
        return True, ""
    for n, r in (out.get("history_unknown") or {}).items():
        if r != "assert":
            return False, (f"history({n!r}) for a name no carved feature carries: AssertionError expected, "
                           f"got {'a table' if r == 'table' else r}")
    hall = out["history_all"]
    if isinstance(hall, str):
        return False, f"history() raised ({hall})"
    for st in out["features"]:
        n = st["name"]
        recs = out["history_each"][n]
        if isinstance(recs, str):
            return False, f"history({n!r}) raised ({recs}) although {n!r} is a kept feature"
        b = out["base"].get(n)
        if not b or "order" not in b:
            return False, f"feature {n!r} is kept by the carver but its base discretization gives {b!r}"
        base = Base(b)
        # the fitted grouping of the SEARCH: missing values belong to it only when the carver grouped
        # them (dropna at fit); a later update_discretizer / features_dropna edit is not history
        dropna = bool(p["dropna"])
        if base.kind == "quant":
            fitted = fitted_partition_quant(st, b, dropna)
        else:
            fitted = fitted_partition(st, base, dropna)
        ok, msg = oracle_history_feature(n, recs, base, p["max_n_mod"], p["dropna"], True, fitted)
        if not ok:
            return False, msg
        for tag in ("history_all", "history_all_2"):
            h = out.get(tag)
            if h is None:
                continue
            if isinstance(h, str):
                return False, f"history() raised ({h})"
            mine = [r for r in h if r.get("feature") == n]
            if strip_recs(mine) != strip_recs(recs):
                return False, (f"history() [{'first' if tag == 'history_all' else 'second'} call, order "
                               f"{case.get('hist_order', 'each_first')}] and history({n!r}) hold different records for {n!r}: "
                               f"{len(mine)} vs {len(recs)} records")
        recs2 = (out.get("history_each_2") or {}).get(n)
        if recs2 is not None and (isinstance(recs2, str) or strip_recs(recs2) != strip_recs(recs)):
            return False, (f"history({n!r}) is not a pure query: called again after history() it returns "
                           f"{recs2 if isinstance(recs2, str) else len(recs2)} records instead of {len(recs)} "
                           f"(order {case.get('hist_order', 'each_first')})")
    h2 = out.get("history_all_2")
    if h2 is not None and strip_recs(h2) != strip_recs(hall):
        return False, (f"history() is not a pure query: {len(hall)} records at the first call, "
                       f"{len(h2)} at the second")
    if out.get("pure_history_modulo_feature_key") is False:
        return False, ("history() is not a pure query: the stored history (to_json()['_history']) changed, "
                       f"records per feature before/after: {out.get('stored_history_sizes')}")
    return True, ""


def oracle_h(case, out):
    F = c01.F
    if out.get("kept") != out.get("kept2"):
        return False, "two fits of the same carver on the same data keep / drop the feature differently"
    recs = out["history_f"]
    if isinstance(recs, str):
        return False, f"history({F!r}) raised ({recs})"
    base = Base(out["basemap"])
    if base.m != out["base"]["m"] or base.has_nan != out["base"]["has_nan"]:
        return False, "harness: base modalities of the two Discretizer fits differ"
    fitted = sorted(out["groups"], key=lambda g: g[0]) if out.get("kept") else None
    ok, msg = oracle_history_feature(F, recs, base, case["max_n_mod"], case["dropna"], bool(out.get("kept")),
                                     fitted)
    if not ok:
        return False, msg
    hall = out["history_all"]
    if isinstance(hall, str):
        return False, f"history() raised ({hall})"
    tbl = out["summary_all"]
    if isinstance(tbl, str):
        return False, f"summary() raised ({tbl})"
    listed = sorted({f for f, _, _, _ in tbl})
    if listed != ([F] if out.get("kept") else []):
        return False, f"summary() lists {listed} but kept = {out.get('kept')}"
    return True, ""


# ------------------------------------------------------------------------------------------------
# Coq encoding
# ------------------------------------------------------------------------------------------------
def c_content(v):
    if isinstance(v, str):
        return f"(VStr {C.cstr(v)})"
    # numbers are never shown by the real code; a mutated one is caught on the string form
    return f"(VStr {C.cstr('#' + repr(v))})"


def c_rows(tbl, odt):
    if isinstance(tbl, str):
        return "SumAssert" if tbl == "assert" else "SumInternal"
    sc = C.Scale(0)
    items = []
    for f, _, l, cs in tbl:
        lab = dec(l)
        try:
            cl = c04.coq_label(lab, odt, sc)
        except ValueError:
            cl = f"(LVal (VStr {C.cstr('#' + repr(lab))}))"
        items.append(C.cpair(C.cstr(f), f"(mkRow {cl} {C.clist([c_content(v) for v in decs(cs)])})"))
    return "(SumOk " + C.clist(items) + ")"


MAX_CELLS = 40


def thin16(st, cells, outs):
    """at most ~MAX_CELLS (cell, output) pairs of a feature go to Coq (the python oracle sees every
    pair): missing values, the neighbours of every leader, an even sample of the rest"""
    if isinstance(outs, str) or len(cells) <= MAX_CELLS:
        return cells, outs
    vals = decs(cells)
    keep = {i for i, v in enumerate(vals) if C.is_nan(v)}
    if st["kind"] == "quant":
        import bisect
        fin = sorted((i for i, v in enumerate(vals) if not C.is_nan(v)), key=lambda i: vals[i])
        xs = [vals[i] for i in fin]
        for l in decs(st["keys"]):
            if isinstance(l, str) or C.is_nan(l):
                continue
            j = bisect.bisect_left(xs, l)
            for d in (-1, 0, 1):
                if 0 <= j + d < len(fin):
                    keep.add(fin[j + d])
        rest = fin
    else:
        rest = [i for i, v in enumerate(vals) if not C.is_nan(v)]
    step = max(1, len(rest) // max(1, MAX_CELLS - len(keep)))
    keep.update(rest[::step])
    idx = sorted(keep)[:MAX_CELLS + 30]
    return [cells[i] for i in idx], [outs[i] for i in idx]


def coq_s(case, out):
    odt = case["params"]["output_dtype"]
    feats = []
    for st, r in zip(out["features"], out["runs"]):
        tc = c04.coq_tcase(st, *thin16(st, r["cells"], r["out"]), fitted=True)
        feats.append(C.cpair(C.cstr(st["name"]), f"({tc})"))
    each = [C.cpair(C.cstr(n), c_rows(t, odt)) for n, t in out["summary_each"].items()]
    unk = [C.cpair(C.cstr(n), c_rows(t, odt)) for n, t in out["summary_unknown"].items()]
    return (f"CS (mkOCase {C.clist(feats)} {c_rows(out['summary_all'], odt)} {C.clist(each)} "
            f"{C.clist(unk)})")


def c_irec(r, base):
    g = base.grouping([decs(x) for x in r["comb"]])
    if g is None:
        g = [[999]]
    comb = C.clist([C.clist([C.cnat(i) for i in grp]) for grp in g])
    x = measure_of(r)
    if x is None or C.is_nan(x) or math.isinf(x):
        meas = "None"
    else:
        m, e = C.float_to_me(float(x))
        meas = f"(Some ({C.cZ(m)}, {C.cZ(e)}))"
    viab = "None" if r["viab"] is None else f"(Some {C.cbool(r['viab'])})"
    return f"(mkIR {comb} {meas} {viab})"


def coq_h(case, out):
    base = Base(out["basemap"])
    raw, s1, s2, _, err = split_records(out["history_f"])
    if err:
        raw, s1, s2 = [], [], []
    k = c01.coq_case(case, out)
    lst = lambda rs: C.clist([c_irec(r, base) for r in rs])  # noqa: E731
    return (f"CH (let k := ({k}) in mkHCase (k_cfg k) (k_data k) (k_impl k) {lst(raw)} {lst(s1)} {lst(s2)})")


# ------------------------------------------------------------------------------------------------
class C16(Prop):
    pid = "C16"
    theorems = ["C16_summary_partition", "C16_summary_values_known", "C16_summary_quantitative_rows",
                "C16_summary_quantitative_content", "C16_summary_nan_row", "C16_summary_nan_row_unique",
                "C16_summary_feature_only", "C16_summary_feature_is_filter", "C16_summary_kept_features",
                "C16_summary_unknown_feature", "C16_history_last_viable", "C16_history_candidates_once",
                "C16_history_shape", "C16_history_fitted_grouping", "C16_history_layout"]
    coq_targets = ["Properties/C16.vo", "Model/CheckC16.vo"]
    rule = ("family S: one fitted object per case = training frame of props.c04.gen_case (40-400 rows, 1-3 "
            "features: quantitative flavours incl. close boundaries, categorical incl. numeric-looking "
            "values, ordinal; NaN share 0-30%) x class (Discretizer, QuantitativeDiscretizer, "
            "QualitativeDiscretizer, BinaryCarver, ContinuousCarver, MulticlassCarver) x output_dtype x "
            "dropna x JSON rebuild; feature names contained in one another in ~40% of the multi-feature cases "
            "(q0 / q0_b / xq0) and never declared names containing / contained in a kept name; "
            "summary(), summary(f) for every kept f, for every dropped f and for a "
            "never declared name, history(), history(f) (each called twice, history() first or history(f) first), "
            "to_json() before/after, transform(X_train) are read; 60% of the dropna=False cases with missing "
            "values get per-feature NaN status != global flag (update_discretizer / JSON); all compared with the "
            "property (python oracle: rows vs labels_per_values vs transform cell by cell; history vs base "
            "modalities of the real Discretizer and the fitted values_orders) and with Model/Summary.v run "
            "on the fitted state of every kept feature.  family H: one carver fit on one feature per case "
            "(props.c01.gen_case: 1-8 base modalities, NaN 0-30%, dev samples, boundary min_freq_mod, tied "
            "rates); every history record is mapped to base modality numbers and compared with the model's "
            "records (combination, exact association value up to 1e-9, viability flag; order up to ties). "
            "non-trivial = at least one kept feature (S) / a raw record exists (H); distinct = (family, "
            "class, kinds/flavours, output_dtype, dropna, json, #groups, NaN placement | carver, measure, "
            "type, #modalities, NaN, dev, kept, #records, position of the viable record) signature")
    assumptions = [
        "qualitative rows show the known NON-numeric values only (numbers grouped under their string form "
        "are skipped by the isinstance tests of summary()) and never str_default itself",
        "with dropna=False a quantitative feature still gets a row for its own missing-value group (the "
        "extra pass of summary() does not read features_dropna) while a qualitative one hides it: "
        "modelled as coded and accepted by the oracle",
        "history() (all features) adds a 'feature' key to the STORED records, hence to to_json()['_history']: "
        "ignored (the stored history is compared before/after the calls modulo that key); everything else is "
        "checked as a pure query: summary()/history()/history(f) called repeatedly in either order return the "
        "same tables, and to_json() is unchanged",
        "per-feature missing-value status different from the global flag is reached on dropna=False objects "
        "through update_discretizer(f, 'group', nan, first modality) or by setting features_dropna[f] in the "
        "object's JSON; the history of such an object is compared with the grouping of the SEARCH (dropna at "
        "fit), not with the edited one",
        "history() also keeps the records of features dropped by the carver (flagged removed): C16 "
        "speaks about kept features only",
        "viability messages are not compared (the dev messages of an earlier candidate persist in "
        "_test_viability's test_results dict)",
        "association values: the model's exact V^2 / T^4 / H against the float V / T / H, relative 1e-9; "
        "where the model's value is undefined (degenerate table) any float is accepted",
        "fits that raise are skipped (C08); H cases need the base discretization to be usable (as C01)",
        "object-level summary = concatenation of per-feature rows (feature names are distinct)",
    ]
    trusted_extra = ["state extraction of props.c04 and base-modality mapping of history combinations in "
                     "harness/props/c16.py (labels of the real Discretizer -> modality numbers)"]

    # ---- generation -------------------------------------------------------------------------
    def corpus(self):
        # O33: summary(f) listed the missing-value rows of OTHER quantitative features
        # (corpus/findings/C16-O33-summary-feature-leaks-nan-rows.json)
        q = [float((i * 7) % 10) if i % 5 else NAN for i in range(60)]
        c = ["ab"[(i // 3) % 2] for i in range(60)]
        y = [1 if (v != v or v > 4) and i % 3 else 0 for i, v in enumerate(q)]
        cs = [{"fam": "S", "cls": "Discretizer", "json": False,
               "params": {"min_freq": 0.2, "output_dtype": "str", "dropna": True},
               "features": [{"name": "q0", "kind": "quant", "flavour": "discrete", "values": encs(q)},
                            {"name": "c1", "kind": "cat", "flavour": "letters", "values": encs(c)}],
               "y": y}]
        cs.append(dict(cs[0], cls="BinaryCarver",
                       params={"min_freq": 0.2, "output_dtype": "float", "dropna": True, "max_n_mod": 3,
                               "sort_by": "tschuprowt"}))
        # per-feature missing-value status differs from the global flag (dropna=False object, NaN of the
        # qualitative feature grouped afterwards with update_discretizer / through JSON)
        c2 = [["a", "b", "c", NAN][(i * 3 + i // 5) % 4] for i in range(80)]
        q2 = [float((i * 7) % 10) if i % 7 else NAN for i in range(80)]
        y2 = [1 if (i * 5) % 7 < 3 else 0 for i in range(80)]
        for cls, variant in (("QualitativeDiscretizer", "edit"), ("BinaryCarver", "edit"), ("Discretizer", "mixed")):
            feats = [{"name": "c0", "kind": "cat", "flavour": "letters", "values": encs(c2)}]
            if cls != "QualitativeDiscretizer":
                feats.append({"name": "q1", "kind": "quant", "flavour": "discrete", "values": encs(q2)})
            prm = {"min_freq": 0.1, "output_dtype": "str", "dropna": False}
            if cls == "BinaryCarver":
                prm.update(max_n_mod=3, sort_by="cramerv")
            cs.append({"fam": "S", "cls": cls, "json": False, "params": prm, "features": feats, "y": y2,
                       "nan_variant": variant, "nan_pattern": [True], "hist_order": "all_first"})
        # three kept features, history() first, then history(f), history() again
        c3 = [["u", "v", "w"][(i * 2 + i // 4) % 3] for i in range(80)]
        cs.append({"fam": "S", "cls": "BinaryCarver", "json": False, "hist_order": "all_first",
                   "params": {"min_freq": 0.1, "output_dtype": "str", "dropna": True, "max_n_mod": 3,
                              "sort_by": "tschuprowt"},
                   "features": [{"name": "c0", "kind": "cat", "flavour": "letters", "values": encs(c2)},
                                {"name": "c1", "kind": "cat", "flavour": "letters", "values": encs(c3)},
                                {"name": "q2", "kind": "quant", "flavour": "discrete", "values": encs(q2)}],
                   "y": [1 if ((i * 5) % 7 < 3) ^ (c3[i] == "u") else 0 for i in range(80)]})
        import os
        path = os.path.join(C.VERIF, "corpus", "findings", "C16-O33-summary-feature-leaks-nan-rows.json")
        if os.path.exists(path):
            cs.append(json.load(open(path))["case"])
        return cs

    def generate(self, rng, tier):
        ns, nh = (150, 110) if tier == "quick" else (1200, 1500)
        cases = []
        for i in range(ns):
            cls = CLASSES[i % len(CLASSES)]
            force = {}
            r = rng.random()
            if r < 0.10:
                force = {"kind": "quant", "qflavour": rng.choice(["yyyymm", "close", "discrete"])}
            elif r < 0.22:
                force = {"kind": "cat", "cflavour": rng.choice(["ints", "floats", "numstr", "mixed"])}
            elif r < 0.45:
                force = {"nfeat": rng.choice([2, 3])}
            cases.append(gen_s_case(rng, cls, force))
        cases += [gen_h_case(rng) for _ in range(nh)]
        return cases

    def search_cases(self, rng, neighbours, rnd):
        return [gen_s_case(rng) for _ in range(40)] + [gen_h_case(rng) for _ in range(40)]

    # ---- implementation -------------------------------------------------------------------
    def run_impl(self, case):
        return run_s(case) if case["fam"] == "S" else run_h(case)

    def oracle(self, case, out):
        if case["fam"] == "H":
            return oracle_h(case, out)
        ok, msg = oracle_summary(case, out)
        if not ok:
            return False, msg
        return oracle_history_s(case, out)

    def coq_shards(self, cases, outs):
        shards = []
        for part in chunks(list(zip(cases, outs)), 6):
            terms = [coq_s(c, o) if c["fam"] == "S" else coq_h(c, o) for c, o in part]
            txt = ("From Coq Require Import ZArith QArith List.\nImport ListNotations.\n"
                   "From AC.Model Require Import Base GroupedList Labels Transform FormatRule CheckC04.\n"
                   "From AC.Model Require Import Float Combos Measures Carve CheckC01 Summary CheckC16.\n"
                   "Open Scope string_scope.\nOpen Scope Z_scope.\n"
                   "Definition cases : list c16case := [\n  " + ";\n  ".join(terms) + "\n].\n"
                   "Eval vm_compute in map verdict16 cases.\n")
            shards.append(c04.hexify(txt))
        return shards

    # ---- evidence -------------------------------------------------------------------------
    def signature(self, case, out):
        if case["fam"] == "S":
            if "features" not in out or not out["features"]:
                return None
            parts = []
            for st in out["features"]:
                keys = decs(st["keys"])
                nanpos = "-"
                if st["str_nan"] in [k for k in keys if isinstance(k, str)]:
                    nanpos = "own"
                elif any(st["str_nan"] in [v for v in decs(vs) if isinstance(v, str)] for _, vs in st["content"]):
                    nanpos = "grouped"
                raw = st["name"]
                cands = [f for f in case["features"] if raw == f["name"] or raw.startswith(f["name"] + "_")]
                fl = max(cands, key=lambda f: len(f["name"]))["flavour"] if cands else "?"
                parts.append(f"{st['kind']}:{fl}:{len(keys)}:{nanpos}")
            p = case["params"]
            return (f"S|{case['cls']}|{p['output_dtype']}|{p['dropna']}|{bool(case.get('json'))}|"
                    f"{len(out['declared']) - len(out['kept'])}dropped|{','.join(sorted(parts))}")
        recs = out.get("history_f")
        if not isinstance(recs, list) or not recs:
            return None
        body = [r for r in recs if "comb" in r]
        pos = next((i for i, r in enumerate(body) if r["viab"] is True), -1)
        b = out["base"]
        return "|".join(map(str, ["H", case["carver"], case["sort_by"], case["ftype"], b["m"], b["has_nan"],
                                  case["Xdev"] is not None, out.get("kept"), len(body), min(pos, 6),
                                  case["dropna"], sum(1 for r in body if r["nan"]) > 0]))

    def finding_signatures(self, case, out, msg):
        sigs = []
        if case.get("fam") == "S" and isinstance(out, dict):
            for n, f, l, cs in leak_rows(out):
                st = next((s for s in out.get("features", []) if s["name"] == f), None)
                if st is not None and st["kind"] == "quant" and cs == [st["str_nan"]]:
                    sigs.append(LEAK)
                    break
        return sigs

    def shrink(self, case, out, msg):
        if case.get("fam") != "S":
            return case, out, msg
        return c04.C04.shrink(self, case, out, msg)

    def distribution(self, cases, outs):
        d = {"family": {}, "classes": {}, "rows": {}, "n_features": {}, "output_dtype": {}, "dropna": {},
             "json_rebuilt": 0, "kept_features": 0, "dropped_features": 0, "summary_rows": 0,
             "summary_f_calls": 0, "summary_unknown_calls": 0, "history_records": 0,
             "history_features": 0, "H_kind": {}, "H_kept": 0, "H_two_stage": 0, "skipped": 0}

        def inc(h, k):
            h[str(k)] = h.get(str(k), 0) + 1

        for c, o in zip(cases, outs):
            inc(d["family"], c["fam"])
            if not isinstance(o, dict) or "skip" in o or "harness_error" in o:
                d["skipped"] += 1
                continue
            if c["fam"] == "S":
                inc(d["classes"], c["cls"])
                inc(d["rows"], len(c["y"]))
                inc(d["n_features"], len(c["features"]))
                inc(d["output_dtype"], c["params"]["output_dtype"])
                inc(d["dropna"], c["params"]["dropna"])
                d["json_rebuilt"] += 1 if c.get("json") else 0
                d["kept_features"] += len(o["kept"])
                d["dropped_features"] += len(o["declared"]) - len(o["kept"])
                if isinstance(o["summary_all"], list):
                    d["summary_rows"] += len(o["summary_all"])
                d["summary_f_calls"] += len(o["summary_each"])
                d["summary_unknown_calls"] += len(o["summary_unknown"])
                for recs in o.get("history_each", {}).values():
                    if isinstance(recs, list):
                        d["history_features"] += 1
                        d["history_records"] += len(recs)
            else:
                inc(d["classes"], "H:" + c["carver"])
                inc(d["H_kind"], c["kind"])
                d["H_kept"] += 1 if o.get("kept") else 0
                recs = o.get("history_f")
                if isinstance(recs, list):
                    d["history_features"] += 1
                    d["history_records"] += len(recs)
                    d["H_two_stage"] += 1 if any(r.get("nan") for r in recs) else 0
        return d


PROP = C16()
