"""C11 — carving is invariant under information-preserving re-encodings.
Metamorphic pairs on the real code: each case is fitted as is and after row permutation, index
relabelling (offset ints, shuffled ints, strings), exact affine maps x -> a*x+b (a>0) of a
quantitative feature, and order-preserving renaming of categories.  Both fits are also compared
with the carving model (C01 verdict), whose inputs (units in the feature's order with their
target multisets) are by construction invariant under these re-encodings."""
import math
from fractions import Fraction

import numpy as np

import common as C
from props.base import NAN, Prop, chunks, dec, decs, enc, encs
from props.c01 import F, build_carver, build_discretizer, coq_case, gen_case, mk_frame, mset, run_fit
from props.c02 import key

# order-preserving renamings; the last one uses names that are SUBSTRINGS of the sentinels ('__NAN__', '__OTHER__')
SENT = ["AN", "N", "NA", "NAN", "OTHER", "_", "__"]
RENAMES = [lambda i, s: "k" + s, lambda i, s: s.upper(), lambda i, s: f"{i:02d}_{s}", lambda i, s: s + s,
           lambda i, s: SENT[i] if i < len(SENT) else "z" + s]


def exact_affine(vals, a, b):
    out = []
    for v in vals:
        if isinstance(v, float) and v != v:
            out.append(v)
            continue
        r = Fraction(v) * a + b
        f = float(r)
        if Fraction(f) != r:
            return None
        out.append(f)
    return out


def variants(case, rng):
    n = len(case["X"])
    vs = []
    perm = list(range(n))
    rng.shuffle(perm)
    vs.append({"name": "row_permutation", "perm": perm, "index": None})
    vs.append({"name": "index_offset", "perm": None, "index": [i + 1000 for i in range(n)]})
    sh = list(range(n))
    rng.shuffle(sh)
    vs.append({"name": "index_shuffled_ints+perm", "perm": perm[::-1], "index": sh})
    vs.append({"name": "index_strings", "perm": None, "index": [f"r{i:04d}" for i in range(n)]})
    if case["ftype"] == "quant":
        # shifts that send an observed value exactly to 0 (falsy / sign-sensitive code paths)
        obs = sorted({v for v in decs(case["X"]) if not (isinstance(v, float) and v != v)})
        for v0 in rng.sample(obs, min(2, len(obs))):
            fr = Fraction(v0)
            if fr.denominator == 1:
                vs.append({"name": f"affine a=1 b={-int(fr)} (to zero)", "affine": ["1", -int(fr)], "perm": None,
                           "index": None})
        for a, b in [(rng.choice([2, 4, 0.5, 1024]), rng.randint(-50, 50)), (3, rng.randint(-5, 5)),
                     (10, 0), (1, rng.choice([1000000, -7]))]:
            vs.append({"name": f"affine a={a} b={b}", "affine": [str(Fraction(a)), b], "perm": None, "index": None})
        # exact maps into neighbouring doubles (values a few ulps apart: labels need 16-17 significant digits)
        a, b = rng.choice([(Fraction(1, 2 ** 52), 1), (Fraction(256), 2 ** 60), (Fraction(1, 2 ** 46), 123)])
        vs.append({"name": f"affine a={a} b={b} (ulps)", "affine": [str(a), b], "perm": None, "index": None})
    else:
        j = rng.randrange(len(RENAMES))
        vs.append({"name": f"rename#{j}", "rename": j, "perm": None, "index": None})
        if j != len(RENAMES) - 1:
            vs.append({"name": f"rename#{len(RENAMES) - 1}", "rename": len(RENAMES) - 1, "perm": None, "index": None})
    return vs


def apply_variant(case, v):
    c = dict(case)
    X = decs(case["X"])
    if v.get("affine"):
        a, b = Fraction(v["affine"][0]), v["affine"][1]
        X2 = exact_affine(X, a, b)
        if X2 is None:
            return None
        c["X"] = encs(X2)
        if case["Xdev"] is not None:
            Xd = exact_affine(decs(case["Xdev"]), a, b)
            if Xd is None:
                return None
            c["Xdev"] = encs(Xd)
    if v.get("recode"):
        codes = sorted({x for x in X + (decs(case["Xdev"]) if case["Xdev"] else []) if isinstance(x, float) and x == x})
        mp = {c: float(i + 1) for i, c in enumerate(codes)}
        c["X"] = encs([mp.get(x, x) if isinstance(x, float) and x == x else x for x in X])
        if case["Xdev"] is not None:
            c["Xdev"] = encs([mp.get(x, x) if isinstance(x, float) and x == x else x for x in decs(case["Xdev"])])
    if v.get("rename") is not None:
        fn = RENAMES[v["rename"]]
        cats = sorted({x for x in X + (decs(case["Xdev"]) if case["Xdev"] else []) + (decs(case["order"]) if case["order"] else [])
                       if isinstance(x, str)})
        mp = {s: fn(i, s) for i, s in enumerate(cats)}
        if sorted(mp.values()) != [mp[s] for s in cats] or len(set(mp.values())) != len(cats):
            return None

        def ren(xs):
            return [mp[x] if isinstance(x, str) else x for x in xs]
        c["X"] = encs(ren(X))
        if case["Xdev"] is not None:
            c["Xdev"] = encs(ren(decs(case["Xdev"])))
        if case["order"] is not None:
            c["order"] = encs(ren(decs(case["order"])))
    return c


def fit_variant(case, v):
    """fit with a row permutation / index relabelling; returns run_fit-like dict + row partition"""
    import pandas as pd
    c = apply_variant(case, v)
    if c is None:
        return {"inexact": True}
    n = len(c["X"])
    perm = v.get("perm") or list(range(n))
    index = v.get("index") or list(range(n))
    X = mk_frame(c["X"])
    y = pd.Series(c["y"])
    X.index = index
    y.index = index
    Xp, yp = X.iloc[perm], y.iloc[perm]
    out = {}
    try:
        carver = build_carver(c)
        if c["Xdev"] is not None:
            carver.fit(Xp.copy(), yp.copy(), X_dev=mk_frame(c["Xdev"]), y_dev=pd.Series(c["ydev"]))
        else:
            carver.fit(Xp.copy(), yp.copy())
    except AssertionError:
        return {"fit": "assert"}
    except Exception as e:  # noqa: BLE001
        return {"fit": "internal", "error": f"{type(e).__name__}: {e}"[:300]}
    out["fit"] = "ok"
    out["kept"] = F in carver.features
    Xt = carver.transform(Xp.copy())
    out["index_kept"] = list(Xt.index) == list(Xp.index)
    # label of ORIGINAL row i
    lab = [None] * n
    for pos, i in enumerate(perm):
        lab[i] = Xt[F].iloc[pos]
    if out["kept"]:
        out["row_labels"] = [key(enc(x)) for x in lab]
    return out


def tie_case(rng):
    """categorical feature, 4-6 modalities, two of them with EXACTLY equal target rates but
    different sizes, rows in random order: tie-breaking must not depend on first appearance"""
    m = rng.randint(4, 6)
    names = rng.sample(["a", "b", "c", "d", "e", "g", "h"], m)
    k = rng.choice([8, 12, 16, 20])
    sizes = [k * rng.randint(2, 6) for _ in range(m)]
    ones = [rng.randint(1, s - 1) for s in sizes]
    i, j = rng.sample(range(m), 2)
    num, den = rng.choice([(1, 2), (1, 4), (3, 4), (1, 3)])
    sizes[i], sizes[j] = den * rng.randint(4, 12), den * rng.randint(13, 30)
    ones[i], ones[j] = sizes[i] * num // den, sizes[j] * num // den
    col, y = [], []
    for nme, s_, o in zip(names, sizes, ones):
        col += [nme] * s_
        y += [1] * o + [0] * (s_ - o)
    perm = list(range(len(col)))
    rng.shuffle(perm)
    col, y = [col[t] for t in perm], [y[t] for t in perm]
    n = len(col)
    return {"carver": "binary", "sort_by": rng.choice(["tschuprowt", "cramerv"]), "ftype": "categ",
            "min_freq": 0.05, "max_n_mod": rng.randint(2, 4), "dropna": True, "output_dtype": "float",
            "X": encs(col), "y": y, "kind": "categ_ties", "order": None, "Xdev": None, "ydev": None,
            "min_freq_mod": rng.choice([None, 0.2, 0.3, (sizes[i] + sizes[j]) / n])}


def rare_bucket_case(rng):
    """discrete quantitative feature with one over-represented value and rare neighbours, so that the
    rare-bucket pass of QuantitativeDiscretizer merges quantiles (leader = max of the merged run)"""
    lo = rng.choice([1, 2, 5, -4])
    vals = list(range(lo, lo + rng.randint(5, 8)))
    n = rng.choice([200, 300, 400])
    w = [rng.choice([0.01, 0.02, 0.2, 0.3, 0.4]) for _ in vals]
    w[rng.randrange(len(w))] = 0.4
    tot = sum(w)
    col, y = [], []
    for v, wi in zip(vals, w):
        c = max(1, int(n * wi / tot))
        p = rng.random()
        col += [float(v)] * c
        y += [1 if rng.random() < p else 0 for _ in range(c)]
    if sum(y) in (0, len(y)):
        y[0] = 1 - y[0]
    perm = list(range(len(col)))
    rng.shuffle(perm)
    col, y = [col[t] for t in perm], [y[t] for t in perm]
    return {"carver": "binary", "sort_by": rng.choice(["tschuprowt", "cramerv"]), "ftype": "quant",
            "min_freq": rng.choice([0.1, 0.2]), "max_n_mod": rng.randint(3, 6), "dropna": True,
            "output_dtype": "float", "X": encs(col), "y": y, "kind": "rare_buckets", "order": None,
            "Xdev": None, "ydev": None, "min_freq_mod": None}


def big_case(rng):
    """a sample of more than 20 000 rows with a continuous feature: shortcuts that look at every k-th row of a
    large sample make the quantiles depend on the row order"""
    n = rng.choice([24000, 30000])
    col = [round(rng.gauss(50, 15), 3) for _ in range(n)]
    y = [1 if rng.random() < min(0.95, max(0.05, (x - 10) / 90)) else 0 for x in col]
    return {"carver": "binary", "sort_by": rng.choice(["tschuprowt", "cramerv"]), "ftype": "quant",
            "min_freq": rng.choice([0.05, 0.1]), "max_n_mod": rng.randint(3, 4), "dropna": True,
            "output_dtype": "float", "X": encs(col), "y": y, "kind": "big", "order": None,
            "Xdev": None, "ydev": None, "min_freq_mod": None, "no_model": True}


def float_tie_case(rng):
    m = rng.randint(3, 5)
    vals = [float(i) for i in range(m)] if rng.random() < 0.6 else ["a", "b", "c", "d", "e"][:m]
    pools = [[0.1, 0.3, 0.4, 0.2], [0.7, 0.1, 0.2], [0.3, 0.3, 0.6, 0.2, 0.1]]
    col, y = [], []
    j = rng.randrange(m - 1)
    for i, v in enumerate(vals):
        k = rng.randint(12, 30)
        if i == j + 1:
            # same mean as modality j (both average the pool exactly), different multiset order/size
            pool = base_pool
            ys = [pool[t % len(pool)] for t in range(len(pool) * rng.randint(3, 6))]
            rng.shuffle(ys)
        else:
            base_pool = rng.choice(pools)
            ys = [base_pool[t % len(base_pool)] for t in range(len(base_pool) * rng.randint(3, 6))]
            if i != j:
                ys = [v_ + i for v_ in ys]
        col += [v] * len(ys)
        y += ys
    perm = list(range(len(col)))
    rng.shuffle(perm)
    col, y = [col[t] for t in perm], [y[t] for t in perm]
    return {"carver": "continuous", "sort_by": "kruskal", "ftype": "quant" if isinstance(vals[0], float) else "categ",
            "min_freq": 0.05, "max_n_mod": rng.randint(2, 5), "dropna": True, "output_dtype": "float",
            "X": encs(col), "y": y, "kind": "float_ties", "order": None, "Xdev": None, "ydev": None,
            "min_freq_mod": None, "no_model": True}


def partition(labels):
    groups = {}
    for i, l in enumerate(labels):
        groups.setdefault(l, []).append(i)
    return sorted(groups.values())


def tie_canonical(case, labels):
    """partition of the ORIGINAL rows written up to a swap of indistinguishable modalities: two raw values of
    a qualitative feature with exactly the same training (and dev) target multiset are interchangeable for
    the carver, the order in which it meets them may depend on their names (exact ties are accepted in any
    order).  Each group becomes the multiset of the signatures of the raw values it holds."""
    X = decs(case["X"])
    y = case["y"]
    sig = {}
    for x, t in zip(X, y):
        sig.setdefault(repr(x), []).append(t)
    if case.get("Xdev") is not None:
        for x, t in zip(decs(case["Xdev"]), case["ydev"]):
            sig.setdefault(repr(x), []).append(("dev", t))
    sig = {k: repr(sorted(map(repr, v))) for k, v in sig.items()}
    groups = {}
    for x, l in zip(X, labels):
        groups.setdefault(l, set()).add(repr(x))
    return sorted(sorted(sig[m] for m in g) for g in groups.values())


def base_rate_tie(base):
    """True when two base modalities of the original fit have exactly equal training target rates"""
    b = base.get("base") if isinstance(base, dict) else None
    if not isinstance(b, dict):
        return False
    rates = []
    for ms in b.get("train", []):
        n = sum(c for _, c in ms)
        if n:
            rates.append(Fraction(sum(v * c for v, c in ms), n))
    return len(set(rates)) < len(rates)


class C11(Prop):
    pid = "C11"
    coq_targets = ["Properties/C11.vo", "Model/CheckC01.vo"]
    theorems = ["C11_aggregate_row_permutation", "C11_carve_depends_on_multisets_only",
                "C11_carve_invariant_under_row_permutation", "C11_carve_invariant_under_re_encoding",
                "C11_unit_of_a_value_is_order_only"]
    rule = ("metamorphic pairs on real carvers (BinaryCarver, ContinuousCarver; quantitative, ordinal, "
            "categorical feature; NaN; optional dev): original fit vs row permutation, index = offsets / "
            "shuffled ints / strings, exact affine maps (a in {2^k, 3, 10, 1}, integer b, exactness checked "
            "with fractions) and order-preserving category renamings; observable = kept? and the partition "
            "of rows induced by transform; the original fit is also compared with the carving model; "
            "non-trivial = feature kept with at least 2 groups; distinct = (carver, ftype, variant names, "
            "#groups) signature")
    assumptions = ["affine maps are only applied when every a*x+b is exactly representable (checked)",
                   "renamings keep the code-point order of the categories"]

    def generate(self, rng, tier):
        n = 100 if tier == "quick" else 1600
        cases = []
        for k in range(n):
            c = gen_case(rng, kind=rng.choice(["plain", "plain", "tied_rates", "dev", "boundary"]))
            if k % 5 == 0:
                c = tie_case(rng)
            elif k % 5 == 1:
                c = rare_bucket_case(rng)
            elif k % 5 == 2:
                # U-shaped / symmetric target profile (equal rates in non-adjacent modalities)
                c = gen_case(rng, kind="sym")
            elif k % 5 == 3:
                # continuous target with non-dyadic values and exactly tied group means: sums depend on
                # the order of summation (the model is not consulted for these cases)
                c = float_tie_case(rng)
            c["variants"] = variants(c, rng)
            cases.append(c)
        want, got_ = (4, 0) if tier == "quick" else (30, 0)
        for _ in range(12 * want):
            if got_ >= want:
                break
            # categorical feature holding float CODES with 7+ significant digits (sharing their first six);
            # recoding them order-preservingly to 1..k must not change the partition
            c = gen_case(rng, kind=rng.choice(["plain", "dev"]))
            if c["ftype"] != "categ":
                continue
            names = sorted({x for x in decs(c["X"]) + (decs(c["Xdev"]) if c["Xdev"] else []) if isinstance(x, str)})
            base_ = rng.choice([1234560.0, 98765430.0])
            code = {nm_: base_ + i + 1 for i, nm_ in enumerate(names)}
            c["X"] = encs([code.get(x, x) if isinstance(x, str) else x for x in decs(c["X"])])
            if c["Xdev"] is not None:
                c["Xdev"] = encs([code.get(x, x) if isinstance(x, str) else x for x in decs(c["Xdev"])])
            c["no_model"] = True
            c["variants"] = [{"name": "recode_small", "recode": True, "perm": None, "index": None},
                             {"name": "row_permutation", "perm": list(range(len(c["X"])))[::-1], "index": None}]
            cases.append(c)
            got_ += 1
        for _ in range(2 if tier == "quick" else 6):
            c = big_case(rng)
            c["variants"] = [v for v in variants(c, rng) if not v.get("affine")][:3]
            cases.append(c)
        return cases

    def search_cases(self, rng, neighbours, rnd):
        return self.generate(rng, "quick")[:40]

    def run_impl(self, case):
        base = {"fit": "n/a"} if case.get("no_model") else run_fit(case)
        if "skip" in base:
            return base
        ident = {"name": "identity", "perm": None, "index": None}
        out = {"base": base, "orig": fit_variant(case, ident), "variants": []}
        for v in case["variants"]:
            r = fit_variant(case, v)
            r["name"] = v["name"]
            out["variants"].append(r)
        base.pop("train_idx", None)
        base.pop("train_labels", None)
        base.pop("dev_labels", None)
        return out

    def oracle(self, case, out):
        o = out["orig"]
        if o.get("fit") == "internal":
            return False, "fit raised a non-assertion error: " + o.get("error", "")
        for r in out["variants"]:
            if r.get("inexact"):
                continue
            if r.get("fit") != o.get("fit"):
                return False, f"{r['name']}: fit outcome {r.get('fit')} ({r.get('error', '')}) vs {o.get('fit')} on the original encoding"
            if o.get("fit") != "ok":
                continue
            if not r.get("index_kept", True):
                return False, f"{r['name']}: transform does not keep X's index"
            if r["kept"] != o["kept"]:
                return False, f"{r['name']}: feature kept={r['kept']} but kept={o['kept']} on the original encoding"
            if o["kept"] and partition(r["row_labels"]) != partition(o["row_labels"]):
                if case["ftype"] != "quant" and \
                        tie_canonical(case, r["row_labels"]) == tie_canonical(case, o["row_labels"]):
                    continue   # same grouping up to a swap of exactly tied (indistinguishable) modalities
                if r["name"].startswith("rename") and case["ftype"] == "categ" and base_rate_tie(out["base"]):
                    # a categorical feature is ordered by target rate; two base modalities (the default group
                    # '__OTHER__' included) with EXACTLY equal rates are ordered by their names, so a renaming
                    # may legitimately swap them: exact ties are accepted in any order
                    continue
                return False, (f"{r['name']}: the partition of rows induced by transform differs from the "
                               f"original encoding's ({len(partition(r['row_labels']))} vs "
                               f"{len(partition(o['row_labels']))} groups)")
        return True, ""

    def coq_shards(self, cases, outs):
        shards = []
        for part in chunks(list(zip(cases, outs)), 12):
            terms = []
            for c, o in part:
                b = o["base"]
                if isinstance(b.get("base"), dict) and b.get("fit") == "ok" and b["base"].get("dev") != "assert":
                    terms.append("verdict (" + coq_case(c, b) + ")")
                else:
                    terms.append("0%nat")
            shards.append("From Coq Require Import ZArith List.\nImport ListNotations.\n"
                          "From AC.Model Require Import Float Combos Measures Carve CheckC01.\n"
                          "Open Scope Z_scope.\nEval vm_compute in [" + ";\n ".join(terms) + "].\n")
        return shards

    def signature(self, case, out):
        o = out["orig"]
        if o.get("fit") != "ok" or not o.get("kept"):
            return None
        ng = len(partition(o["row_labels"]))
        if ng < 2:
            return None
        return f"{case['carver']}|{case['ftype']}|{[v['name'].split(' ')[0] for v in case['variants']]}|{ng}"

    def distribution(self, cases, outs):
        d = {"variants_run": 0, "inexact_affine_skipped": 0, "by_variant": {}}
        for c, o in zip(cases, outs):
            if not isinstance(o, dict) or "variants" not in o:
                continue
            for r in o["variants"]:
                nm = r["name"].split(" ")[0].split("#")[0]
                d["by_variant"][nm] = d["by_variant"].get(nm, 0) + 1
                d["variants_run"] += 1
                d["inexact_affine_skipped"] += bool(r.get("inexact"))
        return d

    def shrink(self, case, out, msg):
        small = {"orig": {k: v for k, v in out["orig"].items() if k != "row_labels"},
                 "variants": [{k: v for k, v in r.items() if k != "row_labels"} for r in out["variants"]]}
        return case, small, msg


PROP = C11()
