"""C13 — GroupedList stays a consistent ordered partition under any history."""
import itertools
import math

import common as C
from props.base import NAN, Prop, chunks, dec, decs, enc, encs

U_SMALL = ["a", "b", 0, 2.5, NAN]
U_BIG = ["a", "b", "c", "", "__NAN__", "__OTHER__", 0, 1, 2.5, -3, NAN, math.inf]


def eq(a, b):
    return a is b or (a == b and type(a) in (str,) and type(b) in (str,)) or (
        not isinstance(a, str) and not isinstance(b, str) and a == b)


def isin(x, xs):
    return any(eq(x, y) for y in xs)


class PyRef:
    """plain reference model: ordered list of [leader, members] (mirror of s_step in
    coq/Proofs/GroupedListSpec.v); used to generate valid operations and as python-side oracle"""

    def __init__(self, groups):
        self.g = [[k, list(v)] for k, v in groups]

    def leaders(self):
        return [k for k, _ in self.g]

    def values(self):
        return [v for _, vs in self.g for v in vs]

    def members(self, k):
        for kk, vs in self.g:
            if eq(kk, k):
                return vs
        return []

    def valid(self, op):
        n, L = op[0], self.leaders()
        if n == "group":
            return eq(op[1], op[2]) or (isin(op[1], L) and isin(op[2], L))
        if n == "group_list":
            ds = [d for d in op[1] if not eq(d, op[2])]
            return isin(op[2], L) and all(isin(d, L) for d in op[1]) and all(
                not isin(d, ds[:i]) for i, d in enumerate(ds))
        if n == "append":
            return not isin(op[1], self.values())
        if n == "update":
            d = op[1]
            ks = [k for k, _ in d]
            if any(isin(k, ks[:i]) for i, k in enumerate(ks)):
                return False
            if any(not isin(k, vs) for k, vs in d):
                return False
            new = [[k, (dict_get(d, k) if dict_get(d, k) is not None else vs)] for k, vs in self.g]
            new += [[k, vs] for k, vs in d if not isin(k, L)]
            allv = [v for _, vs in new for v in vs]
            return all(not isin(v, allv[:i]) for i, v in enumerate(allv))
        if n == "remove":
            return isin(op[1], L)
        if n == "pop":
            return -len(L) <= op[1] < len(L)
        if n == "sort":
            return not any(x is NAN for x in L)  # documented restriction: numpy.sort re-creates NaN
        if n == "sort_by":
            return (all(isin(o, L) for o in op[1]) and all(isin(k, op[1]) for k in L)
                    and not any(x is NAN for x in L))
        if n == "replace":
            return isin(op[1], L) and isin(op[2], self.members(op[1]))
        if n == "copy":
            return True
        raise ValueError(op)

    def step(self, op):
        n = op[0]
        if n == "group":
            self._group(op[1], op[2])
        elif n == "group_list":
            for d in op[1]:
                self._group(d, op[2])
        elif n == "append":
            self.g.append([op[1], [op[1]]])
        elif n == "update":
            d, L = op[1], self.leaders()
            self.g = [[k, (list(dict_get(d, k)) if dict_get(d, k) is not None else vs)] for k, vs in self.g]
            self.g += [[k, list(vs)] for k, vs in d if not isin(k, L)]
        elif n == "remove":
            self.g = [kv for kv in self.g if not eq(kv[0], op[1])]
        elif n == "pop":
            k = self.leaders()[op[1]]
            self.g = [kv for kv in self.g if not eq(kv[0], k)]
        elif n == "sort":
            L = self.leaders()
            ks = sorted([k for k in L if isinstance(k, str)]) + sorted(
                [k for k in L if not isinstance(k, str)])
            self.g = [[k, self.members(k)] for k in ks]
        elif n == "sort_by":
            ks = []
            for k in op[1]:
                if not isin(k, ks):
                    ks.append(k)
            self.g = [[k, self.members(k)] for k in ks]
        elif n == "replace":
            for kv in self.g:
                if eq(kv[0], op[1]):
                    kv[0] = op[2]
                    break

    def _group(self, d, k):
        if eq(d, k):
            return
        md = self.members(d)
        self.g = [kv for kv in self.g if not eq(kv[0], d)]
        for kv in self.g:
            if eq(kv[0], k):
                kv[1] = list(md) + kv[1]


def dict_get(d, k):
    for kk, vs in d:
        if eq(kk, k):
            return vs
    return None


def enc_op(op):
    n = op[0]
    if n in ("group", "replace"):
        return [n, enc(op[1]), enc(op[2])]
    if n == "group_list":
        return [n, encs(op[1]), enc(op[2])]
    if n in ("append", "remove"):
        return [n, enc(op[1])]
    if n == "update":
        return [n, [[enc(k), encs(vs)] for k, vs in op[1]]]
    if n == "pop":
        return [n, op[1]]
    if n == "sort_by":
        return [n, encs(op[1])]
    return [n]


def dec_op(t):
    n = t[0]
    if n in ("group", "replace"):
        return [n, dec(t[1]), dec(t[2])]
    if n == "group_list":
        return [n, decs(t[1]), dec(t[2])]
    if n in ("append", "remove"):
        return [n, dec(t[1])]
    if n == "update":
        return [n, [[dec(k), decs(vs)] for k, vs in t[1]]]
    if n == "pop":
        return [n, t[1]]
    if n == "sort_by":
        return [n, decs(t[1])]
    return [n]


def apply_impl(g, op):
    n = op[0]
    if n == "group":
        g.group(op[1], op[2])
    elif n == "group_list":
        g.group_list(op[1], op[2])
    elif n == "append":
        g.append(op[1])
    elif n == "update":
        g.update({k: list(vs) for k, vs in op[1]})
    elif n == "remove":
        g.remove(op[1])
    elif n == "pop":
        g.pop(op[1])
    elif n == "sort":
        g = g.sort()
    elif n == "sort_by":
        g = g.sort_by(op[1])
    elif n == "replace":
        g.replace_group_leader(op[1], op[2])
    elif n == "copy":
        from AutoCarver.discretizers import GroupedList
        g = GroupedList(g)
    return g


def observe(g, univ):
    return {
        "keys": encs(list(g)),
        "content": [[enc(k), encs(v)] for k, v in g.content.items()],
        "values": encs(g.values()),
        "look": [[encs(g.get(u)), enc(g.get_group(u)), bool(g.contains(u))] for u in univ],
    }


class C13(Prop):
    pid = "C13"
    theorems = ["C13_wf_constructors", "C13_wf_every_history", "C13_refines_reference_model",
                "C13_lookups_agree_with_content", "C13_no_value_disappears", "C13_checker_sound"]
    rule = ("operation histories on GroupedList: each history starts from a list or dict "
            "constructor and applies group/group_list/append/update/remove/pop/sort/sort_by/"
            "replace_group_leader/copy with arguments from a universe of str/int/float/NaN/inf "
            "values; 90% of operations are chosen valid w.r.t. a plain reference model, the rest "
            "arbitrary (malformed stream, error class compared); a case is non-trivial when it "
            "has at least one successful mutating operation; distinct = distinct (operation-name "
            "sequence, error position/class, final number of groups) signature")
    assumptions = ["1 and 1.0 are never both put in one structure; NaN is the numpy.nan object",
                   "sort()/sort_by() are valid only while the NaN OBJECT is not a leader (Python's "
                   "`key != iter_key` is True for NaN, so the dict constructor drops that group: "
                   "precondition of theorem wf_step, see DESIGN); AutoCarver itself stores the str_nan "
                   "sentinel, never the NaN object; histories violating this are still compared with "
                   "the model (malformed stream); sort() with a NaN-object leader is skipped "
                   "(numpy.sort re-creates the object)"]
    trusted_extra = []

    # ---- generation -------------------------------------------------------------------------
    def corpus(self):
        cs = []
        # O9: falsy leaders; O10: replace_group_leader(x, x)
        cs.append(self.mk({"kind": "list", "v": encs([0, "a", ""])},
                          [["group", "a", 0], ["group", "", 0], ["replace", 0, 0], ["replace", 0, "a"]],
                          [0, "a", "", 2.5]))
        cs.append(self.mk({"kind": "dict", "v": [[enc(""), encs(["x"])], [enc(0), encs([1])]]},
                          [["sort"], ["append", "b"], ["replace", "", ""]], ["", "x", 0, 1, "b"]))
        cs.append(self.mk({"kind": "dict", "alias": True, "v": [[enc("a"), []], [enc("b"), []], [enc(0), []]]},
                          [["group", "a", "b"], ["append", "c"]], ["a", "b", 0, "c"]))
        return cs

    def mk(self, init, ops, univ):
        if init["kind"] == "dict":
            valid = self.dict_init_valid(init)
        else:
            vals = decs(init["v"])
            valid = not any(isin(v, vals[:i]) for i, v in enumerate(vals))
        r = PyRef(self.ref_init(init)) if valid else None
        for op in ops:
            if not valid:
                break
            if r.valid(op):
                r.step(op)
            else:
                valid = False
        return {"init": init, "ops": [enc_op(o) for o in ops], "univ": encs(univ), "valid": bool(valid)}

    @staticmethod
    def dict_init_valid(init):
        d = [[dec(k), decs(vs)] for k, vs in init["v"]]
        allv = [v for _, vs in d for v in vs]
        if any(isin(v, allv[:i]) for i, v in enumerate(allv)):
            return False
        if any(k is NAN for k, _ in d):
            return False  # a NaN key is dropped by the dict constructor (`key != iter_key`)
        # a key nested in another group must have no content of its own (it is dropped)
        for k, vs in d:
            others = [v for kk, vv in d if not eq(kk, k) for v in vv]
            if isin(k, others) and len(vs) > 0:
                return False
            if k is NAN:
                return False
        return True

    @staticmethod
    def ref_init(init):
        if init["kind"] == "list":
            out = []
            for v in decs(init["v"]):
                if not isin(v, [k for k, _ in out]):
                    out.append([v, [v]])
            return out
        d = [[dec(k), decs(vs)] for k, vs in init["v"]]
        out = []
        for k, vs in d:
            others = [v for kk, vv in d if not eq(kk, k) for v in vv]
            if isin(k, others):
                continue
            out.append([k, list(vs) + ([] if isin(k, vs) else [k])])
        return out

    def rand_init(self, rng, U):
        if rng.random() < 0.6:
            n = rng.randint(0, min(6, len(U)))
            vals = rng.sample(U, n)
            if rng.random() < 0.05 and vals:
                vals.append(vals[0])  # duplicated element: not a valid start
                return {"kind": "list", "v": encs(vals)}, False
            return {"kind": "list", "v": encs(vals)}, True
        if rng.random() < 0.08:
            ks = [u for u in rng.sample(U, min(len(U), rng.randint(2, 4))) if u is not NAN]
            init = {"kind": "dict", "alias": True, "v": [[enc(k), []] for k in ks]}
            return init, self.dict_init_valid(init)
        pool = rng.sample(U, min(len(U), rng.randint(1, 8)))
        nk = rng.randint(1, max(1, min(4, len(pool))))
        keys, rest = pool[:nk], pool[nk:]
        d = [[k, []] for k in keys]
        for v in rest:
            rng.choice(d)[1].append(v)
        for kv in d:
            if rng.random() < 0.6:
                kv[1].append(kv[0])
        r = rng.random()
        if r < 0.15 and len(d) > 1:
            d[0][1].append(d[1][0]) if not isin(d[1][0], d[1][1]) else None  # nested key
        elif r < 0.2 and rest:
            d[0][1].append(rest[0])  # duplicated value -> AssertionError expected
        elif r < 0.45:
            # an emptied (already grouped) key listed BEFORE / AFTER the group that holds it
            spare = [u for u in U if not isin(u, pool) and u is not NAN]
            if spare and d:
                e = rng.choice(spare)
                owner = rng.choice(d)
                owner[1].append(e)
                d.insert(rng.choice([0, 0, len(d)]), [e, []])
        init = {"kind": "dict", "v": [[enc(k), encs(vs)] for k, vs in d]}
        return init, self.dict_init_valid(init)

    def rand_op(self, rng, ref, U, want_valid):
        L = ref.leaders()
        unused = [u for u in U if not isin(u, ref.values())]
        for _ in range(20):
            kind = rng.choice(["group", "group", "group_list", "append", "update", "remove", "pop",
                               "sort", "sort_by", "replace", "replace", "copy"])
            if not want_valid:
                a, b = rng.choice(U), rng.choice(U)
                op = {"group": ["group", a, b], "group_list": ["group_list", rng.sample(U, rng.randint(0, 3)), a],
                      "append": ["append", a], "update": ["update", [[a, [b] if rng.random() < .5 else [a, b]]]],
                      "remove": ["remove", a], "pop": ["pop", rng.randint(-7, 7)], "sort": ["sort"],
                      "sort_by": ["sort_by", rng.sample(U, rng.randint(0, 4))],
                      "replace": ["replace", a, b], "copy": ["copy"]}[kind]
                return op
            op = None
            if kind == "group" and L:
                op = ["group", rng.choice(L), rng.choice(L)]
            elif kind == "group_list" and L:
                k = rng.choice(L)
                op = ["group_list", rng.sample(L, rng.randint(0, min(3, len(L)))), k]
            elif kind == "append" and unused:
                op = ["append", rng.choice(unused)]
            elif kind == "update":
                d, pool = [], list(unused)
                rng.shuffle(pool)
                for _ in range(rng.randint(1, 2)):
                    if L and rng.random() < 0.5:
                        k = rng.choice(L)
                        if isin(k, [kk for kk, _ in d]):
                            continue
                        extra = [pool.pop()] if pool and rng.random() < .7 else []
                        d.append([k, list(ref.members(k)) + extra])
                    elif pool:
                        k = pool.pop()
                        extra = [pool.pop()] if pool and rng.random() < .5 else []
                        d.append([k, extra + [k]])
                if L and rng.random() < 0.35:
                    # un-grouping update: a member becomes a leader of its own, its old group loses it
                    cands = [(k, m) for k in L for m in ref.members(k) if not eq(m, k)]
                    if cands:
                        k, m = rng.choice(cands)
                        d = [[k, [x for x in ref.members(k) if not eq(x, m)]], [m, [m]]]
                if d:
                    op = ["update", d]
            elif kind == "remove" and L:
                op = ["remove", rng.choice(L)]
            elif kind == "pop" and L:
                op = ["pop", rng.randint(-len(L), len(L) - 1)]
            elif kind == "sort":
                op = ["sort"]
            elif kind == "sort_by":
                o = list(L)
                rng.shuffle(o)
                if o and rng.random() < .2:
                    o.append(o[0])
                op = ["sort_by", o]
            elif kind == "replace" and L:
                l = rng.choice(L)
                op = ["replace", l, rng.choice(ref.members(l))]
            elif kind == "copy":
                op = ["copy"]
            if op is not None and ref.valid(op):
                return op
        return ["copy"]

    def rand_case(self, rng, U, maxlen):
        init, valid = self.rand_init(rng, U)
        ops = []
        ref = PyRef(self.ref_init(init))
        n = rng.randint(1, maxlen)
        for _ in range(n):
            want_valid = valid and rng.random() < 0.93
            op = self.rand_op(rng, ref, U, want_valid)
            ops.append(op)
            if valid and ref.valid(op):
                ref.step(op)
            else:
                valid = False
                if rng.random() < 0.7:
                    break
        return self.mk(init, ops, U)

    def exhaustive_depth2(self):
        """every pair of operations with arguments from the 5-value universe, from 3 inits"""
        U = U_SMALL
        single = [["copy"], ["sort"]]
        single += [["group", a, b] for a in U for b in U]
        single += [["append", a] for a in U] + [["remove", a] for a in U]
        single += [["pop", i] for i in (-1, 0, 1)]
        single += [["replace", a, b] for a in U for b in U]
        single += [["group_list", [a, b], b] for a in U for b in U if a is not b]
        single += [["sort_by", list(p)] for p in itertools.permutations(["a", "b", 0])]
        inits = [{"kind": "list", "v": encs(["a", "b", 0])},
                 {"kind": "list", "v": encs([0, 2.5, "b"])},
                 {"kind": "list", "v": encs([0, "a", NAN])},
                 {"kind": "dict", "v": [[enc("a"), encs(["b"])], [enc(0), encs([2.5, 0])]]}]
        cases = []
        for init in inits:
            for o1 in single:
                for o2 in single:
                    cases.append(self.mk(init, [o1, o2], U))
        return cases

    def generate(self, rng, tier):
        cases = []
        if tier == "thorough":
            cases += self.exhaustive_depth2()
            for _ in range(6000):
                cases.append(self.rand_case(rng, U_SMALL, 3))
            for _ in range(14000):
                cases.append(self.rand_case(rng, U_BIG, 40))
        else:
            ex = self.exhaustive_depth2()
            cases += rng.sample(ex, len(ex) // 20)
            for _ in range(600):
                cases.append(self.rand_case(rng, U_SMALL, 3))
            for _ in range(900):
                cases.append(self.rand_case(rng, U_BIG, 25))
        return cases

    # ---- implementation -------------------------------------------------------------------
    def run_impl(self, case):
        from AutoCarver.discretizers import GroupedList
        univ = decs(case["univ"])
        init = case["init"]
        out = {"obs0": None, "obs": []}
        try:
            if init["kind"] == "list":
                g = GroupedList(decs(init["v"]))
            elif init.get("alias"):
                # dict.fromkeys(keys, []) pattern: every empty member list is ONE shared object
                shared = []
                g = GroupedList({dec(k): (shared if not vs else decs(vs)) for k, vs in init["v"]})
            else:
                g = GroupedList({dec(k): decs(vs) for k, vs in init["v"]})
            out["obs0"] = observe(g, univ)
        except Exception as e:  # noqa: BLE001
            out["obs0"] = C.exc_class(e)
            return out
        for t in case["ops"]:
            op = dec_op(t)
            if op[0] == "sort" and any(C.is_nan(k) for k in g):
                return {"skip": "sort() while the NaN object is a leader (numpy.sort re-creates it)"}
            try:
                g = apply_impl(g, op)
                out["obs"].append(observe(g, univ))
            except Exception as e:  # noqa: BLE001
                out["obs"].append(C.exc_class(e))
                break
        return out

    # ---- python-side property predicate (used for search and replay) ------------------------
    def oracle(self, case, out):
        if not case["valid"]:
            return True, ""
        univ = decs(case["univ"])
        ref = PyRef(self.ref_init(case["init"]))
        steps = [(None, out["obs0"])] + list(zip([dec_op(t) for t in case["ops"]], out["obs"]))
        if len(out["obs"]) != len(case["ops"]) and not isinstance(out["obs0"], str):
            if not (out["obs"] and isinstance(out["obs"][-1], str)):
                return False, "history not completed"
        for i, (op, ob) in enumerate(steps):
            if op is not None:
                ref.step(op)
            if isinstance(ob, str):
                return False, f"valid operation #{i} {op} raised ({ob})"
            keys = decs(ob["keys"])
            content = [[dec(k), decs(vs)] for k, vs in ob["content"]]
            ck = [k for k, _ in content]
            allv = [v for _, vs in content for v in vs]
            if any(isin(k, keys[:j]) for j, k in enumerate(keys)):
                return False, f"after op #{i} {op}: duplicated list element"
            if not (all(isin(k, ck) for k in keys) and all(isin(k, keys) for k in ck)):
                return False, f"after op #{i} {op}: list elements are not exactly the keys of content"
            if any(isin(v, allv[:j]) for j, v in enumerate(allv)):
                return False, f"after op #{i} {op}: groups are not disjoint"
            if any(not isin(k, vs) for k, vs in content):
                return False, f"after op #{i} {op}: a leader is not in its own group"
            for u, (g_, gg, cc) in zip(univ, ob["look"]):
                exp_get = dict_get(content, u) or []
                holders = [k for k, vs in content if isin(u, vs)]
                if len(decs(g_)) != len(exp_get) or not all(eq(a, b) for a, b in zip(decs(g_), exp_get)):
                    return False, f"after op #{i} {op}: get({u!r}) disagrees with content"
                if not eq(dec(gg), holders[0] if holders else u):
                    return False, f"after op #{i} {op}: get_group({u!r})={dec(gg)!r} disagrees with content"
                if bool(cc) != bool(holders):
                    return False, f"after op #{i} {op}: contains({u!r}) disagrees with content"
            # effect equals the plain reference model (ordered leader -> members)
            got = [[k, dict_get(content, k)] for k in keys]
            exp = ref.g
            same = len(got) == len(exp) and all(
                eq(a[0], b[0]) and len(a[1]) == len(b[1]) and all(eq(x, y) for x, y in zip(a[1], b[1]))
                for a, b in zip(got, exp))
            if not same:
                return False, f"after op #{i} {op}: state differs from the reference model {exp!r}"
        return True, ""

    # ---- Coq side ---------------------------------------------------------------------------
    def coq_case(self, case, out):
        sc = C.Scale(1)

        def v(t):
            return C.cval(dec(t), sc)

        def vs(ts):
            return C.clist([v(t) for t in ts])

        def dct(d):
            return C.clist([C.cpair(v(k), vs(x)) for k, x in d])

        def cop(t):
            n = t[0]
            if n == "group":
                return f"OGroup {v(t[1])} {v(t[2])}"
            if n == "group_list":
                return f"OGroupList {vs(t[1])} {v(t[2])}"
            if n == "append":
                return f"OAppend {v(t[1])}"
            if n == "update":
                return f"OUpdate {dct(t[1])}"
            if n == "remove":
                return f"ORemove {v(t[1])}"
            if n == "pop":
                return f"OPop {C.cZ(t[1])}"
            if n == "sort":
                return "OSort"
            if n == "sort_by":
                return f"OSortBy {vs(t[1])}"
            if n == "replace":
                return f"OReplaceLeader {v(t[1])} {v(t[2])}"
            return "OCopy"

        def cobs(ob):
            if ob == "assert":
                return "SAssert"
            if ob == "internal":
                return "SInternal"
            looks = C.clist([f"mkLook {vs(g)} {v(gg)} {C.cbool(cc)}" for g, gg, cc in ob["look"]])
            return f"SOk (mkObs {vs(ob['keys'])} {dct(ob['content'])} {vs(ob['values'])} {looks})"

        init = case["init"]
        ci = f"IList {vs(init['v'])}" if init["kind"] == "list" else f"IDict {dct(init['v'])}"
        return (f"mkCase {C.cbool(case['valid'])} ({ci}) {C.clist([cop(t) for t in case['ops']])} "
                f"{vs(case['univ'])} ({cobs(out['obs0'])}) {C.clist([cobs(o) for o in out['obs']])}")

    def coq_shards(self, cases, outs):
        shards = []
        for part in chunks(list(zip(cases, outs)), 150):
            body = ";\n  ".join(self.coq_case(c, o) for c, o in part)
            shards.append(
                "From AC.Model Require Import Base GroupedList CheckC13.\nOpen Scope string_scope.\n"
                f"Definition cases : list c13case := [\n  {body}\n].\n"
                "Eval vm_compute in map verdict cases.\n")
        return shards

    # ---- evidence -------------------------------------------------------------------------
    def signature(self, case, out):
        names = [t[0] for t in case["ops"]]
        mut = any(n not in ("copy",) for n in names)
        if not mut:
            return None
        err = next((f"{i}:{o}" for i, o in enumerate(out["obs"]) if isinstance(o, str)), "-")
        last = [o for o in out["obs"] if not isinstance(o, str)]
        ng = len(last[-1]["keys"]) if last else -1
        return f"{case['init']['kind']}|{','.join(names)}|{err}|{ng}"

    def finding_signatures(self, case, out, msg):
        sigs = []
        if "get_group" in msg:
            sigs.append("get_group_falsy_leader")
        ops = [dec_op(t) for t in case["ops"]]
        if any(o[0] == "replace" and eq(o[1], o[2]) for o in ops):
            sigs.append("replace_group_leader_same")
        return sigs

    def shrink(self, case, out, msg):
        """drop operations while the oracle still fails"""
        best = (case, out, msg)
        ops = list(case["ops"])
        changed = True
        while changed and len(ops) > 1:
            changed = False
            for i in range(len(ops)):
                cand_ops = ops[:i] + ops[i + 1:]
                cand = self.mk(case["init"], [dec_op(t) for t in cand_ops], decs(case["univ"]))
                if not cand["valid"]:
                    continue
                o = self.run_impl(cand)
                ok, m = self.oracle(cand, o)
                if not ok:
                    ops, best, changed = cand_ops, (cand, o, m), True
                    break
        return best

    def distribution(self, cases, outs):
        n_valid = sum(1 for c in cases if c["valid"])
        lens = [len(c["ops"]) for c in cases]
        names = {}
        for c in cases:
            for t in c["ops"]:
                names[t[0]] = names.get(t[0], 0) + 1
        errs = {"assert": 0, "internal": 0}
        for o in outs:
            if isinstance(o, dict) and "obs" in o:
                for x in [o["obs0"]] + o["obs"]:
                    if isinstance(x, str):
                        errs[x] += 1
        return {"valid_histories": n_valid, "malformed_histories": len(cases) - n_valid,
                "ops_per_history_max": max(lens) if lens else 0,
                "ops_per_history_mean": round(sum(lens) / max(1, len(lens)), 2),
                "operations": names, "error_kinds_observed": errs}


PROP = C13()
