"""C18 — ChainedDiscretizer merges rare values only along the supplied hierarchy."""
import os
import re

import common as C
from props.base import NAN, Prop, chunks, dec, decs, enc, encs

STR_NAN = "__NAN__"
FEAT = "f"
# min_freq as p/q: a count of exactly p*k among n = q*k rows sits on the threshold
FREQS = [(1, 20), (1, 10), (3, 20), (1, 5), (1, 4), (1, 3), (7, 100), (1, 8), (3, 10), (1, 50)]


def isnan(x):
    return isinstance(x, float) and x != x


def strform(v):
    """string form of a raw cell, exactly as type_discretizers.fit_feature computes it (the per-case
    table handed to the model: CPython's str() is an oracle, not re-implemented in Coq)"""
    if isinstance(v, str) or isnan(v):
        return v
    if isinstance(v, float) and float.is_integer(v):
        return str(int(v))
    return str(v)


def sentinel(case):
    return case.get("str_nan") or STR_NAN


def scol(case):
    """training column as the hierarchy sees it: every non-string cell replaced by its string form"""
    return [strform(v) for v in decs(case["col"])]


INDEX_KINDS = [None, "offset", "perm", "str", "shuffle", "partial"]


def mk_index(n, kind):
    """row labels of a frame (deterministic in n and kind): default RangeIndex; integers offset
    beyond 0..n-1; a permutation of 0..n-1; strings; non-monotone distinct integers mostly outside
    0..n-1; labels n//2 .. n//2+n-1 (half of them overlap 0..n-1)"""
    import math
    if kind == "offset":
        return [i + 1000 for i in range(n)]
    if kind == "perm":
        return [(i * 7919 + 13) % n if math.gcd(7919, n) == 1 else (n - 1 - i) for i in range(n)]
    if kind == "str":
        return [f"r{i:05d}" for i in range(n)]
    if kind == "shuffle":
        return [((i * 7919 + 13) % 10007) * 3 + 1 for i in range(n)]     # distinct: 7919 invertible mod 10007, n <= 400
    if kind == "partial":
        return [i + n // 2 for i in range(n)]
    return None


# ---- plain-Python reading of a hierarchy (GroupedList(dict) semantics on well-formed dicts) ----
def level_parent(level):
    """member -> group leader of one level (the leader leads itself)"""
    par = {}
    for k, vs in level:
        for v in vs:
            par[v] = k
        par[k] = k
    return par


def level_values(level):
    out = []
    for k, vs in level:
        for v in list(vs) + ([] if k in vs else [k]):
            if v not in out:
                out.append(v)
    return out


def hier_values(levels):
    out = []
    for lv in levels:
        for v in level_values(lv):
            if v not in out:
                out.append(v)
    return out


def wellformed(levels):
    """documented shape: a forest given bottom-up.  Every group has at least one member other
    than its leader; inside a level no value occurs twice and no leader is a member of another
    group; members of a level > 0 are values of lower levels; a leader is new at its level (or led
    itself before); a value is a proper member (member of a group it does not lead) in at most one
    level and, once it is, it is not a leader of a higher level."""
    if not levels:
        return False
    proper_seen = set()
    below = set()
    for i, lv in enumerate(levels):
        keys = [k for k, _ in lv]
        if len(set(keys)) != len(keys):
            return False
        allv = [v for _, vs in lv for v in vs]
        if len(set(allv)) != len(allv):
            return False
        for k, vs in lv:
            proper = [v for v in vs if v != k]
            if not proper:
                return False
            if any(v in keys for v in proper):
                return False
            if STR_NAN in vs or k == STR_NAN:
                return False
            if i > 0 and any(v not in below for v in proper):
                return False
            if any(v in proper_seen for v in proper) or k in proper_seen:
                return False
        for k, vs in lv:
            proper_seen.update(v for v in vs if v != k)
        below.update(level_values(lv))
    return True


def reference(levels, col, mf, unknown, sn=STR_NAN):
    """value -> leader by the level-by-level rule, plain counting with Python floats"""
    rows = [sn if isnan(r) else r for r in col]
    n = len(rows)
    hv = hier_values(levels)
    leader = {v: v for v in hv}
    for u in unknown:
        leader[u] = sn
    leader[sn] = sn
    for lv in levels:
        par = level_parent(lv)
        cnt = {}
        for r in rows:
            cnt[r] = cnt.get(r, 0) + 1
        moved = {}
        for v in level_values(lv):
            keep = cnt.get(v, 0) > 0 and cnt[v] / n >= mf
            if not keep and par[v] != v:
                moved[v] = par[v]
        for x in list(leader):
            if leader[x] in moved and x in hv:
                leader[x] = moved[leader[x]]
        rows = [moved.get(r, r) for r in rows]
    return leader


def ancestors(levels, v):
    """values reachable from v by parent maps of increasing levels"""
    reach = {v}
    for lv in levels:
        par = level_parent(lv)
        reach |= {par[x] for x in reach if x in par}
    return reach


class C18(Prop):
    pid = "C18"
    theorems = ["C18_known_kept", "C18_refines_level_rule", "C18_leader_is_ancestor_or_self",
                "C18_rule_stays_iff_frequent", "C18_rule_bottom_value", "C18_rare_group_merged_further_up",
                "C18_unknown_raise", "C18_unknown_drop", "C18_transform_is_lookup",
                "C18_transform_is_leader", "C18_checker_ancestor_sound"]
    rule = ("random forests given bottom-up as 2-4 chained_orders dicts with uneven fan-out (1-5), "
            "group leaders listed or not in their own group, never-observed leaves, observed group "
            "labels, roots left ungrouped; training column of 30-400 rows with counts placed exactly "
            "on min_freq*n, one below, and pairs of siblings whose SUM is on/below the threshold; "
            "NaN rows present/absent; 0, 1 or several distinct unknown values; both unknown_handling "
            "policies; min_freq from a list of p/q; ~8% malformed hierarchies (error class compared); "
            "fit and transform frames carry a non-default row index in ~75% of cases (offset integers, "
            "permutation of 0..n-1, strings, non-monotone distinct integers, labels overlapping 0..n-1 by half); "
            "custom str_nan keyword (~57%), values_orders given at construction (~30%, a quarter of them naming a "
            "value unknown to the hierarchy), hierarchies holding a value named '__OTHER__' (~30%) and a str_default "
            "keyword equal to a hierarchy value (~30%) with a never-seen value refused at transform; "
            "a third of the volume again with NUMERIC columns whose string forms are the leaves (int64, "
            "float64 with integer-valued floats like 2.0 and others like 3.5, NaN, object columns mixing a "
            "number and its string form), unknown numbers under both policies, transform of the raw numeric "
            "training frame, of the hierarchy values given as numbers and of a never-seen value; "
            "distinct = (cell kind, levels, policy, unknown class, NaN, outcome, merge profile per level)")
    assumptions = ["one feature, values_orders=None, str_nan='__NAN__', string hierarchy values (orders are "
                   "documented as strings: hierarchies written with raw numbers are out of scope), at least one row",
                   "numeric cells reach the model through the per-case table of their string forms (str(int(v)) "
                   "for integer-valued floats, str(v) otherwise, computed by CPython in the harness); content is "
                   "compared on its string members; transforms of raw numeric frames are checked by the Python "
                   "reference only",
                   "hierarchy theorems assume each level is a Python dict (unique keys) of strings "
                   "other than '__NAN__'; C18_rule_* additionally name the level at which the value "
                   "is a proper member",
                   "frequency test is fl(count/n) >= min_freq in binary64, n = all rows (NaN included)"]
    trusted_extra = ["pandas value_counts/select/replace/fillna are modelled as list functions"]

    # ---- generation -------------------------------------------------------------------------
    def corpus(self):
        cs = []
        L0 = [["Lows", ["Low-", "Low", "Lows"]], ["Highs", ["High-", "High", "Highs"]]]
        L1 = [["All", ["Lows", "Highs", "All"]]]
        col = ["Low"] * 10 + ["Low-"] * 2 + ["High"] * 3 + ["High-"] * 1 + [NAN] * 2
        cs.append(self.mk([L0, L1], col, 0.2, False))
        cs.append(self.mk([L0, L1], col + ["u1"], 0.2, True))
        cs.append(self.mk([L0, L1], col + ["u1"], 0.2, False))
        cs.append(self.mk([L0, L1], ["u1", "u2"] + col + ["u3"], 0.2, True))
        # frequent intermediate group made of rare children, rows labelled otherwise than 0..n-1
        M0 = [["Lows", ["Low-", "Low", "Low+", "Lows"]], ["Mediums", ["Medium-", "Medium", "Medium+", "Mediums"]],
              ["Highs", ["High-", "High", "High+", "Highs"]]]
        M1 = [["Worst", ["Lows", "Mediums", "Worst"]], ["Best", ["Highs", "Best"]]]
        mcol = (["Low"] * 5 + ["High"] * 4 + ["Medium"] * 3 + ["Medium-"] * 2 + ["Medium+"] * 2
                + ["Low-", "High+", NAN, NAN])
        for kind in ("offset", "partial", "str", "shuffle", "perm"):
            cs.append(self.mk([M0, M1], mcol, 0.15, False, {"index_probe": True}, kind))
        # custom missing-value sentinel x kind of column x missing cells x policy; values_orders given
        N0 = [["small", ["1", "2", "small"]], ["big", ["3", "4", "big"]]]
        N1 = [["all", ["small", "big", "all"]]]
        nums = [1] * 6 + [2] + [3] * 5 + [4]
        for drop in (False, True):
            for flavour, cells in ((None, [str(x) for x in nums]), ("int", nums),
                                   ("float", [float(x) for x in nums]), ("mixed", nums[:-1] + ["4", "1"])):
                for tail in ([NAN, NAN], []):
                    cs.append(self.mk([N0, N1], cells + tail, 0.2, drop, {"sentinel_probe": True}, None,
                                      flavour, "MISSING"))
            cs.append(self.mk([N0, N1], [str(x) for x in nums] + [NAN, "zz"], 0.2, drop, {"sentinel_probe": True},
                              "offset", None, "MISSING", ["3", "big", "1"]))
            cs.append(self.mk([N0, N1], nums + [NAN], 0.2, drop, {"order_probe": True}, None, "int", None,
                              ["all", "4", "small", "2"]))
            cs.append(self.mk([N0, N1], [str(x) for x in nums], 0.2, drop, {"order_probe": True}, None, None, None,
                              ["3", "nope", "1"]))
        # the hierarchy lists the library's default bucket name "__OTHER__" as a leaf / a str_default
        # keyword names a hierarchy value: no default bucket here, a never-seen value stays refused
        O0 = [["small", ["1", "2", "__OTHER__", "small"]], ["big", ["3", "4", "big"]]]
        for drop in (False, True):
            cs.append(self.mk([O0, N1], [str(x) for x in nums] + ["__OTHER__"] * 3, 0.2, drop,
                              {"default_probe": True}))
            cs.append(self.mk([O0, N1], nums + ["__OTHER__"] * 3 + [NAN], 0.2, drop, {"default_probe": True},
                              None, "mixed"))
            cs.append(self.mk([N0, N1], [str(x) for x in nums], 0.2, drop, {"default_probe": True}, None, None,
                              None, None, "small"))
            cs.append(self.mk([N0, N1], nums, 0.2, drop, {"default_probe": True}, None, "int", "MISSING",
                              None, "3"))
        # minimised inputs of earlier findings (always run first)
        import glob
        import json
        import os
        for fn in sorted(glob.glob(os.path.join(C.VERIF, "corpus", "findings", "C18-*.json"))
                         + glob.glob(os.path.join(C.VERIF, "corpus", "findings", "*_c18_*.json"))):
            cs.append(json.load(open(fn))["case"])
        return cs

    def mk(self, levels, col, mf, drop, meta=None, index=None, numeric=None, str_nan=None, vo=None,
           str_default=None):
        case = {"levels": [[[k, list(vs)] for k, vs in lv] for lv in levels], "col": encs(col),
                "mf": float(mf), "drop": bool(drop), "kin": hier_values(levels),
                "wellformed": wellformed(levels), "meta": meta or {}, "index": index}
        if str_nan:
            case["str_nan"] = str_nan           # ChainedDiscretizer(..., str_nan=...) keyword
        if vo is not None:
            case["vo"] = list(vo)               # ChainedDiscretizer(..., values_orders={feature: vo})
        if str_default:
            case["str_default"] = str_default   # str_default keyword (ChainedDiscretizer has no default bucket)
        if numeric:
            # numeric: raw cells are numbers (or a mix); strtab = the str() table of this case
            case["numeric"] = numeric
            tab = []
            for v in col:
                if not isinstance(v, str) and not isnan(v) and all(t[0] != enc(v) for t in tab):
                    tab.append([enc(v), strform(v)])
            case["strtab"] = tab
        return case

    def numericize(self, rng, case):
        """same hierarchy and counts with number-named leaves: the column holds ints, floats
        (integer-valued like 2.0 and others like 3.5) or a mix of numbers and strings; unknown
        values become unknown numbers"""
        flavour = rng.choice(["int", "float", "mixed"])
        names = {}

        def form(name):
            if name in names:
                return names[name]
            m = re.fullmatch(r"v(\d+)", name)
            u = re.fullmatch(r"u(\d+)", name)
            if m:
                i = int(m.group(1))
                if flavour == "float" and i % 3 == 0:
                    names[name] = (f"{i}.5", i + 0.5)
                elif flavour == "float":
                    names[name] = (str(i + 1), float(i + 1))
                else:
                    names[name] = (str(i + 1), i + 1)
            elif u:
                i = int(u.group(1))
                if flavour == "float":
                    names[name] = (f"{900 + i}.25", 900.25 + i) if i % 2 else (str(900 + i), float(900 + i))
                else:
                    names[name] = (str(900 + i), 900 + i)
            else:
                names[name] = (name, name)
            return names[name]

        levels = [[[form(k)[0], [form(v)[0] for v in vs]] for k, vs in lv] for lv in case["levels"]]
        raw = decs(case["col"])
        cnt = {}
        for r in raw:
            if not isnan(r):
                cnt[r] = cnt.get(r, 0) + 1
        top = max(cnt.values()) if cnt else 0
        col = []
        for r in raw:
            if isnan(r):
                col.append(r)
                continue
            sform, cell = form(r)
            # mixed: a value may appear both as a number and as its string form, except the most
            # frequent ones (the removal of a feature is decided on raw cells before conversion)
            if flavour == "mixed" and cnt[r] < top and rng.random() < 0.4:
                cell = sform
            col.append(cell)
        meta = dict(case["meta"], numeric=flavour)
        vo = case.get("vo")
        if vo is not None:
            vo = [form(v)[0] for v in vo]
        sd = case.get("str_default")
        return self.mk(levels, col, case["mf"], case["drop"], meta, case.get("index"), flavour,
                       case.get("str_nan"), vo, form(sd)[0] if sd else None)

    def rand_forest(self, rng):
        nlev = rng.choice([2, 2, 3, 3, 4])
        nleaf = rng.randint(3, 14)
        nodes = [f"v{i}" for i in range(nleaf)]
        leaves = list(nodes)
        levels = []
        for li in range(nlev):
            pool = list(nodes)
            rng.shuffle(pool)
            if li > 0 and rng.random() < 0.4 and len(pool) > 1:
                pool = pool[:-1]          # a root left ungrouped at this level
            lv, gi = [], 0
            while pool:
                k = min(len(pool), rng.choice([1, 1, 2, 2, 3, 4, 5]))
                members, pool = pool[:k], pool[k:]
                name = f"G{li}_{gi}"
                gi += 1
                vs = list(members) + ([name] if rng.random() < 0.6 else [])
                if rng.random() < 0.2:
                    rng.shuffle(vs)
                lv.append([name, vs])
                if li == 0 and len(lv) >= 6:
                    # remaining leaves stay out of the hierarchy's bottom level: put them in the last group
                    lv[-1][1] = list(pool) + lv[-1][1]
                    pool = []
            levels.append(lv)
            nodes = [k for k, _ in lv]
            if len(nodes) == 1 and li + 1 >= 2:
                break
        return levels, leaves

    def malform(self, rng, levels):
        r = rng.random()
        lv = rng.randrange(1, len(levels)) if len(levels) > 1 else 0
        if r < 0.3:
            levels[lv][0][1].insert(0, "zz_missing")           # member unknown to the level below
        elif r < 0.5:
            levels[lv].append([f"E{lv}", [f"E{lv}"]])           # group without any known member
        elif r < 0.75:
            levels[lv][0][1].insert(0, levels[0][0][1][0])      # a leaf listed again higher up
        else:
            levels[0][0][1].append(levels[0][-1][1][0])         # a value in two groups of one level
        return levels

    def rand_case(self, rng, boundary=True):
        levels, leaves = self.rand_forest(rng)
        bad = rng.random() < 0.08
        if bad:
            levels = self.malform(rng, levels)
        p, q = rng.choice(FREQS)
        k = rng.randint(max(1, -(-30 // q)), max(1, 400 // q))
        n = q * k
        b = p * k
        mf = p / q
        if rng.random() < 0.15:
            n = rng.randint(30, 400)           # threshold not an integer number of rows
            b = max(1, int(mf * n))
        budget = n
        counts = {}
        groups0 = [list(vs) for _, vs in levels[0]]
        rng.shuffle(groups0)
        for vs in groups0:
            vs = [v for v in vs]
            r = rng.random()
            pat = []
            if boundary and r < 0.25 and len(vs) >= 2 and b >= 2:
                c = rng.randint(1, b - 1)
                tot = b if rng.random() < 0.5 else b - 1      # siblings summing on / below the threshold
                pat = [c, max(0, tot - c)]
            elif boundary and r < 0.45:
                pat = [rng.choice([b, b - 1, b + 1])]
            for i, v in enumerate(vs):
                if i < len(pat):
                    c = pat[i]
                else:
                    z = rng.random()
                    c = 0 if z < 0.25 else rng.randint(1, max(1, b - 1)) if z < 0.7 else rng.randint(b, 3 * b + 1)
                c = max(0, min(c, budget))
                counts[v] = counts.get(v, 0) + c
                budget -= c
        # observed group labels
        for lv in levels:
            for name, _ in lv:
                if rng.random() < 0.08 and budget > 0:
                    c = min(budget, rng.choice([1, b - 1, b, rng.randint(1, 2 * b + 1)]))
                    c = max(0, c)
                    counts[name] = counts.get(name, 0) + c
                    budget -= c
        nunk = rng.choice([0, 0, 0, 1, 1, 2, 3])
        unknown = []
        for i in range(nunk):
            if budget <= 0:
                break
            c = min(budget, rng.randint(1, max(1, b)))
            unknown.append(f"u{i}")
            counts[f"u{i}"] = c
            budget -= c
        nan = 0
        if rng.random() < 0.5 and budget > 0:
            nan = rng.randint(1, budget) if rng.random() < 0.5 else min(budget, rng.randint(1, 5))
            budget -= nan
        if budget > 0:
            tgt = rng.choice(leaves)
            counts[tgt] = counts.get(tgt, 0) + budget
        col = [v for v, c in counts.items() for _ in range(c)] + [NAN] * nan
        rng.shuffle(col)
        drop = rng.random() < 0.5
        index = rng.choice([None, None, "offset", "perm", "str", "shuffle", "partial", "offset"])
        str_nan = rng.choice([None, None, None, "MISSING", "MISSING", "n/a", "missing value"])
        vo = None
        if rng.random() < 0.3:
            hv = hier_values(levels)
            vo = rng.sample(hv, rng.randint(0, len(hv)))      # any order, any subset, no duplicate
            if rng.random() < 0.25:
                vo.insert(rng.randint(0, len(vo)), "not_in_hierarchy")
        # a hierarchy value literally named like the library's default bucket "__OTHER__", and/or a
        # str_default keyword equal to a hierarchy value: ChainedDiscretizer has no default bucket, a
        # never-seen value at transform must still be refused
        str_default = None
        if rng.random() < 0.3:
            hv = hier_values(levels)
            old = rng.choice(hv)
            ren = lambda x: "__OTHER__" if x == old else x          # noqa: E731
            levels = [[[ren(k), [ren(x) for x in vs]] for k, vs in lv] for lv in levels]
            col = [r if isnan(r) else ren(r) for r in col]
            if vo is not None:
                vo = [ren(x) for x in vo]
        if rng.random() < 0.3:
            str_default = rng.choice(hier_values(levels) + ["__OTHER__"])
        return self.mk(levels, col, mf, drop, {"b": b, "n": len(col), "malformed": bad}, index,
                       None, str_nan, vo, str_default)

    def rand_dropped(self, rng):
        """no value reaches min_freq: the feature is removed"""
        levels, leaves = self.rand_forest(rng)
        n = rng.randint(30, 120)
        col = [leaves[i % len(leaves)] for i in range(n)]
        top = max(col.count(v) for v in set(col))
        mf = min(0.95, (top + rng.choice([0, 1])) / n)      # on the threshold: kept; one above: dropped
        rng.shuffle(col)
        return self.mk(levels, col, mf, rng.random() < 0.5, {"dropped_probe": True},
                       rng.choice(INDEX_KINDS), None, rng.choice([None, "MISSING"]))

    def generate(self, rng, tier):
        n = 2400 if tier == "thorough" else 260
        cases = [self.rand_case(rng) for _ in range(n)]
        cases += [self.rand_dropped(rng) for _ in range(n // 13)]
        # numeric columns whose string forms are the hierarchy's leaves
        for _ in range(n // 3):
            c = self.rand_case(rng)
            if rng.random() < 0.5 and not self.unknown_of(c):
                c = self.rand_case(rng)            # favour cases with unknown values
            cases.append(self.numericize(rng, c))
        cases += [self.numericize(rng, self.rand_dropped(rng)) for _ in range(n // 40)]
        return cases

    def search_cases(self, rng, neighbours, rnd):
        cases = [self.rand_case(rng) for _ in range(300)]
        cases += [self.numericize(rng, self.rand_case(rng)) for _ in range(100)]
        for c in neighbours[:10]:
            col = decs(c["col"])
            for _ in range(5):
                col2 = list(col)
                if col2:
                    i = rng.randrange(len(col2))
                    col2[i] = rng.choice(c["kin"])
                cases.append(self.mk(c["levels"], col2, c["mf"], c["drop"], {"neighbour": True}, c.get("index"),
                                     c.get("numeric"), c.get("str_nan"), c.get("vo"), c.get("str_default")))
        return cases

    # ---- implementation -----------------------------------------------------------------------
    def run_impl(self, case):
        import pandas as pd
        from AutoCarver.discretizers import ChainedDiscretizer

        col = decs(case["col"])

        numeric = case.get("numeric")
        kw = {}
        if case.get("str_nan"):
            kw["str_nan"] = case["str_nan"]
        if case.get("vo") is not None:
            kw["values_orders"] = {FEAT: list(case["vo"])}
        if case.get("str_default"):
            kw["str_default"] = case["str_default"]

        def frame(values):
            values = list(values)
            if numeric and values and not any(isinstance(v, str) for v in values):
                ser = pd.Series(values)                       # int64 / float64 column
            else:
                ser = pd.Series(values, dtype=object)
            df = pd.DataFrame({FEAT: ser})
            idx = mk_index(len(df), case.get("index"))
            if idx is not None:
                df.index = idx
            return df

        try:
            d = ChainedDiscretizer(
                [FEAT], case["mf"], [{k: list(vs) for k, vs in lv} for lv in case["levels"]],
                unknown_handling="drop" if case["drop"] else "raise", copy=True, **kw)
        except Exception as e:  # noqa: BLE001
            return {"outcome": C.exc_class(e), "stage": "init"}
        try:
            d.fit(frame(col))
        except Exception as e:  # noqa: BLE001
            return {"outcome": C.exc_class(e), "stage": "fit", "msg": str(e)[:160]}
        if FEAT not in d.features:
            return {"outcome": "dropped"}
        order = d.values_orders[FEAT]
        # content restricted to strings: raw numbers are stored under their string form
        out = {"outcome": "fitted",
               "content": [[enc(k), encs([v for v in vs if isinstance(v, str)])]
                           for k, vs in order.content.items()],
               "keys": encs(list(order))}
        # frames given to transform.  t_train / t_known are also decided by the model (on string
        # forms); t_raw (the raw numeric training frame), t_known_raw (hierarchy values given as
        # numbers where they are number strings) and t_new (a never-seen value) by the oracle only
        frames = [("t_train", scol(case)), ("t_known", case["kin"]),
                  ("t_new", list(case["kin"][:2]) + [987654 if numeric else "zz_never_seen"])]
        if numeric:
            # hierarchy values as the raw numbers seen at fit (a number never seen at fit is a new value)
            seen = {strform(v): v for v in col if not isinstance(v, str) and not isnan(v)}
            frames += [("t_raw", col), ("t_known_raw", [seen.get(v, v) for v in case["kin"]])]
        for name, values in frames:
            try:
                out[name] = encs(d.transform(frame(values))[FEAT].tolist())
            except Exception as e:  # noqa: BLE001
                out[name] = C.exc_class(e)
        return out

    # ---- python-side property predicate ---------------------------------------------------------
    def unknown_of(self, case):
        hv = set(case["kin"])
        out = []
        for r in scol(case):
            if not isnan(r) and r not in hv and r != sentinel(case) and r not in out:
                out.append(r)
        return out

    def lost_numbers(self, case):
        """unknown values given as NUMBERS under 'drop' (their raw form is lost from values_orders)"""
        if not case["drop"]:
            return []
        unk = set(self.unknown_of(case))
        return [v for v in decs(case["col"]) if not isinstance(v, str) and not isnan(v) and strform(v) in unk]

    def is_dropped(self, case):
        col = decs(case["col"])         # raw cells: decided before the conversion to strings
        n = len(col)
        cnt = {}
        for r in col:
            if not isnan(r):
                cnt[r] = cnt.get(r, 0) + 1
        return bool(cnt) and max(c / n for c in cnt.values()) < case["mf"]

    def oracle(self, case, out):
        ok, msg = self._oracle(case, out)
        if not ok and case.get("index"):
            msg += f" [training/transform frames carry a non-default row index: {case['index']}]"
        return ok, msg

    def _oracle(self, case, out):
        if not case["wellformed"]:
            return True, ""
        levels, mf = case["levels"], case["mf"]
        col = scol(case)
        sn = sentinel(case)
        vo = case.get("vo")
        if vo is not None and any(v not in case["kin"] for v in vo):
            # values_orders names a value unknown to the hierarchy: refused at construction
            if out["outcome"] == "assert" and out.get("stage") == "init":
                return True, ""
            return False, (f"values_orders holds values unknown to the hierarchy "
                           f"{[v for v in vo if v not in case['kin']]} but the constructor gave {out['outcome']}"
                           f" at {out.get('stage', 'fit')}")
        unknown = self.unknown_of(case)
        if self.is_dropped(case):
            return True, ""
        oc = out["outcome"]
        if unknown and not case["drop"]:
            if oc != "assert":
                return False, f"unknown values {unknown} with unknown_handling='raise' gave {oc}"
            return True, ""
        if oc != "fitted":
            if unknown:
                return False, (f"unknown values {unknown} with unknown_handling='drop' are not merged "
                               f"with missing values: fit gave {oc} ({out.get('msg', '')})")
            return False, f"well-formed hierarchy without unknown values: fit gave {oc} ({out.get('msg', '')})"
        m = {}
        for k, vs in out["content"]:
            for v in decs(vs):
                m[v] = dec(k)
        hv = hier_values(levels)
        for v in m:
            if v not in hv and v not in unknown and v != sn:
                return False, (f"values_orders holds {v!r}, which is neither a hierarchy value, nor a value of the "
                               f"column, nor the missing-value sentinel {sn!r}")
        for v in hv:
            if v not in m:
                return False, f"hierarchy value {v!r} is missing from values_orders after fit"
        ref = reference(levels, col, mf, unknown, sn)
        n = len(col)
        rows = [sn if isnan(r) else r for r in col]
        for v in hv:
            if m[v] not in ancestors(levels, v):
                return False, f"leader {m[v]!r} of {v!r} is not an ancestor of {v!r}"
            if m[v] != ref[v]:
                return False, f"leader of {v!r} is {m[v]!r}, the level-by-level rule gives {ref[v]!r}"
        later = set(hier_values(levels[1:]))
        par0 = level_parent(levels[0])
        for v in level_values(levels[0]):
            if v in later:
                continue
            c = rows.count(v)
            frequent = c > 0 and c / n >= mf
            if (m[v] == v) != (par0[v] == v or frequent):
                return False, (f"bottom value {v!r} (count {c}/{n}, min_freq {mf}) "
                               f"{'keeps' if m[v] == v else 'loses'} its own modality")
        for u in unknown:
            if m.get(u) != sn:
                return False, f"unknown value {u!r} is not grouped with {sn}"
        if sn in rows and m.get(sn) != sn:
            return False, "missing values have no modality of their own"
        frames = [("t_train", col), ("t_known", case["kin"]), ("t_new", None)]
        if case.get("numeric"):
            # the same frames given as raw numbers: each cell must get the leader of its string form
            frames += [("t_raw", col), ("t_known_raw", case["kin"])]
        for name, values in frames:
            got = out[name]
            if values is None:
                if got != "assert":
                    return False, ("transform of a frame holding a never-seen value is not refused with AssertionError"
                                   + (f": it came out as {decs(got)[-1]!r}" if not isinstance(got, str) else f" ({got})")
                                   + (f" [str_default={case['str_default']!r}]" if case.get("str_default") else "")
                                   + (" [the hierarchy holds a value named '__OTHER__']" if "__OTHER__" in case["kin"] else ""))
                continue
            filled = [sn if isnan(r) else r for r in values]
            if any(r not in m for r in filled):
                exp = "assert"
            else:
                exp = [NAN if m[r] == sn else m[r] for r in filled]
            if isinstance(got, str) or isinstance(exp, str):
                if got != exp:
                    what = {"t_train": "the training frame", "t_known": "a frame of all hierarchy values",
                            "t_raw": "the raw numeric training frame",
                            "t_known_raw": "the hierarchy values given as the numbers seen at fit"}[name]
                    lost = self.lost_numbers(case) if name == "t_raw" else []
                    return False, (f"{name}: transform of {what} gave {got if isinstance(got, str) else 'a frame'}, "
                                   f"expected {exp if isinstance(exp, str) else 'a frame'}"
                                   + (f" (unknown numbers {sorted(set(lost))} under 'drop' must come out as "
                                      f"missing values)" if lost else ""))
                continue
            got = decs(got)
            for i, (a, e) in enumerate(zip(got, exp)):
                if not ((isnan(a) and isnan(e)) or a == e):
                    return False, f"{name}: row {i} value {filled[i]!r} transformed to {a!r}, its leader is {e!r}"
            if len(got) != len(exp):
                return False, f"{name}: wrong number of rows"
        return True, ""

    # ---- Coq side -------------------------------------------------------------------------------
    def coq_case(self, case, out):
        sc = C.Scale(0)

        sn = sentinel(case)

        def ren(x):
            """the model's sentinel is "__NAN__": a custom str_nan is renamed to it in what the
            implementation returned (and a literal "__NAN__" met there becomes a foreign value)"""
            if sn != STR_NAN and isinstance(x, str):
                if x == sn:
                    return STR_NAN
                if x == STR_NAN:
                    return STR_NAN + "(literal)"
            return x

        def v(x):
            return C.cval(x, sc)

        def vs(xs):
            return C.clist([v(x) for x in xs])

        def rvs(xs):
            return C.clist([v(ren(x)) for x in xs])

        def dct(d):
            return C.clist([C.cpair(v(k), vs(x)) for k, x in d])

        def rdct(d):
            return C.clist([C.cpair(v(ren(k)), rvs(x)) for k, x in d])

        def tout(t):
            if t == "assert":
                return "TAssert"
            if t == "internal":
                return "TInternal"
            return f"(TOk {rvs(decs(t))})"

        oc = out["outcome"]
        if oc == "assert":
            co = "IAssert"
        elif oc == "internal":
            co = "IInternal"
        elif oc == "dropped":
            co = "IDropped"
        else:
            content = [[dec(k), decs(x)] for k, x in out["content"]]
            co = (f"(IFitted {rdct(content)} {rvs(decs(out['keys']))} {tout(out['t_train'])} "
                  f"{tout(out['t_known'])})")
        levels = C.clist([dct(lv) for lv in case["levels"]])
        return (f"mkC18 {C.cbool(case['wellformed'])} {levels} {vs(scol(case))} {C.cfloat(case['mf'])} "
                f"{C.cbool(case['drop'])} {'None' if case.get('vo') is None else '(Some ' + vs(case['vo']) + ')'} "
                f"{vs(case['kin'])} {co}")

    def coq_shards(self, cases, outs):
        shards = []
        for part in chunks(list(zip(cases, outs)), 25):
            body = ";\n  ".join(self.coq_case(c, o) for c, o in part)
            shards.append(
                "From AC.Model Require Import Base GroupedList Chained CheckC18.\nOpen Scope string_scope.\n"
                f"Definition cases : list c18case := [\n  {body}\n].\n"
                "Eval vm_compute in map verdict cases.\n")
        return shards

    # ---- evidence -----------------------------------------------------------------------------
    def signature(self, case, out):
        unknown = self.unknown_of(case)
        has_nan = any(isnan(r) for r in scol(case))
        prof = "-"
        if out["outcome"] == "fitted":
            m = {}
            for k, vs in out["content"]:
                for x in decs(vs):
                    m[x] = dec(k)
            lvl = {}
            for i, lv in enumerate(case["levels"]):
                for name, _ in lv:
                    lvl.setdefault(name, i + 1)
            prof = ",".join(str(sum(1 for x, l in m.items() if x != l and lvl.get(l, 0) == i))
                            for i in range(1, len(case["levels"]) + 1))
        vo = case.get("vo")
        vok = "-" if vo is None else ("bad" if any(x not in case["kin"] for x in vo) else "ok")
        return (f"{case.get('numeric') or 'str'}|sn{int(bool(case.get('str_nan')))}|vo{vok}|L{len(case['levels'])}|{'drop' if case['drop'] else 'raise'}|u{min(2, len(unknown))}|"
                f"nan{int(has_nan)}|wf{int(case['wellformed'])}|{out['outcome']}|{prof}")

    def finding_signatures(self, case, out, msg):
        sigs = []
        if case["drop"] and len(self.unknown_of(case)) >= 2 and out["outcome"] == "assert":
            sigs.append("drop_several_unknown_values_asserts")
        if out["outcome"] == "internal" and "empty condition list" in out.get("msg", ""):
            sigs.append("select_empty_condition_list")
        if (case.get("str_nan") and case.get("numeric") and any(isnan(r) for r in scol(case))
                and "__NAN__" in (msg + out.get("msg", ""))):
            sigs.append("custom_str_nan_numeric_missing_seen_as_unknown")
        if out.get("t_raw") == "assert" and self.lost_numbers(case):
            sigs.append("numeric_unknown_lost_at_transform")
        return sigs

    def shrink(self, case, out, msg):
        """fewer rows / values / levels while the oracle still fails"""
        best = (case, out, msg)

        def attempt(levels, col):
            cand = self.mk(levels, col, case["mf"], case["drop"], {"shrunk": True}, case.get("index"),
                           case.get("numeric"), case.get("str_nan"),
                           None if case.get("vo") is None else [v for v in case["vo"]
                                                                if v in hier_values(levels) or v not in case["kin"]],
                           case.get("str_default"))
            if not cand["wellformed"]:
                return None
            o = self.run_impl(cand)
            ok, m = self.oracle(cand, o)
            return None if ok else (cand, o, m)

        changed, rounds = True, 0
        while changed and rounds < 40:
            changed = False
            rounds += 1
            cur = best[0]
            levels, col = cur["levels"], decs(cur["col"])
            cands = []
            if len(levels) > 1:
                cands.append((levels[:-1], col))
            for li, lv in enumerate(levels):
                for gi in range(len(lv)):
                    if len(lv) > 1:
                        cands.append((levels[:li] + [lv[:gi] + lv[gi + 1:]] + levels[li + 1:], col))
            distinct = []
            for r in col:
                key = "nan" if isnan(r) else r
                if key not in distinct:
                    distinct.append(key)
            for key in distinct:
                same = [r for r in col if ("nan" if isnan(r) else r) == key]
                rest = [r for r in col if ("nan" if isnan(r) else r) != key]
                cands.append((levels, rest))
                if len(same) > 1:
                    cands.append((levels, rest + same[:1]))
                    cands.append((levels, rest + same[:len(same) // 2]))
            for lv2, col2 in cands:
                if not col2:
                    continue
                got = attempt(lv2, col2)
                if got is not None:
                    best, changed = got, True
                    break
        return best

    def distribution(self, cases, outs):
        outc, depth, rows, unk, pol = {}, {}, [], {}, {"drop": 0, "raise": 0}
        idx, flav = {}, {}
        for c in cases:
            flav[c.get("numeric") or "str"] = flav.get(c.get("numeric") or "str", 0) + 1
            idx[str(c.get("index"))] = idx.get(str(c.get("index")), 0) + 1
        nan_cases = boundary = 0
        for c, o in zip(cases, outs):
            if not isinstance(o, dict) or "outcome" not in o:
                continue
            outc[o["outcome"]] = outc.get(o["outcome"], 0) + 1
            depth[len(c["levels"])] = depth.get(len(c["levels"]), 0) + 1
            col = decs(c["col"])
            rows.append(len(col))
            u = len(self.unknown_of(c))
            unk[min(u, 2)] = unk.get(min(u, 2), 0) + 1
            pol["drop" if c["drop"] else "raise"] += 1
            nan_cases += any(isnan(r) for r in col)
            b = c["meta"].get("b")
            if b is not None:
                cnt = {}
                for r in col:
                    if not isnan(r):
                        cnt[r] = cnt.get(r, 0) + 1
                boundary += any(x in (b, b - 1) for x in cnt.values())
        return {"outcomes": outc, "levels": depth, "rows_min": min(rows) if rows else 0,
                "rows_max": max(rows) if rows else 0, "distinct_unknown_values(0,1,2+)": unk,
                "policy": pol, "row_index_kind": idx, "column_cells": flav,
                "custom_str_nan": sum(1 for c in cases if c.get("str_nan")),
                "str_default_kwarg": sum(1 for c in cases if c.get("str_default")),
                "hierarchy_holds___OTHER__": sum(1 for c in cases if "__OTHER__" in c["kin"]),
                "values_orders_given(consistent,inconsistent)": [
                    sum(1 for c in cases if c.get("vo") is not None and all(x in c["kin"] for x in c["vo"])),
                    sum(1 for c in cases if c.get("vo") is not None and any(x not in c["kin"] for x in c["vo"]))], "cases_with_nan": nan_cases,
                "cases_with_a_count_on_or_one_below_threshold": boundary,
                "malformed_hierarchies": sum(1 for c in cases if not c["wellformed"])}


PROP = C18()
