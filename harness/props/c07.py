"""C07 — fit/transform coherence, row-wise purity and absence of side effects.
Call histories on real objects: fit (copy=True), then k transforms on the full frame, row
subsets, shuffles, repeated rows' selections and re-indexed frames, interleaved; deep copies of
the inputs compared before/after; the fitted state (values_orders, labels_per_values, to_json)
snapshotted after every call; fit_transform compared with fit followed by transform on a second
object.  The full-frame transform is also compared with the model (C04 verdict on the extracted
state), on which row-wise purity is a theorem."""
import json

import numpy as np

import common as C
from props import c04 as B
from props.base import NAN, Prop, chunks, dec, decs, enc, encs
from props.c02 import key

EXTRA = "zz_other"


def snapshot(obj):
    vo = {f: [encs(list(g)), [[enc(k), encs(v)] for k, v in g.content.items()]] for f, g in obj.values_orders.items()}
    lpv = {f: [[enc(k), enc(l)] for k, l in d.items()] for f, d in obj.labels_per_values.items()}
    tj = obj.to_json()
    if isinstance(tj.get("_history"), dict):
        # history() adds a "feature" key to the stored records (not a change of the fitted state): ignored
        tj = dict(tj)
        tj["_history"] = {f: [{k: v for k, v in r.items() if k != "feature"} if isinstance(r, dict) else r
                              for r in rs] if isinstance(rs, list) else rs
                          for f, rs in tj["_history"].items()}
    js = json.dumps(tj, sort_keys=True, default=str)
    return json.dumps([vo, lpv, js, sorted(obj.features)], sort_keys=True)


def frames_equal(a, b):
    if list(a.columns) != list(b.columns) or list(a.index) != list(b.index):
        return False
    for c in a.columns:
        x, y = a[c], b[c]
        if not bool(((x == y) | (x.isna() & y.isna())).all()):
            return False
    return True


def gen_ops(rng, n):
    ops = []
    for _ in range(rng.randint(2, 6)):
        k = rng.choice(["full", "subset", "shuffle", "repeat_rows", "index_str", "index_offset", "single", "empty",
                        "by_value"])
        if k == "full":
            sel = list(range(n))
        elif k == "subset":
            sel = sorted(rng.sample(range(n), rng.randint(1, max(1, n // 2))))
        elif k == "shuffle":
            sel = list(range(n))
            rng.shuffle(sel)
        elif k == "repeat_rows":
            sel = [rng.randrange(n) for _ in range(rng.randint(2, 12))]
        elif k == "single":
            sel = [rng.randrange(n)]
        elif k == "empty":
            sel = []
        elif k == "by_value":
            sel = ["by_value", rng.randint(1, 3)]    # resolved in run_impl: rows holding the j smallest values
        else:
            sel = list(range(n))
            rng.shuffle(sel)
        ops.append({"kind": k, "sel": sel})
    return ops


class C07(Prop):
    pid = "C07"
    coq_targets = ["Properties/C07.vo", "Model/CheckC04.vo", "Model/CheckC05.vo"]
    theorems = ["C07_transform_is_row_wise", "C07_output_keeps_columns", "C07_other_columns_unchanged",
                "C07_repeated_transforms"]
    rule = ("call histories on real objects (Discretizer, Quantitative/QualitativeDiscretizer, BinaryCarver, "
            "ContinuousCarver; 1-3 features + one non-feature column; copy=True): fit, then 2-6 transforms "
            "on the full frame / row subsets / shuffles / selections with repeated rows / single row / empty "
            "frame / string and offset indices, interleaved; observables after every call: output rows vs the "
            "corresponding rows of the full result, index, columns, non-feature column, fitted-state snapshot, "
            "deep copies of X and y; plus fit_transform vs fit-then-transform on a second object; the full "
            "transform is compared with the model. non-trivial = at least one kept feature; distinct = (class, "
            "feature kinds, op kinds, output_dtype, dropna) signature")
    assumptions = ["PARTIAL: that the caller's frames are not mutated and that pandas aligns on the index are "
                   "runtime behaviours checked on every history, not proved",
                   "dev samples are passed for carvers in one third of the cases"]
    trusted_extra = B.C04.trusted_extra

    def generate(self, rng, tier):
        n = 150 if tier == "quick" else 2500
        cases = []
        for i in range(n):
            cls = B.CLASSES[i % len(B.CLASSES)]
            if i % 5 == 3 and cls != "QuantitativeDiscretizer":
                # several categorical features sharing a vocabulary, each with rare modalities (default group)
                c = B.gen_case(rng, cls, force={"kind": "cat", "cflavour": "rare", "nfeat": rng.choice([2, 3]),
                                                "n": rng.choice([120, 200, 400])})
                # the second feature's FREQUENT modalities are the first one's rare / unseen ones (a <-> j ...)
                f2 = c["features"][1]
                f2["values"] = encs([chr(ord("a") + ord("j") - ord(v)) if isinstance(v, str) and len(v) == 1 and "a" <= v <= "j"
                                     else v for v in decs(f2["values"])])
            elif i % 9 == 4:
                # small integer counts carved with float labels (ranks 0..k): frames made of a few small values
                # look like label sets
                cls = rng.choice(["BinaryCarver", "ContinuousCarver"])
                c = B.gen_case(rng, cls, force={"kind": "quant", "qflavour": "discrete", "nfeat": 1,
                                                "n": rng.choice([120, 200, 400])})
                c["params"]["output_dtype"] = "float"
            elif i % 7 == 2 and cls != "QuantitativeDiscretizer":
                # numeric-coded qualitative feature WITH missing values (StringDiscretizer path works in place)
                c = B.gen_case(rng, cls, force={"kind": "cat", "cflavour": rng.choice(["ints", "floats", "mixed"]),
                                                "nan_share": rng.choice([0.05, 0.15])})
            else:
                c = B.gen_case(rng, cls)
            c["json"] = False
            c["ops"] = gen_ops(rng, len(c["y"]))
            if i % 9 == 4:
                c["ops"] += [{"kind": "by_value", "sel": ["by_value", j]} for j in (1, 2, 3)]
            c["with_dev"] = c["cls"].endswith("Carver") and rng.random() < 0.35
            c["first_small"] = rng.random() < 0.4
            cases.append(c)
        return cases

    def search_cases(self, rng, neighbours, rnd):
        return self.generate(rng, "quick")[:60]

    def run_impl(self, case):
        import pandas as pd
        n = len(case["y"])

        def fresh():
            X = B.build_frame(case)
            # a non-feature column that happens to hold the sentinel tokens, and a numeric one with missing
            # cells and small integers (the values labels are made of): neither may be touched
            toks = ["r0", "__NAN__", "__OTHER__", "MISSING", "RARE", "r5", "nan"]
            X[EXTRA] = [toks[i % 7] for i in range(n)]
            X[EXTRA + "_num"] = [float("nan") if i % 5 == 2 else float(i % 3) for i in range(n)]
            return X, pd.Series(case["y"])

        def fit(obj_case, how):
            """returns (obj, output of fit_transform or None)"""
            X, y = fresh()
            X0, y0 = X.copy(deep=True), y.copy(deep=True)
            obj = self.build(obj_case)
            kw = {}
            if case["with_dev"]:
                Xd, yd = fresh()
                Xd0, yd0 = Xd.copy(deep=True), yd.copy(deep=True)
                kw = {"X_dev": Xd, "y_dev": yd}
            if how == "fit":
                obj.fit(X, y, **kw)
                res = None
            else:
                res = obj.fit_transform(X, y, **kw)
            untouched = frames_equal(X, X0) and bool((y == y0).all()) and list(y.index) == list(y0.index)
            if case["with_dev"]:
                untouched = untouched and frames_equal(Xd, Xd0) and bool((yd == yd0).all())
            return obj, res, untouched

        try:
            obj, _, fit_untouched = fit(case, "fit")
        except Exception as e:  # noqa: BLE001
            return {"skip": f"fit raised {C.exc_class(e)} (C08)"}
        names = [f["name"] for f in case["features"] if f["name"] in obj.features]
        if not names:
            return {"skip": "every feature was dropped at fit"}
        out = {"fit_untouched": fit_untouched, "issues": []}
        snap0 = snapshot(obj)
        small_first = None
        if case.get("first_small"):
            # the FIRST transform after fit sees a tiny batch (few modalities); nothing of it may be remembered
            Xs_, _ = fresh()
            try:
                small_first = obj.transform(Xs_.iloc[:2].copy())
            except Exception:  # noqa: BLE001  (judged below on the full frame)
                small_first = None
        X, _ = fresh()
        X0 = X.copy(deep=True)
        try:
            full = obj.transform(X)
        except Exception as e:  # noqa: BLE001
            return {"skip": f"transform of the training frame raised {C.exc_class(e)} (C04/C05)"}
        if not frames_equal(X, X0):
            out["issues"].append("transform modified the caller's X although copy=True")
        if small_first is not None:
            for f in names:
                a, b = list(small_first[f]), list(full[f].iloc[:2])
                if [key(enc(x)) for x in a] != [key(enc(x)) for x in b]:
                    out["issues"].append(f"a first transform of two rows gives other labels for {f} than the full frame")
        if list(full.index) != list(X0.index) or list(full.columns) != list(X0.columns):
            out["issues"].append("transform does not keep X's index and columns")
        for ex in (EXTRA, EXTRA + "_num"):
            if not bool(((full[ex] == X0[ex]) | (full[ex].isna() & X0[ex].isna())).all()):
                out["issues"].append(f"non-feature column {ex} changed by transform")
        dropped = [f["name"] for f in case["features"] if f["name"] not in obj.features]
        for d in dropped:
            if not bool(((full[d] == X0[d]) | (full[d].isna() & X0[d].isna())).all()):
                out["issues"].append(f"dropped feature {d} changed by transform")
        if snapshot(obj) != snap0:
            out["issues"].append("fitted state changed by transform")
        # fit_transform on a second object
        try:
            obj2, ft, ft_untouched = fit(case, "fit_transform")
            if not ft_untouched:
                out["issues"].append("fit_transform modified the caller's inputs although copy=True")
            for f in names + [EXTRA, EXTRA + "_num"]:
                a, b = ft[f], full[f]
                if not bool(((a == b) | (a.isna() & b.isna())).all()):
                    out["issues"].append(f"fit_transform(X, y)[{f}] differs from fit(X, y).transform(X)[{f}]")
                    break
        except Exception as e:  # noqa: BLE001
            out["issues"].append(f"fit_transform raised {type(e).__name__}: {str(e)[:100]} while fit+transform works")
        # the history
        for k, op in enumerate(case["ops"]):
            if k % 2 == 1:
                # read-only queries between two transforms
                try:
                    obj.summary()
                    if getattr(obj, "_history", None) is not None:
                        obj.history()
                except Exception as e:  # noqa: BLE001
                    out["issues"].append(f"summary()/history() raised {type(e).__name__} on a fitted object")
            Xs, _ = fresh()
            sel = op["sel"]
            if sel and sel[0] == "by_value":
                # the rows whose value of the first kept feature is among its j smallest values (a frame made of
                # a few small numbers only: what a label set looks like)
                col0 = list(Xs[names[0]])
                small = sorted({v for v in col0 if isinstance(v, (int, float)) and v == v})[: sel[1]]
                sel = [i for i, v in enumerate(col0) if isinstance(v, (int, float)) and v in small][:50]
            Xo = Xs.iloc[sel].copy()
            if op["kind"] == "index_str":
                Xs.index = [f"id{i:04d}" for i in range(n)]
                Xo = Xs.iloc[sel].copy()
            elif op["kind"] == "index_offset":
                Xs.index = [i * 3 + 1000 for i in range(n)]
                Xo = Xo = Xs.iloc[sel].copy()
            if op["kind"] == "repeat_rows":
                Xo = Xo.reset_index(drop=True)   # unique index
            Xo0 = Xo.copy(deep=True)
            try:
                r = obj.transform(Xo)
            except Exception as e:  # noqa: BLE001
                out["issues"].append(f"op {k} {op['kind']}: transform of rows seen at fit raised "
                                     f"{type(e).__name__}: {str(e)[:120]}")
                continue
            if not frames_equal(Xo, Xo0):
                out["issues"].append(f"op {k} {op['kind']}: caller's frame modified although copy=True")
            if list(r.index) != list(Xo0.index) or list(r.columns) != list(Xo0.columns):
                out["issues"].append(f"op {k} {op['kind']}: output does not keep the index/columns")
            exp = full.iloc[sel]
            for f in names + [EXTRA, EXTRA + "_num"]:
                a, b = list(r[f]), list(exp[f])
                if [key(enc(x)) for x in a] != [key(enc(x)) for x in b]:
                    out["issues"].append(f"op {k} {op['kind']}: rows of feature {f} differ from the corresponding "
                                         f"rows of the full transform")
                    break
            if snapshot(obj) != snap0:
                out["issues"].append(f"op {k} {op['kind']}: fitted state changed by transform")
        # frames with UNSEEN values: a row's label must not depend on the other rows of the frame.
        # unseen values are injected only into qualitative features that have a default group; the
        # injected values are known modalities of the other qualitative columns
        vocab = sorted({v for f in case["features"] if f["kind"] != "quant" for v in decs(f["values"])
                        if isinstance(v, str)})
        Xu, _ = fresh()
        injected = False
        for f in case["features"]:
            nm = f["name"]
            if f["kind"] == "quant" or nm not in names or not vocab:
                continue
            if obj.str_default in obj.values_orders[nm].values():
                col = list(Xu[nm])
                # prefer values NEW for this feature that are known modalities of the other qualitative columns
                own = set(v for v in obj.values_orders[nm].values() if isinstance(v, str))
                new_here = [v for v in vocab if v not in own] or vocab
                for i in range(len(col)):
                    if i % 5 == 2:
                        col[i] = new_here[(i // 5) % len(new_here)]
                Xu[nm] = pd.Series(col, dtype=object)
                injected = True
        if injected:
            try:
                fullu = obj.transform(Xu.copy())
            except Exception:  # noqa: BLE001
                fullu = None
            if fullu is not None:
                import random as _r
                r_ = _r.Random(n)
                sels = [[i] for i in r_.sample(range(n), min(6, n))] + [sorted(r_.sample(range(n), max(1, n // 3)))]
                for sel in sels:
                    try:
                        part = obj.transform(Xu.iloc[sel].copy())
                    except Exception as e:  # noqa: BLE001
                        out["issues"].append(f"unseen-values frame: rows {sel[:4]} alone raise {type(e).__name__} "
                                             "although the full frame is accepted")
                        break
                    bad = False
                    for f_ in names:
                        if [key(enc(x)) for x in part[f_]] != [key(enc(x)) for x in fullu[f_].iloc[sel]]:
                            out["issues"].append(f"unseen-values frame: rows {sel[:4]} of feature {f_} get other "
                                                 "labels alone than inside the full frame")
                            bad = True
                            break
                    if bad:
                        break
        if not fit_untouched:
            out["issues"].append("fit modified the caller's X / y / X_dev / y_dev although copy=True")
        # model comparison of the full transform (C04 encoding)
        states = [B.extract_state(obj, nm) for nm in names]
        runs = []
        for nm in names:
            cs, os_ = B.dedup_pairs(encs(list(X0[nm])), encs(list(full[nm])))
            runs.append({"cells": cs, "out": os_})
        out["features"], out["runs"] = states, runs
        return out

    @staticmethod
    def build(case):
        """unfitted object of the case's class (copy=True)"""
        from AutoCarver.carvers import BinaryCarver, ContinuousCarver
        from AutoCarver.discretizers import (Discretizer, GroupedList, QualitativeDiscretizer,
                                             QuantitativeDiscretizer)
        cls, p = case["cls"], case["params"]
        kw_ = dict(case.get("kwargs") or {})
        quant = [f["name"] for f in case["features"] if f["kind"] == "quant"]
        cat = [f["name"] for f in case["features"] if f["kind"] == "cat"]
        ordi = [f["name"] for f in case["features"] if f["kind"] == "ord"]
        orders = {f["name"]: GroupedList(decs(f["order"])) for f in case["features"] if f["kind"] == "ord"}
        if cls == "Discretizer":
            return _NoDev(Discretizer(quantitative_features=quant, qualitative_features=cat, ordinal_features=ordi,
                                      values_orders=orders, min_freq=p["min_freq"], copy=True, verbose=False, **kw_))
        if cls == "QuantitativeDiscretizer":
            return _NoDev(QuantitativeDiscretizer(quantitative_features=quant, min_freq=p["min_freq"], copy=True,
                                                  verbose=False, **{k: v for k, v in kw_.items() if k == "str_nan"}))
        if cls == "QualitativeDiscretizer":
            return _NoDev(QualitativeDiscretizer(qualitative_features=cat, ordinal_features=ordi,
                                                 values_orders=orders, min_freq=p["min_freq"], copy=True,
                                                 verbose=False, **kw_))
        kw = dict(min_freq=p["min_freq"], quantitative_features=quant, qualitative_features=cat,
                  ordinal_features=ordi, values_orders=orders, max_n_mod=p["max_n_mod"],
                  output_dtype=p["output_dtype"], dropna=p["dropna"], copy=True, verbose=False, **kw_)
        if cls == "BinaryCarver":
            return BinaryCarver(sort_by=p["sort_by"], **kw)
        return ContinuousCarver(**kw)

    def oracle(self, case, out):
        if out["issues"]:
            return False, "; ".join(out["issues"][:3])
        return True, ""

    def coq_shards(self, cases, outs):
        return B.coq_shards_for(cases, outs, "verdict04")

    def signature(self, case, out):
        kinds = sorted(f["kind"] for f in case["features"])
        ops = [o["kind"] for o in case["ops"]]
        return f"{case['cls']}|{kinds}|{ops}|{case['params']['output_dtype']}|{case['params']['dropna']}|{case['with_dev']}"

    def finding_signatures(self, case, out, msg):
        return []

    def distribution(self, cases, outs):
        d = {"cls": {}, "ops": {}, "with_dev": 0, "calls": 0}
        for c in cases:
            d["cls"][c["cls"]] = d["cls"].get(c["cls"], 0) + 1
            d["with_dev"] += bool(c["with_dev"])
            for o in c["ops"]:
                d["ops"][o["kind"]] = d["ops"].get(o["kind"], 0) + 1
                d["calls"] += 1
        return d

    def shrink(self, case, out, msg):
        return case, {"issues": out.get("issues")}, msg


class _NoDev:
    """Discretizer classes take no dev sample: same call interface for the history runner"""

    def __init__(self, obj):
        self.__dict__["_o"] = obj

    def fit(self, X, y, **kw):
        return self._o.fit(X, y)

    def fit_transform(self, X, y, **kw):
        return self._o.fit_transform(X, y)

    def __getattr__(self, k):
        return getattr(self._o, k)


PROP = C07()
