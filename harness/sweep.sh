#!/bin/bash
# usage: sweep.sh <seed...> : runs every check (quick) on /repo for each VERIF_SEED, one summary line per run
cd /verif
for s in "$@"; do
  for id in C01 C02 C03 C04 C05 C06 C07 C08 C09 C10 C11 C12 C13 C14 C15 C16 C17 C18 C19; do
    out=$(VERIF_SEED=$s timeout 3000 ./check $id quick 2>&1); rc=$?
    echo "seed=$s $id exit=$rc viol=$(echo "$out" | grep -c '^VIOLATION') known=$(echo "$out" | grep -c '^KNOWN-FINDING') | $(echo "$out" | tail -1)"
    echo "$out" | grep '^VIOLATION' | head -3
  done
done
