"""Regenerates the theorem counts of DESIGN.md section 0.2 from coq/Properties/Cxx.v and harness/props/cxx.py
(the free-text column of each row is kept as written)."""
import importlib
import os
import re
import sys

V = os.path.dirname(os.path.dirname(os.path.abspath(__file__)))
sys.path.insert(0, os.path.join(V, "harness"))
p = os.path.join(V, "DESIGN.md")
s = open(p).read()
for i in range(1, 20):
    pid = f"C{i:02d}"
    src = open(os.path.join(V, "coq", "Properties", f"{pid}.v")).read()
    n = len(re.findall(r"^Theorem\s", src, flags=re.M))
    listed = len(importlib.import_module(f"props.{pid.lower()}").PROP.theorems)
    cell = f"{n}" if n == listed else f"{n} ({listed} required by the check)"
    s, k = re.subn(rf"^\| {pid} \| [^|]* \|", f"| {pid} | {cell} |", s, count=1, flags=re.M)
    print(pid, n, listed, "updated" if k else "ROW NOT FOUND")
open(p, "w").write(s)
