(* C01 — carvers pick the most target-associated viable ordered grouping.
   Model: Model/Combos.v (the code's enumeration), Model/Measures.v (exact chi2 / Kruskal),
   Model/Carve.v (sort by measure, first viable wins, two stages).  Unbounded in the number of
   modalities, max_n_mod and sample size. *)
From Coq Require Import ZArith QArith List Bool.
Import ListNotations.
From AC.Model Require Import Float Combos Measures Carve CheckC01.
From AC.Proofs Require Import CombosProofs CarveProofs CheckC01Proofs.
Local Open Scope nat_scope.

(* the enumeration is EXACTLY the set of order-contiguous groupings into 2..k groups *)
Theorem C01_enumeration_complete : forall (A : Type) (l : list A) (k : nat) (c : list (list A)),
  In c (consecutive_combinations l k) <->
  (concat c = l /\ Forall (fun g => g <> []) c /\ 2 <= length c <= k).
Proof. exact compositions_spec. Qed.
Print Assumptions C01_enumeration_complete.

(* missing-value placements: inside one group of a contiguous grouping, or alone if room is left *)
Theorem C01_nan_enumeration_complete : forall (A : Type) (l : list A) (nan : A) (k : nat) (c : list (list A)),
  In c (nan_combinations l nan k) <->
  exists c0, In c0 (consecutive_combinations l k) /\
    ((exists i, i < length c0 /\ c = add_to_nth i nan c0) \/ (length c0 < k /\ c = c0 ++ [[nan]])).
Proof. exact nan_combinations_spec. Qed.
Print Assumptions C01_nan_enumeration_complete.

(* sort by measure + first viable = argmax over the viable candidates; none iff no viable one *)
Theorem C01_first_viable_is_argmax :
  (forall cf train dev cands c, stage cf train dev cands = Some c ->
     In c cands /\ viable cf train dev c = true /\
     forall c', In c' cands -> viable cf train dev c' = true ->
        oq_le (measure cf train (total_n train) c') (measure cf train (total_n train) c) = true) /\
  (forall cf train dev cands, stage cf train dev cands = None <->
     (forall c, In c cands -> viable cf train dev c = false)).
Proof. split; [exact stage_some|exact stage_none]. Qed.
Print Assumptions C01_first_viable_is_argmax.

(* kept feature, no grouping of missing values: optimal over ALL viable contiguous groupings *)
Theorem C01_kept_grouping_is_optimal : forall cf d c, two_stage cf d = false -> carve cf d = Kept c ->
  concat c = seq 0 (length (d_train d)) /\ Forall (fun g => g <> []) c /\ 2 <= length c <= max_n_mod cf /\
  viable cf (d_train d) (d_dev d) c = true /\
  forall c', concat c' = seq 0 (length (d_train d)) -> Forall (fun g => g <> []) c' -> 2 <= length c' <= max_n_mod cf ->
     viable cf (d_train d) (d_dev d) c' = true ->
     oq_le (measure cf (d_train d) (total_n (d_train d)) c') (measure cf (d_train d) (total_n (d_train d)) c) = true.
Proof. exact carve_kept_one_stage. Qed.
Print Assumptions C01_kept_grouping_is_optimal.

(* kept feature, missing values grouped: optimal placement on top of the optimal stage-1 grouping *)
Theorem C01_kept_nan_placement_is_optimal : forall cf d c, two_stage cf d = true -> carve cf d = Kept c ->
  exists c1 c2, c = expand c1 (length (d_train d)) c2 /\
    stage cf (d_train d) (d_dev d) (cands1 cf d) = Some c1 /\
    let '(t2, d2) := stage2_inputs d c1 in
    In c2 (nan_combinations (seq 0 (length c1)) (length c1) (max_n_mod cf)) /\ viable cf t2 d2 c2 = true /\
    forall c2', In c2' (nan_combinations (seq 0 (length c1)) (length c1) (max_n_mod cf)) -> viable cf t2 d2 c2' = true ->
       oq_le (measure cf t2 (total_n t2) c2') (measure cf t2 (total_n t2) c2) = true.
Proof. exact carve_kept_two_stage. Qed.
Print Assumptions C01_kept_nan_placement_is_optimal.

(* a feature is dropped ONLY IF one of the searches has no viable candidate *)
Theorem C01_dropped_iff_no_viable_candidate : forall cf d, carve cf d = Dropped <->
  (length (d_train d) <= 1 \/
   (forall c, In c (cands1 cf d) -> viable cf (d_train d) (d_dev d) c = false) \/
   (two_stage cf d = true /\ exists c1, stage cf (d_train d) (d_dev d) (cands1 cf d) = Some c1 /\
      let '(t2, d2) := stage2_inputs d c1 in
      forall c2, In c2 (nan_combinations (seq 0 (length c1)) (length c1) (max_n_mod cf)) -> viable cf t2 d2 c2 = false)).
Proof. exact carve_dropped_iff. Qed.
Print Assumptions C01_dropped_iff_no_viable_candidate.

(* viability is the property's definition: min frequency, distinct adjacent rates, same ranks on dev *)
Theorem C01_viable_means : forall cf train dev c, viable cf train dev c = true <->
  rows_ok (min_freq_mod cf) (rows_of train c) = true /\
  match dev with
  | None => True
  | Some d => same_ranks (map rate (rows_of train c)) (map rate (rows_of d c)) = true /\
              rows_ok (min_freq_mod cf) (rows_of d c) = true
  end.
Proof. exact viable_unfold. Qed.
Print Assumptions C01_viable_means.

(* the boolean predicate evaluated at run time on the IMPLEMENTATION's outcome holds of the model *)
Theorem C01_checker_predicate_holds_on_model : forall cf d, C01_b cf d (carve cf d) = true.
Proof. exact carve_satisfies_C01_b. Qed.
Print Assumptions C01_checker_predicate_holds_on_model.

(* non-vacuity: a concrete feature that is kept, and one that is dropped *)
Example C01_nonvacuous :
  let cf := mkCfg 3 (f_of_dyadic 1 (-4)) true Cramerv in
  let d := mkData [[(0,5);(1,3)]; [(0,2);(1,6)]; [(0,4);(1,4)]]%Z (Some [(0,3);(1,3)]%Z) None None in
  (exists c, carve cf d = Kept c) /\ carve (mkCfg 3 (f_of_dyadic 1 (-1)) true Cramerv) d = Dropped.
Proof. split; [eexists|]; vm_compute; reflexivity. Qed.
