(* C08 — fit ends in a coherent fitted object or a clean AssertionError (logic part).
   On the models of the base discretization: no stage can fail internally (fuel is enough, the
   merging loop is total) and the orders built are well-formed partitions (C13 invariant); the
   invariant itself is what the run-time check evaluates on the IMPLEMENTATION's fitted state. *)
From Coq Require Import ZArith List Permutation.
Import ListNotations.
From AC.Model Require Import Base Float GroupedList CheckC13 CheckC08 Quantiles Ordinal.
From AC.Proofs Require Import GroupedListSpec GroupedListProofs CheckC13Proofs DiscretizeProofs FitWfProofs.

(* the boolean evaluated on the implementation's state IS the invariant of the property:
   well-formed ordered partition covering every training value (and the missing-value sentinel) *)
Theorem C08_invariant_checker_sound : forall f, feature_ok f = true ->
  WF (f_order f) /\
  (f_quant f = false -> forall v, In v (f_train f) -> In v (values (f_order f))) /\
  (f_has_nan f = true -> In (f_str_nan f) (values (f_order f))).
Proof. exact feature_ok_sound. Qed.
Print Assumptions C08_invariant_checker_sound.

(* quantile search: never out of fuel whatever the sample (discrete, tied, spiked, tiny) *)
Theorem C08_quantile_search_never_fails_internally : forall dedup q len_df vc,
  find_quantiles_v dedup q len_df vc <> QErr QFuel.
Proof. exact find_quantiles_never_internal. Qed.
Print Assumptions C08_quantile_search_never_fails_internally.

(* ... and the order it builds (boundaries, +inf, missing-value sentinel) is well formed *)
Theorem C08_quantile_order_wf : forall q len_df nan_cnt vc g,
  fit_feature true q len_df nan_cnt vc = QOk g -> WF g.
Proof. exact fit_feature_wf. Qed.
Print Assumptions C08_quantile_order_wf.

(* the rare-bucket merging loop is total: it always returns a result *)
Theorem C08_merging_loop_total : forall n m bs, exists bs', find_common_modalities n m bs = Ok bs'.
Proof. exact merging_loop_total. Qed.
Print Assumptions C08_merging_loop_total.

(* grouping (convert_to_values / order_apply_combination) keeps the order well formed, loses no value *)
Theorem C08_grouping_preserves_wf : forall g ds k, WF g -> valid g (OGroupList ds k) ->
  exists g', group_list g ds k = Ok g' /\ WF g' /\ Permutation (values g') (values g).
Proof. exact group_list_keeps_wf. Qed.
Print Assumptions C08_grouping_preserves_wf.

Open Scope string_scope.
Example C08_nonvacuous :
  feature_ok (mkC08f true (of_list [VNum 2; VNum 5; VPInf]) [VNum 1; VNum 9] false (VStr "__NAN__")) = true /\
  feature_ok (mkC08f true (of_list [VNum 2; VNum 5]) [VNum 1; VNum 9] false (VStr "__NAN__")) = false.
Proof. vm_compute. split; reflexivity. Qed.

(* on the models, the three base fits never end in an internal error, whatever the sample, the
   ranking (duplicated / never-observed values included) and min_freq *)
From AC.Model Require Import Categorical.
From AC.Proofs Require Import CategoricalOrderProofs QuantFitProofs.
Theorem C08_ordinal_fit_never_fails_internally : forall mf nan_cnt order d,
  ordinal_fit mf nan_cnt order d <> InternalErr.
Proof. exact ordinal_fit_never_internal. Qed.
Print Assumptions C08_ordinal_fit_never_fails_internally.

Theorem C08_categorical_fit_never_fails_internally : forall mf nan_cnt order d,
  categorical_fit mf nan_cnt order d <> InternalErr.
Proof. exact categorical_fit_never_internal. Qed.
Print Assumptions C08_categorical_fit_never_fails_internally.

Theorem C08_quantitative_fit_wf_or_clean_failure : forall mf nan_cnt d,
  (exists g, quantitative_fit true mf nan_cnt d = QFit g /\ WF g)
  \/ quantitative_fit true mf nan_cnt d = QFail QFloat
  \/ quantitative_fit true mf nan_cnt d = QFail QIndex.
Proof. exact quantitative_fit_ok. Qed.
Print Assumptions C08_quantitative_fit_wf_or_clean_failure.
