(* C08 — fit ends in a coherent fitted object or a clean AssertionError (logic part).
   On the models of the base discretization: no stage can fail internally (fuel is enough, the
   merging loop is total) and the orders built are well-formed partitions (C13 invariant); the
   invariant itself is what the run-time check evaluates on the IMPLEMENTATION's fitted state. *)
From Coq Require Import ZArith List Permutation.
Import ListNotations.
From AC.Model Require Import Base Float GroupedList CheckC13 CheckC08 Quantiles Ordinal.
From AC.Proofs Require Import GroupedListSpec GroupedListProofs CheckC13Proofs DiscretizeProofs FitWfProofs.

(* the boolean evaluated on the implementation's state IS the invariant of the property:
   well-formed ordered partition covering every training value (and the missing-value sentinel) *)
Theorem C08_invariant_checker_sound : forall f, feature_ok f = true ->
  WF (f_order f) /\
  (f_quant f = false -> forall v, In v (f_train f) -> In v (values (f_order f))) /\
  (f_has_nan f = true -> In (f_str_nan f) (values (f_order f))).
Proof. exact feature_ok_sound. Qed.
Print Assumptions C08_invariant_checker_sound.

(* quantile search: never out of fuel whatever the sample (discrete, tied, spiked, tiny) *)
Theorem C08_quantile_search_never_fails_internally : forall dedup q len_df vc,
  find_quantiles_v dedup q len_df vc <> QErr QFuel.
Proof. exact find_quantiles_never_internal. Qed.
Print Assumptions C08_quantile_search_never_fails_internally.

(* ... and the order it builds (boundaries, +inf, missing-value sentinel) is well formed *)
Theorem C08_quantile_order_wf : forall q len_df nan_cnt vc g,
  fit_feature true q len_df nan_cnt vc = QOk g -> WF g.
Proof. exact fit_feature_wf. Qed.
Print Assumptions C08_quantile_order_wf.

(* the rare-bucket merging loop is total: it always returns a result *)
Theorem C08_merging_loop_total : forall n m bs, exists bs', find_common_modalities n m bs = Ok bs'.
Proof. exact merging_loop_total. Qed.
Print Assumptions C08_merging_loop_total.

(* grouping (convert_to_values / order_apply_combination) keeps the order well formed, loses no value *)
Theorem C08_grouping_preserves_wf : forall g ds k, WF g -> valid g (OGroupList ds k) ->
  exists g', group_list g ds k = Ok g' /\ WF g' /\ Permutation (values g') (values g).
Proof. exact group_list_keeps_wf. Qed.
Print Assumptions C08_grouping_preserves_wf.

Open Scope string_scope.
Example C08_nonvacuous :
  feature_ok (mkC08f true (of_list [VNum 2; VNum 5; VPInf]) [VNum 1; VNum 9] false (VStr "__NAN__")) = true /\
  feature_ok (mkC08f true (of_list [VNum 2; VNum 5]) [VNum 1; VNum 9] false (VStr "__NAN__")) = false.
Proof. vm_compute. split; reflexivity. Qed.

(* on the models, the three base fits never end in an internal error, whatever the sample, the
   ranking (duplicated / never-observed values included) and min_freq *)
From AC.Model Require Import Categorical.
From AC.Proofs Require Import CategoricalOrderProofs QuantFitProofs.
Theorem C08_ordinal_fit_never_fails_internally : forall mf nan_cnt order d,
  ordinal_fit mf nan_cnt order d <> InternalErr.
Proof. exact ordinal_fit_never_internal. Qed.
Print Assumptions C08_ordinal_fit_never_fails_internally.

Theorem C08_categorical_fit_never_fails_internally : forall mf nan_cnt order d,
  categorical_fit mf nan_cnt order d <> InternalErr.
Proof. exact categorical_fit_never_internal. Qed.
Print Assumptions C08_categorical_fit_never_fails_internally.

Theorem C08_quantitative_fit_wf_or_clean_failure : forall mf nan_cnt d,
  (exists g, quantitative_fit true mf nan_cnt d = QFit g /\ WF g)
  \/ quantitative_fit true mf nan_cnt d = QFail QFloat
  \/ quantitative_fit true mf nan_cnt d = QFail QIndex.
Proof. exact quantitative_fit_ok. Qed.
Print Assumptions C08_quantitative_fit_wf_or_clean_failure.

(* ============================================================================================ *)
(* END-TO-END statements over the composed models (Proofs/FitEndToEndProofs.v), for ALL inputs   *)
(* ============================================================================================ *)
From Coq Require Import Sorted.
From AC.Model Require Import CheckC09 Combos Measures Carve CheckC01.
From AC.Proofs Require Import BaseLemmas CarveProofs FitEndToEndProofs.

(* 1. QUANTITATIVE pipeline (ContinuousDiscretizer with the repaired quantile search, then the
   rare-bucket pass of QuantitativeDiscretizer), whatever the aggregate, min_freq and number of
   missing rows: either the float model of the quantile search gives up (overflow / index, never
   lack of fuel), or fit completes with a well-formed order whose leaders are strictly increasing
   observed values, then +inf, then the sentinel iff values are missing (alone in its group); every
   number is below some leader; the invariant evaluated by the harness holds of it. *)
Theorem C08_quantitative_fit_end_to_end : forall mf nan_cnt d,
  (exists g ls,
      quantitative_fit true mf nan_cnt d = QFit g
      /\ WF g
      /\ keys g = (map VNum ls ++ [VPInf] ++ nan_keys nan_cnt)%list
      /\ Sorted Z.lt ls
      /\ (forall x, In x ls -> In x (qvalues d))
      /\ (In str_nan (keys g) <-> (0 < nan_cnt)%Z)
      /\ ((0 < nan_cnt)%Z -> In (str_nan, [str_nan]) (content g))
      /\ (forall x, exists k, In k (keys g) /\ val_le (VNum x) k = true)
      /\ forall train, feature_ok (mkC08f true g train (0 <? nan_cnt)%Z str_nan) = true)
  \/ quantitative_fit true mf nan_cnt d = QFail QFloat
  \/ quantitative_fit true mf nan_cnt d = QFail QIndex.
Proof. exact quantitative_fit_end_to_end. Qed.
Print Assumptions C08_quantitative_fit_end_to_end.

(* 2a. ORDINAL pipeline, for any ranking without duplicates (never-observed values allowed) that
   does not contain the sentinel: the feature is dropped, or AssertionError (an observed value is
   not ranked), or fit completes with a well-formed order holding exactly the ranked values (+ the
   sentinel iff values are missing, alone in its group), hence every training value. *)
Theorem C08_ordinal_fit_end_to_end : forall mf nan_cnt order d,
  NoDup order -> ~ In str_nan order ->
  ordinal_fit mf nan_cnt order d = Ok None
  \/ ordinal_fit mf nan_cnt order d = AssertErr
  \/ exists g, ordinal_fit mf nan_cnt order d = Ok (Some g)
       /\ WF g
       /\ Permutation (values g) (order ++ nan_keys nan_cnt)%list
       /\ (forall v, In v (observed d) -> In v (values g))
       /\ (In str_nan (keys g) <-> (0 < nan_cnt)%Z)
       /\ ((0 < nan_cnt)%Z -> In (str_nan, [str_nan]) (content g))
       /\ feature_ok (mkC08f false g (observed d) (0 <? nan_cnt)%Z str_nan) = true.
Proof. exact ordinal_fit_end_to_end. Qed.
Print Assumptions C08_ordinal_fit_end_to_end.

(* 2b. CATEGORICAL pipeline (default-group mechanics included), for distinct observed categories,
   a duplicate-free list of known categories, no sentinel among them: dropped, AssertionError, or a
   well-formed order covering every observed value and holding nothing but observed / known values
   and the two sentinels; the missing-value sentinel is a leader iff values are missing, alone in
   its group. *)
Theorem C08_categorical_fit_end_to_end : forall mf nan_cnt order d,
  NoDup (observed d) -> NoDup order ->
  ~ In str_default (observed d ++ order)%list -> ~ In str_nan (observed d ++ order)%list ->
  categorical_fit mf nan_cnt order d = Ok None
  \/ categorical_fit mf nan_cnt order d = AssertErr
  \/ exists st, categorical_fit mf nan_cnt order d = Ok (Some st)
       /\ WF (cat_gl st)
       /\ (forall v, In v (observed d) -> In v (values (cat_gl st)))
       /\ (forall v, In v (values (cat_gl st)) ->
             In v (observed d ++ order)%list \/ v = str_default \/ v = str_nan)
       /\ (In str_nan (keys (cat_gl st)) <-> (0 < nan_cnt)%Z)
       /\ ((0 < nan_cnt)%Z -> In (str_nan, [str_nan]) (content (cat_gl st)))
       /\ feature_ok (mkC08f false (cat_gl st) (observed d) (0 <? nan_cnt)%Z str_nan) = true.
Proof. exact categorical_fit_end_to_end. Qed.
Print Assumptions C08_categorical_fit_end_to_end.

(* 3a. grouping a well-formed order by ANY family of duplicate-free, pairwise disjoint groups of its
   leaders, each containing its kept leader (repeated group_list): no error, well formed, same
   values, and the leaders are the old ones minus the discarded members, in the same order *)
Theorem C08_grouping_family_preserves_wf : forall gs g, WF g -> groups_ok g gs ->
  exists g', apply_groups g gs = Ok g' /\ WF g' /\ Permutation (values g') (values g)
    /\ keys g' = keep_keys (discarded gs) (keys g).
Proof. exact apply_groups_spec. Qed.
Print Assumptions C08_grouping_family_preserves_wf.

(* 3b. every candidate enumerated by Model/Combos.v for stage 1 (consecutive_combinations over the
   non-missing leaders) is applied by order_apply_combination (group_list(combi, combi[0]) per group)
   without error and leaves a well-formed order with the same values ... *)
Theorem C08_stage1_candidates_apply_wf : forall lo maxg c, WF lo ->
  In c (consecutive_combinations (seq 0 (List.length (non_missing (keys lo)))) maxg) ->
  exists lo', order_apply_combination lo (leaders_of (units_of lo) c) = Ok lo'
    /\ WF lo' /\ Permutation (values lo') (values lo).
Proof. exact stage1_candidates_apply_wf. Qed.
Print Assumptions C08_stage1_candidates_apply_wf.

(* ... and so is every candidate of stage 2 (nan_combinations: the sentinel joins a group or stays alone) *)
Theorem C08_stage2_candidates_apply_wf : forall lo maxg c, WF lo -> In str_nan (keys lo) ->
  let k := List.length (non_missing (keys lo)) in
  In c (nan_combinations (seq 0 k) k maxg) ->
  exists lo', order_apply_combination lo (leaders_of (units_of lo) c) = Ok lo'
    /\ WF lo' /\ Permutation (values lo') (values lo).
Proof. exact stage2_candidates_apply_wf. Qed.
Print Assumptions C08_stage2_candidates_apply_wf.

(* 3c. the grouping kept by carve, whatever the data and configuration: duplicate-free, no empty
   group, unit numbers below the number of non-missing modalities (the missing-value unit itself
   only when dropna and missing values at fit) *)
Theorem C08_carve_kept_grouping_good : forall cf d c, carve cf d = Kept c ->
  let m := List.length (d_train d) in
  (two_stage cf d = false -> good_grouping m c)
  /\ (two_stage cf d = true -> good_grouping (S m) c).
Proof. exact carve_kept_good. Qed.
Print Assumptions C08_carve_kept_grouping_good.

(* 3d. hence carve's Kept result, applied to the label order and written back to a well-formed
   values order with as many non-missing leaders as the crosstab has rows (the sentinel being a
   leader when the crosstab has a missing-value row): no error, well formed, same values, leaders
   = a sub-list of the old leaders, a quantitative scale stays one *)
Theorem C08_carve_kept_order_wf : forall quant g cf fd c, WF g ->
  List.length (d_train fd) = List.length (non_missing (keys g)) ->
  (d_train_nan fd <> None -> In str_nan (keys g)) ->
  carve cf fd = Kept c ->
  exists g', carver_fit_order quant g c = Ok g' /\ WF g' /\ Permutation (values g') (values g)
    /\ (exists D, keys g' = keep_keys D (keys g))
    /\ (quant = true -> quant_keys (keys g) -> quant_keys (keys g')).
Proof. exact carve_kept_order_wf. Qed.
Print Assumptions C08_carve_kept_order_wf.

(* 4. one feature through Discretizer and (optionally) a carver: fit completes with a coherent
   order, or drops the feature, or raises AssertionError (qualitative only), or the float model of
   the quantile search gives up (quantitative only); never any other failure.
   [fit_pipeline], [carver_fit_order] are compositions DEFINED in Proofs/FitEndToEndProofs.v from
   Model/ functions (no Model/ definition of the carver's write-back exists): they are not exercised
   by the correspondence harness. *)
Theorem C08_fit_pipeline_wf_end_to_end : forall i carver,
  input_ok i -> carver_aligned i carver ->
  match fit_pipeline i carver with
  | PFitted g => fitted_ok i g
  | PDropped => is_quant i = false \/ carver <> None
  | PAssert => is_quant i = false
  | PNumeric e => is_quant i = true /\ (e = QFloat \/ e = QIndex)
  | PInternal => False
  end.
Proof. exact fit_pipeline_wf_end_to_end. Qed.
Print Assumptions C08_fit_pipeline_wf_end_to_end.

(* the hypotheses are satisfiable and the pipeline does something: a quantitative feature with
   missing values whose sentinel is grouped by the carver (values_orders as the real code fits it),
   and an ordinal feature with a never-observed value *)
Example C08_end_to_end_nonvacuous :
  let cf := mkCfg 3 (f_of_dyadic 1 (-4)) true Cramerv in
  let fd := mkData [[(0,5);(1,3)]; [(0,2);(1,6)]; [(0,4);(1,4)]]%Z (Some [(0,3);(1,3)]%Z) None None in
  let iq := BQuant (1, -2)%Z 6%Z [(10, 8, 3); (20, 8, 6); (30, 8, 4)]%Z in
  let io := BOrd (1, -3)%Z 6%Z [VStr "a"; VStr "b"; VStr "c"; VStr "z"]
                 [(VStr "a", 8, 3); (VStr "c", 8, 4); (VStr "b", 8, 6)]%Z in
  input_ok iq /\ carver_aligned iq (Some (cf, fd))
  /\ fit_pipeline iq (Some (cf, fd))
     = PFitted (mkGL [VNum 10; VNum 20; VPInf]
                     [(VNum 10, [VNum 10]); (VNum 20, [VNum 20]); (VPInf, [str_nan; VNum 30; VPInf])])
  /\ input_ok io /\ carver_aligned io (Some (cf, fd))
  /\ fit_pipeline io (Some (cf, fd))
     = PFitted (mkGL [VStr "a"; VStr "b"; VStr "c"]
                     [(VStr "a", [VStr "a"]); (VStr "b", [VStr "b"]);
                      (VStr "c", [str_nan; VStr "z"; VStr "c"])]).
Proof.
  cbv zeta. split; [exact I|]. split.
  { intros g Hg. vm_compute in Hg. injection Hg as <-. split; [reflexivity|]. intros _. reflexivity. }
  split; [vm_compute; reflexivity|]. split.
  { split; [apply nodupb_NoDup; vm_compute; reflexivity|]. apply mem_false. vm_compute. reflexivity. }
  split.
  { intros g Hg. vm_compute in Hg. injection Hg as <-. split; [reflexivity|]. intros _. reflexivity. }
  vm_compute. reflexivity.
Qed.

(* 3e. the two-stage path exactly as _get_best_combination runs it (stage-1 winner c1 applied to the
   label order, stage-2 winner c2 applied to the RESULT, then one write-back): carve's two-stage
   Kept result is expand c1 m c2 for such a pair, and that path ends without error in a well-formed
   order with the same values *)
Theorem C08_carve_two_stage_order_wf : forall quant g cf fd c, WF g ->
  List.length (d_train fd) = List.length (non_missing (keys g)) -> In str_nan (keys g) ->
  two_stage cf fd = true -> carve cf fd = Kept c ->
  exists c1 c2, c = expand c1 (List.length (d_train fd)) c2
    /\ stage cf (d_train fd) (d_dev fd) (cands1 cf fd) = Some c1
    /\ In c2 (cands2 cf c1)
    /\ exists g', carver_fit_order2 quant g c1 c2 = Ok g' /\ WF g' /\ Permutation (values g') (values g)
         /\ (quant = true -> quant_keys (keys g) -> quant_keys (keys g')).
Proof. exact carve_two_stage_order_wf. Qed.
Print Assumptions C08_carve_two_stage_order_wf.

(* the sentinel hypothesis of 2b is needed OF THE MODEL: a column holding the literal default
   sentinel gives the model's order a duplicated leader.  (The real code merges such rows into the
   default group silently and stays well formed: this is a limit of the model's domain, not a defect.) *)
Example C08_categorical_sentinel_in_data_model_witness :
  let d := [(str_default, 10, 3); (VStr "a", 10, 5); (VStr "b", 1, 1)]%Z in
  exists st, categorical_fit (1, -3)%Z 0%Z [str_default; VStr "a"; VStr "b"] d = Ok (Some st)
             /\ wf_b (cat_gl st) = false.
Proof. cbv zeta. eexists. split; vm_compute; reflexivity. Qed.
