(* C16 — summary() and history() truthfully describe the fitted object.
   Only statements closed by `exact`.  Model: Model/Summary.v (summary rows of a fitted state,
   history records of the carving search of Model/Carve.v), run against the implementation on
   every check (Model/CheckC16.v); vocabulary: Proofs/TransformSpec.v (coherent, nan_ok, sentinel),
   Proofs/SummaryProofs.v (shown); WF is the invariant of C13; the lookup theorems are C04's. *)
From Coq Require Import ZArith QArith List Sorted Permutation.
From AC.Model Require Import Base GroupedList Labels Transform FormatRule.
From AC.Model Require Import Float Combos Measures Carve CheckC01 Summary CheckC16.
From AC.Proofs Require Import GroupedListSpec TransformSpec HistoryProofs.

(* ---- history ------------------------------------------------------------------------------- *)

(* one stage: the last record flagged viable is exactly the grouping the search returns *)
Theorem C16_history_last_viable : forall cf train dev cands,
  last_viable (stage_history cf train dev cands) = stage cf train dev cands.
Proof. exact history_last_viable. Qed.
Print Assumptions C16_history_last_viable.

(* every candidate of the stage is recorded exactly once, with its association value, by
   decreasing association *)
Theorem C16_history_candidates_once : forall cf train dev cands,
  map proj (stage_history cf train dev cands) = scored cf train cands /\
  Permutation (map h_comb (stage_history cf train dev cands)) cands /\
  (forall r, In r (stage_history cf train dev cands) ->
     h_meas r = measure cf train (total_n train) (h_comb r)) /\
  StronglySorted (fun a b => oq_le (h_meas b) (h_meas a) = true) (stage_history cf train dev cands).
Proof. exact history_candidates_once. Qed.
Print Assumptions C16_history_candidates_once.

(* the records before the first viable candidate are flagged not viable, the ones after it are
   "Not checked"; without viable candidate every candidate was tested and refused *)
Theorem C16_history_shape : forall cf train dev cands,
  match stage cf train dev cands with
  | Some c =>
      exists pre m post,
        scored cf train cands = pre ++ (c, m) :: post /\
        (forall x, In x pre -> viable cf train dev (fst x) = false) /\
        viable cf train dev c = true /\
        stage_history cf train dev cands =
          map flag_false pre ++ mkH c m (Some true) :: map not_checked post
  | None =>
      stage_history cf train dev cands = map flag_false (scored cf train cands) /\
      forall c, In c cands -> viable cf train dev c = false
  end.
Proof. exact history_shape. Qed.
Print Assumptions C16_history_shape.

(* both stages: the last combination flagged viable in the history of a kept feature is the
   fitted grouping (missing values placed by the second stage when dropna) *)
Theorem C16_history_fitted_grouping : forall cf d c,
  carve cf d = Kept c -> last_viable (feature_history cf d) = Some c.
Proof. exact history_fitted_grouping. Qed.
Print Assumptions C16_history_fitted_grouping.

(* raw distribution first, then the first stage, then the placement of missing values *)
Theorem C16_history_layout : forall cf d,
  (1 < List.length (d_train d))%nat ->
  feature_history cf d =
    raw_record cf d ::
    stage_history cf (d_train d) (d_dev d) (stage1_cands cf d) ++
    match stage cf (d_train d) (d_dev d) (stage1_cands cf d) with
    | Some c1 => if two_stage cf d then stage2_history cf d c1 else []
    | None => []
    end.
Proof. exact history_layout. Qed.
Print Assumptions C16_history_layout.

(* non-vacuity: three modalities + missing values, two stages; the history holds the raw
   distribution, 3 + 3 candidates, and its last viable record is the fitted grouping *)
Example C16_history_nonvacuous :
  let cf := mkCfg 3%nat (f_of_dyadic 3602879701896397 (-56)) true Tschuprowt in
  let d := mkData [[(0,30);(1,10)]; [(0,20);(1,20)]; [(0,8);(1,32)]]%Z (Some [(0,5);(1,5)]%Z) None None in
  carve cf d = Kept [[0; 1; 3]; [2]]%nat /\
  map (fun r => (h_comb r, h_viab r)) (feature_history cf d) =
    [([[0]; [1]; [2]; [3]], None);
     ([[0; 1]; [2]], Some true); ([[0]; [1]; [2]], None); ([[0]; [1; 2]], None);
     ([[0; 1; 3]; [2]], Some true); ([[0; 1]; [2; 3]], None); ([[0; 1]; [2]; [3]], None)]%nat.
Proof. cbv zeta. split; vm_compute; reflexivity. Qed.
