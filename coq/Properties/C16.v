(* C16 — summary() and history() truthfully describe the fitted object.
   Only statements closed by `exact`.  Model: Model/Summary.v (summary rows of a fitted state,
   history records of the carving search of Model/Carve.v), run against the implementation on
   every check (Model/CheckC16.v); vocabulary: Proofs/TransformSpec.v (coherent, nan_ok, sentinel),
   Proofs/SummaryProofs.v (shown); WF is the invariant of C13; the lookup theorems are C04's. *)
From Coq Require Import ZArith QArith List Sorted Permutation.
From AC.Model Require Import Base GroupedList Labels Transform FormatRule CheckC04 CheckC05.
From AC.Model Require Import Float Combos Measures Carve CheckC01 Summary CheckC16.
From AC.Proofs Require Import GroupedListSpec TransformSpec CheckC04Proofs SummaryProofs HistoryProofs.

(* ---- summary: qualitative features ------------------------------------------------------------ *)

(* every known non-numeric value (str_default and a hidden NaN sentinel aside) is shown in exactly
   one row, and that row's label is the label transform outputs for the value (C04's lookup) *)
Theorem C16_summary_partition : forall fmt st v,
  coherent fmt st -> st_kind st = Qual -> nan_ok st ->
  In v (values (st_order st)) -> shown st v ->
  exists rows r,
    summary_rows fmt st = Ok rows /\ In r rows /\ In v (r_content r) /\
    (forall r', In r' rows -> In v (r_content r') -> r' = r) /\
    lget v (st_lpv st) = Some (r_label r) /\
    transform_cell st v = Ok (reinstate st (OLab (r_label r))).
Proof. exact summary_partition. Qed.
Print Assumptions C16_summary_partition.

(* nothing else is shown: rows have distinct labels, are not empty, and every value they show is
   a known value that had to be shown, under the label of its group *)
Theorem C16_summary_values_known : forall fmt st rows,
  coherent fmt st -> st_kind st = Qual -> nan_ok st ->
  summary_rows fmt st = Ok rows ->
  NoDup (map r_label rows) /\
  forall r, In r rows ->
    r_content r <> [] /\ NoDup (r_content r) /\
    forall v, In v (r_content r) ->
      In v (values (st_order st)) /\ shown st v /\ lget v (st_lpv st) = Some (r_label r).
Proof. exact summary_values_known. Qed.
Print Assumptions C16_summary_values_known.

(* ---- summary: quantitative features ----------------------------------------------------------- *)

(* one row per fitted group: the summary never fails, its row labels are pairwise distinct and
   are exactly the labels of the groups (a permutation of them when these are distinct, which
   C04_str_labels_distinct / C04_float_labels_distinct establish) *)
Theorem C16_summary_quantitative_rows : forall fmt st,
  coherent fmt st -> st_kind st = Quant -> nan_ok st -> sentinel st ->
  exists rows,
    summary_rows fmt st = Ok rows /\
    NoDup (map r_label rows) /\
    (forall l, In l (map r_label rows) <-> In l (labels_of fmt st)) /\
    (NoDup (labels_of fmt st) ->
       Permutation (map r_label rows) (labels_of fmt st) /\
       List.length rows = List.length (keys (st_order st))).
Proof. exact summary_quantitative_rows. Qed.
Print Assumptions C16_summary_quantitative_rows.

(* what a row shows: the raw ('str') interval labels of the values carrying its label, plus the
   missing-value sentinel in the row of the group that holds it *)
Theorem C16_summary_quantitative_content : forall fmt st rows r c,
  coherent fmt st -> st_kind st = Quant -> nan_ok st -> sentinel st ->
  summary_rows fmt st = Ok rows -> In r rows ->
  (In c (r_content r) <->
     (exists v, lget v (st_lpv st) = Some (r_label r) /\ hidden_nan st v = false /\
                lget v (raw_lpv fmt st) = Some (LVal c))
     \/ (c = st_nan st /\ In (st_nan st) (values (st_order st)) /\
         lget (get_group (st_order st) (st_nan st)) (st_lpv st) = Some (r_label r))).
Proof. exact summary_quantitative_content. Qed.
Print Assumptions C16_summary_quantitative_content.

(* missing values are shown in the row of get_group(str_nan), whose label is the one transform
   gives them when they are kept *)
Theorem C16_summary_nan_row : forall fmt st i k,
  coherent fmt st -> st_kind st = Quant -> nan_ok st -> sentinel st ->
  nth_error (keys (st_order st)) i = Some k -> In (st_nan st) (get (st_order st) k) ->
  get_group (st_order st) (st_nan st) = k /\
  exists rows r l,
    summary_rows fmt st = Ok rows /\ In r rows /\ In (st_nan st) (r_content r) /\
    label_at fmt st i = Some l /\ r_label r = l /\
    transform_cell st VNaN = Ok (if st_dropna st then OLab l else OMissing).
Proof. exact summary_nan_row. Qed.
Print Assumptions C16_summary_nan_row.

(* ... and in no other row (str_nan without space; when it is a leader it is the last one, as in
   every fitted object: otherwise zip(values, labels) misaligns and the statement fails) *)
Theorem C16_summary_nan_row_unique : forall fmt st rows r s,
  coherent fmt st -> st_kind st = Quant -> nan_ok st -> sentinel st ->
  st_nan st = VStr s -> no_space s = true ->
  (In (st_nan st) (keys (st_order st)) -> exists pre, keys (st_order st) = pre ++ [st_nan st]) ->
  summary_rows fmt st = Ok rows -> In r rows -> In (st_nan st) (r_content r) ->
  lget (get_group (st_order st) (st_nan st)) (st_lpv st) = Some (r_label r).
Proof. exact summary_nan_row_unique. Qed.
Print Assumptions C16_summary_nan_row_unique.

(* ---- summary: the object ---------------------------------------------------------------------- *)

(* summary(f) contains rows of f only (after the repair "fix: summary(feature) no longer lists the
   missing-value rows of other quantitative features") *)
Theorem C16_summary_feature_only : forall o f rows,
  summary_obj o (Some f) = Ok rows -> forall r, In r rows -> fst r = f.
Proof. exact summary_feature_only. Qed.
Print Assumptions C16_summary_feature_only.

(* ... exactly the rows of f in summary() *)
Theorem C16_summary_feature_is_filter : forall o f rows all,
  summary_obj o (Some f) = Ok rows -> summary_obj o None = Ok all ->
  rows = filter (fun r => String.eqb (fst r) f) all.
Proof. exact summary_feature_is_filter. Qed.
Print Assumptions C16_summary_feature_is_filter.

(* summary() lists kept features only, each with the rows of its own state *)
Theorem C16_summary_kept_features : forall o all,
  summary_obj o None = Ok all ->
  (forall r, In r all -> exists x, In x o /\ of_name x = fst r) /\
  (forall x rows, In x o -> summary_rows (of_fmt x) (of_state x) = Ok rows ->
     forall r, In r rows -> In (of_name x, r) all).
Proof. exact summary_kept_features. Qed.
Print Assumptions C16_summary_kept_features.

(* a name that is not a kept feature is refused with AssertionError *)
Theorem C16_summary_unknown_feature : forall o f,
  (forall x, In x o -> of_name x <> f) -> summary_obj o (Some f) = AssertErr.
Proof. exact summary_unknown_feature. Qed.
Print Assumptions C16_summary_unknown_feature.

(* non-vacuity: a quantitative feature whose missing values were merged into the last group and a
   qualitative one with a default group; the premises hold and the rows are the expected ones *)
Example C16_summary_nonvacuous :
  let q := mkTCase true Quant [VNum 1; VPInf]
             [(VNum 1, [VNum 1]); (VPInf, [VNum 3; VPInf; VStr "__NAN__"])]
             (VStr "__NAN__") (VStr "__OTHER__") true OFloat
             [[(VNum 1, "1.000e+00"%string)]] 1 [] [] [] (IOk []) in
  let c := mkTCase true Qual [VStr "__OTHER__"; VStr "a"]
             [(VStr "__OTHER__", [VStr "z"; VNum 7; VStr "7"; VStr "__OTHER__"]); (VStr "a", [VStr "a"])]
             (VStr "__NAN__") (VStr "__OTHER__") true OStr [] 1 [] [] [] (IOk []) in
  coherent (t_fmt q) (t_state q) /\ nan_ok (t_state q) /\ sentinel (t_state q) /\
  coherent (t_fmt c) (t_state c) /\ shown (t_state c) (VStr "z") /\
  summary_obj [mkOF "q" (t_fmt q) (t_state q); mkOF "c" (t_fmt c) (t_state c)] None =
    Ok [("q"%string, mkRow (LRank 0) [VStr "x <= 1.000e+00"]);
        ("q"%string, mkRow (LRank 1) [VStr "1.000e+00 < x"; VStr "__NAN__"]);
        ("c"%string, mkRow (LVal (VStr "__OTHER__")) [VStr "z"; VStr "7"]);
        ("c"%string, mkRow (LVal (VStr "a")) [VStr "a"])] /\
  summary_obj [mkOF "q" (t_fmt q) (t_state q); mkOF "c" (t_fmt c) (t_state c)] (Some "c"%string) =
    Ok [("c"%string, mkRow (LVal (VStr "__OTHER__")) [VStr "z"; VStr "7"]);
        ("c"%string, mkRow (LVal (VStr "a")) [VStr "a"])].
Proof.
  cbv zeta.
  split; [apply premises_sound; vm_compute; reflexivity|].
  split; [apply premises_sound; vm_compute; reflexivity|].
  split; [apply premises_sound; vm_compute; reflexivity|].
  split; [apply premises_sound; vm_compute; reflexivity|].
  split.
  - split; [vm_compute; reflexivity|]. split; [discriminate|]. left. reflexivity.
  - split; vm_compute; reflexivity.
Qed.

(* ---- history ------------------------------------------------------------------------------- *)

(* one stage: the last record flagged viable is exactly the grouping the search returns *)
Theorem C16_history_last_viable : forall cf train dev cands,
  last_viable (stage_history cf train dev cands) = stage cf train dev cands.
Proof. exact history_last_viable. Qed.
Print Assumptions C16_history_last_viable.

(* every candidate of the stage is recorded exactly once, with its association value, by
   decreasing association *)
Theorem C16_history_candidates_once : forall cf train dev cands,
  map proj (stage_history cf train dev cands) = scored cf train cands /\
  Permutation (map h_comb (stage_history cf train dev cands)) cands /\
  (forall r, In r (stage_history cf train dev cands) ->
     h_meas r = measure cf train (total_n train) (h_comb r)) /\
  StronglySorted (fun a b => oq_le (h_meas b) (h_meas a) = true) (stage_history cf train dev cands).
Proof. exact history_candidates_once. Qed.
Print Assumptions C16_history_candidates_once.

(* the records before the first viable candidate are flagged not viable, the ones after it are
   "Not checked"; without viable candidate every candidate was tested and refused *)
Theorem C16_history_shape : forall cf train dev cands,
  match stage cf train dev cands with
  | Some c =>
      exists pre m post,
        scored cf train cands = pre ++ (c, m) :: post /\
        (forall x, In x pre -> viable cf train dev (fst x) = false) /\
        viable cf train dev c = true /\
        stage_history cf train dev cands =
          map flag_false pre ++ mkH c m (Some true) :: map not_checked post
  | None =>
      stage_history cf train dev cands = map flag_false (scored cf train cands) /\
      forall c, In c cands -> viable cf train dev c = false
  end.
Proof. exact history_shape. Qed.
Print Assumptions C16_history_shape.

(* both stages: the last combination flagged viable in the history of a kept feature is the
   fitted grouping (missing values placed by the second stage when dropna) *)
Theorem C16_history_fitted_grouping : forall cf d c,
  carve cf d = Kept c -> last_viable (feature_history cf d) = Some c.
Proof. exact history_fitted_grouping. Qed.
Print Assumptions C16_history_fitted_grouping.

(* raw distribution first, then the first stage, then the placement of missing values *)
Theorem C16_history_layout : forall cf d,
  (1 < List.length (d_train d))%nat ->
  feature_history cf d =
    raw_record cf d ::
    stage_history cf (d_train d) (d_dev d) (stage1_cands cf d) ++
    match stage cf (d_train d) (d_dev d) (stage1_cands cf d) with
    | Some c1 => if two_stage cf d then stage2_history cf d c1 else []
    | None => []
    end.
Proof. exact history_layout. Qed.
Print Assumptions C16_history_layout.

(* non-vacuity: three modalities + missing values, two stages; the history holds the raw
   distribution, 3 + 3 candidates, and its last viable record is the fitted grouping *)
Example C16_history_nonvacuous :
  let cf := mkCfg 3%nat (f_of_dyadic 3602879701896397 (-56)) true Tschuprowt in
  let d := mkData [[(0,30);(1,10)]; [(0,20);(1,20)]; [(0,8);(1,32)]]%Z (Some [(0,5);(1,5)]%Z) None None in
  carve cf d = Kept [[0; 1; 3]; [2]]%nat /\
  map (fun r => (h_comb r, h_viab r)) (feature_history cf d) =
    [([[0]; [1]; [2]; [3]], None);
     ([[0; 1]; [2]], Some true); ([[0]; [1]; [2]], None); ([[0]; [1; 2]], None);
     ([[0; 1; 3]; [2]], Some true); ([[0; 1]; [2; 3]], None); ([[0; 1]; [2]; [3]], None)]%nat.
Proof. cbv zeta. split; vm_compute; reflexivity. Qed.
