(* C03 — grouping preserves each feature's order (contiguity, monotone transform), on the models
   of the base discretization (Model/Ordinal.v, Quantiles.v), of the carving enumeration
   (Model/Combos.v, Carve.v) and of transform (Model/Transform.v). *)
From Coq Require Import ZArith List Sorted Permutation.
Import ListNotations.
From AC.Model Require Import Base Float GroupedList Labels Transform Combos Measures Carve Ordinal Quantiles CheckC01 CheckC03.
From AC.Proofs Require Import GroupedListSpec TransformSpec TransformProofs DiscretizeProofs CombosProofs CarveProofs CheckC03Proofs.

(* (1) base buckets: the rare-bucket merging loop (ordinal features with min_freq, quantile
   buckets with min_freq/2) only ever merges NEIGHBOURS, so every bucket stays a contiguous run of
   the initial ranking - whatever the sample, the ranking and min_freq *)
Theorem C03_base_buckets_are_contiguous_runs : forall n m bs bs' init,
  contiguous init bs -> find_common_modalities n m bs = Ok bs' -> contiguous init bs'.
Proof. exact contiguous_base. Qed.
Print Assumptions C03_base_buckets_are_contiguous_runs.

Theorem C03_ordinal_fit_contiguous : forall n m d order,
  exists bs', find_common_modalities n m (map (init_bucket d) order) = Ok bs'
    /\ Permutation (members bs') order /\ contiguous order bs'.
Proof.
  intros n m d order. destruct (ordinal_buckets n m d order) as (bs' & H1 & _ & _ & _ & H5 & H6).
  exists bs'. repeat split; assumption.
Qed.
Print Assumptions C03_ordinal_fit_contiguous.

(* (2) carved groups: only order-contiguous groupings are ever enumerated, and the kept grouping
   is one of them: read in order, its groups are the modalities 0..m-1 cut into non-empty runs *)
Theorem C03_only_contiguous_groupings_enumerated : forall (A : Type) (l : list A) k c,
  In c (consecutive_combinations l k) -> List.concat c = l /\ Forall (fun g => g <> []) c.
Proof. intros A l k c H. apply compositions_spec in H. tauto. Qed.
Print Assumptions C03_only_contiguous_groupings_enumerated.

Theorem C03_carved_groups_are_contiguous_runs : forall cf d c, two_stage cf d = false -> carve cf d = Kept c ->
  List.concat c = seq 0 (List.length (d_train d)) /\ Forall (fun g => g <> []) c.
Proof. intros cf d c H1 H2. destruct (carve_kept_one_stage cf d c H1 H2) as (Ha & Hb & _). split; assumption. Qed.
Print Assumptions C03_carved_groups_are_contiguous_runs.

(* with missing values grouped: a contiguous grouping of the stage-1 groups, the missing-value unit
   added at the end of one group or alone at the end *)
Theorem C03_nan_placement_keeps_contiguity : forall (A : Type) (l : list A) nan k c,
  In c (nan_combinations l nan k) ->
  exists c0, (List.concat c0 = l /\ Forall (fun g => g <> []) c0) /\
    ((exists i, (i < List.length c0)%nat /\ c = add_to_nth i nan c0) \/ c = (c0 ++ [[nan]])%list).
Proof.
  intros A l nan k c H. apply nan_combinations_spec in H. destruct H as (c0 & Hc0 & Hor).
  exists c0. split; [apply compositions_spec in Hc0; tauto|]. destruct Hor as [H|[_ H]]; [left|right]; exact H.
Qed.
Print Assumptions C03_nan_placement_keeps_contiguity.

(* (3) quantile boundaries are strictly increasing observed values, then +inf *)
Theorem C03_quantile_leaders_strictly_increasing : forall q len_df vc l,
  find_quantiles_v true q len_df vc = QOk l -> Sorted Z.lt l.
Proof. intros q len_df vc l H. destruct (find_quantiles_spec true q len_df vc l H) as (_ & _ & _ & Hs & _). auto. Qed.
Print Assumptions C03_quantile_leaders_strictly_increasing.

(* (4) with output_dtype='float' transform is a non-decreasing step function of a quantitative
   value over the WHOLE carrier (every dyadic number and +-inf, not only training values) *)
Theorem C03_transform_monotone : forall fmt st x x',
  coherent fmt st -> nan_ok st -> sentinel st -> st_kind st = Quant -> st_odt st = OFloat ->
  nan_separate st ->
  is_num x = true -> is_num x' = true -> num_le x x' = true ->
  exists i i', transform_cell st x = Ok (OLab (LRank i)) /\
               transform_cell st x' = Ok (OLab (LRank i')) /\ (i <= i')%nat.
Proof. exact transform_monotone. Qed.
Print Assumptions C03_transform_monotone.

(* right-closed intervals, the last one unbounded: x gets the label of the first leader >= x *)
Theorem C03_transform_right_closed_intervals : forall fmt st zs x pre l post i,
  coherent fmt st -> nan_ok st -> st_kind st = Quant ->
  quant_leaders st = (map VNum zs ++ [VPInf])%list -> StronglySorted Z.lt zs ->
  is_num x = true ->
  quant_leaders st = (pre ++ l :: post)%list ->
  (forall p, nth_error pre (List.length pre - 1) = Some p -> num_le x p = false) ->
  num_le x l = true ->
  nth_error (keys (st_order st)) i = Some l ->
  exists lab, label_at fmt st i = Some lab /\ transform_cell st x = Ok (reinstate st (OLab lab)).
Proof. exact transform_interval. Qed.
Print Assumptions C03_transform_right_closed_intervals.

(* the booleans evaluated at run time on the IMPLEMENTATION's fitted groups and probe outputs *)
Theorem C03_checker_sound :
  (forall m groups, contiguous_b m groups = true <->
     (List.concat groups = seq 0 m /\ Forall (fun g => g <> []) groups)) /\
  (forall ps, monotone_b ps = true <-> Sorted mono_pair ps).
Proof. split; [exact contiguous_b_spec|exact monotone_b_spec]. Qed.
Print Assumptions C03_checker_sound.

Example C03_nonvacuous :
  contiguous_b 4 [[0%nat; 1%nat]; [2%nat]; [3%nat]] = true /\ contiguous_b 4 [[0%nat; 2%nat]; [1%nat]; [3%nat]] = false /\
  monotone_b [(1, 0); (5, 0); (6, 1)]%Z = true /\ monotone_b [(1, 1); (5, 0)]%Z = false.
Proof. vm_compute. repeat split. Qed.

(* categorical modalities: the fitted leaders are in training target-rate order (NaN rates last, the
   missing-value sentinel last of all): the comparator of the sort is a total preorder on ALL binary64
   values, so the sorted list is globally ordered, whatever the sample *)
From AC.Model Require Import Categorical.
From AC.Proofs Require Import CategoricalOrderProofs.
Theorem C03_categorical_leaders_in_target_rate_order : forall mf nan_cnt order d st,
  categorical_fit mf nan_cnt order d = Ok (Some st) ->
  cs_keys st = (map fst (cs_rates st) ++ (if (0 <? nan_cnt)%Z then [Quantiles.str_nan] else []))%list /\
  cs_rates st = sort_rates (cat_training_rates mf nan_cnt order d) /\
  Sorted rate_le (cs_rates st) /\
  Permutation (cs_rates st) (cat_training_rates mf nan_cnt order d).
Proof. exact categorical_leaders_in_rate_order. Qed.
Print Assumptions C03_categorical_leaders_in_target_rate_order.

Theorem C03_rate_order_is_global : forall l, StronglySorted rate_le (sort_rates l).
Proof. exact sort_rates_strongly_sorted. Qed.
Print Assumptions C03_rate_order_is_global.
