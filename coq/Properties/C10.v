(* C10 — features are processed independently; parallel equals sequential (logic part).
   Model/Pipeline.v: assembly of pool results in any completion order, and the per-feature
   carving loop over a shared state in any iteration order.  The part of C10 that lives in the
   runtime (real OS scheduling of multiprocessing.Pool, hash-seed dependent set order) is
   exercised by the correspondence check on paired real fits; see DESIGN.md (partial). *)
From Coq Require Import List String Permutation.
Import ListNotations.
From AC.Model Require Import Pipeline.
From AC.Proofs Require Import PipelineProofs.

(* EVERY worker completion order assembles the same per-feature results *)
Theorem C10_assembly_any_completion_order : forall (E : Type) (init : @smap E) results results',
  NoDup (map fst results) -> Permutation results results' ->
  forall g, slookup g (assemble init results) = slookup g (assemble init results').
Proof. exact @assembly_perm. Qed.
Print Assumptions C10_assembly_any_completion_order.

(* a feature's assembled entry is its own result, whatever the co-features *)
Theorem C10_assembly_feature_independent : forall (E : Type) (init : @smap E) results g e,
  NoDup (map fst results) -> In (g, e) results -> slookup g (assemble init results) = Some e.
Proof. exact @assembly_feature_independent. Qed.
Print Assumptions C10_assembly_feature_independent.

(* the carving loop: any iteration order of the features gives the same fitted entries *)
Theorem C10_loop_order_independent : forall (E : Type) (step : string -> E -> option E) fs fs' (st : @smap E),
  NoDup fs -> NoDup (skeys st) -> Permutation fs fs' ->
  forall g, slookup g (carve_loop step fs st) = slookup g (carve_loop step fs' st).
Proof. exact @loop_order_independent. Qed.
Print Assumptions C10_loop_order_independent.

(* ... and fitting f alone gives the same entry as fitting it alongside any other features *)
Theorem C10_cofeatures_irrelevant : forall (E : Type) (step : string -> E -> option E) fs (st : @smap E) f,
  NoDup fs -> NoDup (skeys st) -> In f fs ->
  slookup f (carve_loop step fs st) = slookup f (carve_loop step [f] st).
Proof. exact @loop_cofeatures_irrelevant. Qed.
Print Assumptions C10_cofeatures_irrelevant.

Open Scope string_scope.
Example C10_nonvacuous :
  let step := fun (f : string) (e : nat) => if Nat.eqb e 0 then None else Some (e + 1) in
  let st := [("a", 1); ("b", 0); ("c", 5)] in
  carve_loop step ["c"; "a"; "b"] st = [("a", 2); ("c", 6)] /\
  slookup "c" (carve_loop step ["b"; "c"; "a"] st) = slookup "c" (carve_loop step ["c"] st).
Proof. vm_compute. split; reflexivity. Qed.
