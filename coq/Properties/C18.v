(* C18 — ChainedDiscretizer merges rare values only along the supplied hierarchy.
   Only statements closed by `exact`; the executable model is Model/Chained.v (run against the
   Python class on every check), definitions used below:
     fit levels col (m,e) drop : res outcome     the model of __init__ + fit (one feature)
     init levels = Ok c                          c_levels c : the levels as GroupedLists,
                                                 c_known c  : known_values
     fitted levels col mfd drop c g lpv          levels are Python dicts (unique keys), no level
                                                 contains NaN or "__NAN__", and fit returned the
                                                 order g with its value -> label map lpv
     content_map g                               the observable value -> leader map
     get_group lv v                              parent of v at level lv (v itself when no member)
     climbs lvs v a                              a is reached from v by parent maps of an
                                                 increasing choice of levels (ancestor-or-self)
     keepb mf n col v                            0 < count v col /\ fl(count/n) >= mf, or v = "__NAN__"
     lead mf n all col0 lvs L0                   the level-by-level leader function (DESIGN A.7)
   No bound on depth, width or number of rows anywhere. *)
From Coq Require Import SpecFloat.
From AC.Model Require Import Base Float GroupedList Chained CheckC18.
From AC.Proofs Require Import BaseLemmas GroupedListSpec ChainedProofs.

(* every value of every level is known, and every known value is still in values() after fit,
   i.e. in the domain of the value -> leader map *)
Theorem C18_known_kept : forall levels col mfd drop c g lpv,
  fitted levels col mfd drop c g lpv ->
  (forall lv v, In lv (c_levels c) -> In v (values lv) -> In v (c_known c)) /\
  (forall v, In v (c_known c) ->
     In v (values g) /\ aget v (content_map g) = Some (get_group g v)).
Proof. exact chained_known_kept. Qed.
Print Assumptions C18_known_kept.

(* the fitted map IS the level-by-level rule: at each level, bottom-up, a member of the level
   whose current mass (training rows currently led by it, frequencies recomputed on the rewritten
   column) is rarer than min_freq hands everything it leads to its group leader in that level *)
Theorem C18_refines_level_rule : forall levels col mfd drop c g lpv,
  fitted levels col mfd drop c g lpv ->
  forall x, In x (values g) ->
  aget x (content_map g) =
  Some (lead (f_of_dyadic (fst mfd) (snd mfd)) (Z.of_nat (List.length col)) (c_levels c) (fillna col)
             (c_levels c) (lead0 (unknown_values (c_known c) (fillna col))) x).
Proof. exact chained_refines_rule. Qed.
Print Assumptions C18_refines_level_rule.

(* leaders only ever move to ancestors *)
Theorem C18_leader_is_ancestor_or_self : forall levels col mfd drop c g lpv,
  fitted levels col mfd drop c g lpv ->
  forall x, In x (c_known c) -> climbs (c_levels c) x (get_group g x).
Proof. exact leader_is_ancestor_or_self. Qed.
Print Assumptions C18_leader_is_ancestor_or_self.

(* a value that is a proper member at level lv only (own leader below, absent above) keeps its
   own modality iff fl(mass/n) >= min_freq at that level, mass = rows led by it at that point *)
Theorem C18_rule_stays_iff_frequent : forall levels col mfd drop c g lpv pre lv post x,
  fitted levels col mfd drop c g lpv ->
  c_levels c = pre ++ lv :: post -> In x (c_known c) ->
  (forall lv', In lv' pre -> In x (values lv') -> get_group lv' x = x) ->
  (forall lv', In lv' post -> ~ In x (values lv')) ->
  let mf := f_of_dyadic (fst mfd) (snd mfd) in
  let n := Z.of_nat (List.length col) in
  let Lk := lead mf n (c_levels c) (fillna col) pre (lead0 (unknown_values (c_known c) (fillna col))) in
  (get_group g x = x <->
   (~ In x (values lv) \/ get_group lv x = x \/
    keepb mf n (map (cur (c_levels c) Lk) (fillna col)) x = true)).
Proof. exact chained_rule_level. Qed.
Print Assumptions C18_rule_stays_iff_frequent.

(* bottom level, in terms of the raw training column: own modality iff frequent (or group leader) *)
Theorem C18_rule_bottom_value : forall levels col mfd drop c g lpv lv0 post x,
  fitted levels col mfd drop c g lpv ->
  c_levels c = lv0 :: post -> In x (values lv0) ->
  (forall lv', In lv' post -> ~ In x (values lv')) ->
  (get_group g x = x <->
   (get_group lv0 x = x \/
    keepb (f_of_dyadic (fst mfd) (snd mfd)) (Z.of_nat (List.length col)) (fillna col) x = true)).
Proof. exact chained_rule_bottom. Qed.
Print Assumptions C18_rule_bottom_value.

(* an (ancestor) group whose merged mass is still rare at its level is merged further up *)
Theorem C18_rare_group_merged_further_up : forall levels col mfd drop c g lpv pre lv post x,
  fitted levels col mfd drop c g lpv ->
  c_levels c = pre ++ lv :: post ->
  let mf := f_of_dyadic (fst mfd) (snd mfd) in
  let n := Z.of_nat (List.length col) in
  let L0 := lead0 (unknown_values (c_known c) (fillna col)) in
  let Lk := lead mf n (c_levels c) (fillna col) pre L0 in
  In (Lk x) (values lv) ->
  keepb mf n (map (cur (c_levels c) Lk) (fillna col)) (Lk x) = false ->
  lead mf n (c_levels c) (fillna col) (pre ++ [lv]) L0 x = get_group lv (Lk x) /\
  climbs post (get_group lv (Lk x)) (get_group g x).
Proof. exact rare_group_merged_further_up. Qed.
Print Assumptions C18_rare_group_merged_further_up.

(* unknown values, policy 'raise': AssertionError *)
Theorem C18_unknown_raise : forall levels col mfd c,
  init levels = Ok c ->
  feature_dropped (f_of_dyadic (fst mfd) (snd mfd)) col = false ->
  unknown_values (c_known c) (fillna col) <> [] ->
  fit levels col mfd false = AssertErr.
Proof. exact chained_unknown_raise. Qed.
Print Assumptions C18_unknown_raise.

(* a fitted object saw unknown values only under 'drop'; each of them, and the missing-value
   sentinel, is led by "__NAN__" *)
Theorem C18_unknown_drop : forall levels col mfd drop c g lpv,
  fitted levels col mfd drop c g lpv ->
  (unknown_values (c_known c) (fillna col) <> [] -> drop = true) /\
  (forall u, In u (unknown_values (c_known c) (fillna col)) ->
     In u (values g) /\ aget u (content_map g) = Some nan_s) /\
  (In nan_s (fillna col) -> aget nan_s (content_map g) = Some nan_s).
Proof. exact chained_unknown_drop. Qed.
Print Assumptions C18_unknown_drop.

(* transform: every cell must have a leader and is replaced by a lookup in the fitted map *)
Theorem C18_transform_is_lookup : forall g lpv col out, transform g lpv col = Ok out ->
  (forall r, In r (fillna col) -> In r (values g)) /\
  out = map (fun r =>
               let l := match aget r lpv with Some l => l | None => r end in
               match aget nan_s lpv with
               | Some ln => if val_eqb l ln then VNaN else l
               | None => l
               end) (fillna col).
Proof. exact chained_transform_lookup. Qed.
Print Assumptions C18_transform_is_lookup.

(* transform outputs each value's group leader ("__NAN__" shown as NaN), for ANY frame whose cells
   all have a leader; other frames are refused *)
Theorem C18_transform_is_leader : forall levels col mfd drop c g lpv col' out,
  fitted levels col mfd drop c g lpv ->
  transform g lpv col' = Ok out ->
  (forall r, In r (fillna col') -> In r (values g)) /\
  out = map (fun r => if val_eqb (get_group g r) nan_s then VNaN else get_group g r) (fillna col').
Proof. exact chained_transform_leader. Qed.
Print Assumptions C18_transform_is_leader.

(* the checker's ancestor test (evaluated on the IMPLEMENTATION's map) is the ancestor relation *)
Theorem C18_checker_ancestor_sound : forall lvs v a, climbsb lvs v a = true <-> climbs lvs v a.
Proof. exact climbsb_spec. Qed.
Print Assumptions C18_checker_ancestor_sound.

(* hypotheses are satisfiable: a concrete 2-level hierarchy, NaN rows, two unknown values *)
Example C18_nonvacuous :
  exists c g lpv, fitted ex_levels ex_col ex_mf true c g lpv /\
    aget (VStr "Low-") (content_map g) = Some (VStr "All") /\
    aget (VStr "Low") (content_map g) = Some (VStr "Low") /\
    aget (VStr "High-") (content_map g) = Some (VStr "Highs") /\
    aget (VStr "u2") (content_map g) = Some nan_s.
Proof. exact chained_example. Qed.
