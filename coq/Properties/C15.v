(* C15 — Feature selection is invariant under re-encodings that keep the information.
   Only statements closed by `exact`.  Model: Model/Selector.v (selection logic as a function of
   the measure / association tables) and the rank statistics of Model/CheckC15.v.  The metamorphic
   pairs themselves run on the real selectors in harness/props/c15.py. *)
From Coq Require Import Permutation.
From AC.Model Require Import Base Selector CheckC14 CheckC15.
From AC.Proofs Require Import SelectorProofs.

(* the selection depends on the features only through their measure keys and pairwise
   associations: any consistent renaming / re-encoding phi of the features (renamed columns,
   renamed categories, rescaled values ... anything that leaves the tables unchanged) commutes
   with the selection, order included *)
Theorem C15_select_equivariant :
  forall (A B : Type) (phi : A -> B) ideqA ideqB keyA keyB badsA badsB nbest cols comp,
  (forall a b, ideqB (phi a) (phi b) = ideqA a b) ->
  (forall a j, keyB (phi a) j = keyA a j) ->
  Forall2 (bads_rel phi) badsA badsB ->
  select_core ideqB keyB badsB nbest cols (map phi comp)
  = map phi (select_core ideqA keyA badsA nbest cols comp).
Proof. exact (@select_core_map). Qed.
Print Assumptions C15_select_equivariant.

(* permuting the columns (input order of the features) does not change the selection when no
   ranking measure is exactly tied *)
Theorem C15_select_input_order_irrelevant :
  forall (A : Type) (ideq : A -> A -> bool) keyf bads nbest cols comp comp',
  Permutation comp comp' ->
  (forall j a b, In j cols -> In a comp -> In b comp -> keyf a j = keyf b j -> a = b) ->
  select_core ideq keyf bads nbest cols comp = select_core ideq keyf bads nbest cols comp'.
Proof. exact (@select_core_perm). Qed.
Print Assumptions C15_select_input_order_irrelevant.

(* the (twice mid-)rank vector and the tie counts are invariant under strictly increasing maps *)
Theorem C15_ranks_monotone :
  forall phi xs, increasing phi ->
  ranks2 (map phi xs) = ranks2 xs /\ tie_counts (map phi xs) = tie_counts xs.
Proof. exact ranks_monotone. Qed.
Print Assumptions C15_ranks_monotone.

(* strictly decreasing maps (negation) reflect the ranks: r -> 2n + 2 - r *)
Theorem C15_ranks_antitone :
  forall psi xs, decreasing psi ->
  ranks2 (map psi xs) = map (fun r => 2 * Z.of_nat (List.length xs) + 2 - r) (ranks2 xs)
  /\ tie_counts (map psi xs) = tie_counts xs.
Proof. exact ranks_antitone. Qed.
Print Assumptions C15_ranks_antitone.

(* hence Kruskal-Wallis H (sufficient statistics: rank sums, group sizes, tie counts) and
   Spearman's rho (Pearson on ranks) are invariant under strictly increasing re-encodings *)
Theorem C15_kruskal_spearman_monotone_invariant :
  forall phi xs ys lab groups, increasing phi ->
  kruskal_stat (map phi xs) lab groups = kruskal_stat xs lab groups
  /\ spearman_stat (map phi xs) ys = spearman_stat xs ys
  /\ spearman_stat ys (map phi xs) = spearman_stat ys xs.
Proof. exact kruskal_spearman_monotone. Qed.
Print Assumptions C15_kruskal_spearman_monotone_invariant.

(* negation: the covariance of the ranks changes sign, the variances do not, so |rho| (the
   quantity the spearman filter thresholds) is unchanged *)
Theorem C15_spearman_abs_neg :
  forall psi xs ys, decreasing psi -> List.length xs = List.length ys ->
  spearman_stat (map psi xs) ys = (let '(cv, vx, vy) := spearman_stat xs ys in (- cv, vx, vy)).
Proof. exact spearman_negation. Qed.
Print Assumptions C15_spearman_abs_neg.

(* NOT closed (covered by the metamorphic runs only): kruskal_neg — H is unchanged by negation:
     forall psi xs lab groups, decreasing psi -> H (kruskal_stat (map psi xs) lab groups) = H (kruskal_stat xs lab groups)
   needs  sum_g R_g = n (n + 1) / 2  and the algebra of  sum_g (n_g (n + 1) - R_g)^2 / n_g ;
   and "a copy of the target has the maximal H / T": needs the extremal properties of H and chi2. *)

(* "an exact copy of the target is always returned" is FALSE of the faithful model of
   RegressionSelector's default measure: the copy has r = 1, distance 0.0, falsy, NaN, dropped *)
Theorem C15_regression_copy_refuted :
  exists t, t_nbest t = 1%nat /\ map f_spec (t_feats t) = [[Some 1]] /\ select_type t = Ok [].
Proof. exact regression_copy_dropped. Qed.
Print Assumptions C15_regression_copy_refuted.

(* "negating a feature does not change the selection" is FALSE of the same model: 1 - r ranks
   anti-correlated features first *)
Theorem C15_regression_negation_refuted :
  select_type (neg_witness (100 - 81)) = Ok [1%nat; 0%nat] /\
  select_type (neg_witness (100 + 81)) = Ok [0%nat; 1%nat] /\
  map f_spec (t_feats (neg_witness (100 - 81))) = map f_spec (t_feats (neg_witness (100 + 81))).
Proof. exact regression_negation_changes_order. Qed.
Print Assumptions C15_regression_negation_refuted.

(* hypotheses are satisfiable *)
Example C15_nonvacuous :
  increasing (fun x => 3 * x + 1) /\ decreasing (fun x => - x) /\
  ranks2 (map (fun x => 3 * x + 1) [5; 1; 5; 2]) = [7; 2; 7; 4] /\
  ranks2 (map (fun x => - x) [5; 1; 5; 2]) = [3; 8; 3; 6].
Proof.
  split; [intros a b H; Lia.lia|]. split; [intros a b H; Lia.lia|].
  split; vm_compute; reflexivity.
Qed.

(* Kruskal-Wallis H is invariant under NEGATION (any strictly decreasing re-encoding) of the feature:
   every sample size, any ties, any number of groups (labels/groups a well-formed partition) *)
From AC.Proofs Require Import KruskalNegProofs.
Theorem C15_kruskal_invariant_under_negation : forall (psi : Z -> Z) (xs : list Z) (lab groups : list nat),
  SelectorProofs.decreasing psi -> List.length lab = List.length xs -> NoDup groups -> incl lab groups ->
  kruskal_H (CheckC15.kruskal_stat (map psi xs) lab groups) = kruskal_H (CheckC15.kruskal_stat xs lab groups).
Proof. exact kruskal_neg. Qed.
Print Assumptions C15_kruskal_invariant_under_negation.

(* colsample < 1: whatever the shuffled feature list, the number of features per sample and the
   number of samples, the samples (k - 1 slices, the last one takes all the rest) are a partition
   of the list: concatenated they give back the list, so every feature is measured in exactly one
   sample (the list has no duplicates) *)
Theorem C15_colsample_samples_partition :
  forall (A : Type) (chunks k : nat) (l : list A),
  List.concat (col_samples chunks k l) = l /\ List.length (col_samples chunks k l) = S (k - 1).
Proof. exact (fun A c k l => conj (col_samples_partition c k l) (col_samples_count c k l)). Qed.
Print Assumptions C15_colsample_samples_partition.

(* ------------------------------------------------------------------------------------------
   Last clause of C15 (a feature that is an exact copy of, or strictly monotone in, the target is
   always among the returned features of its type), on the model.
   Measures.kruskal = scipy.stats.kruskal (mid-ranks, tie correction), exact, one multiset of
   (feature value, multiplicity) per target class.
   ------------------------------------------------------------------------------------------ *)
From Coq Require Import QArith.
From AC.Model Require Measures.
From AC.Proofs Require Import KruskalBoundProofs CopyRankedProofs Chi2BoundProofs.

(* Kruskal-Wallis H never exceeds N - 1 (N = number of rows): any number of classes, any ties *)
Theorem C15_kruskal_upper_bound :
  forall (groups : list Measures.ymset) (h : Q),
  Forall (Forall (fun e : Z * Z => (0 < snd e)%Z)) groups ->
  Measures.kruskal groups = Some h ->
  (h <= inject_Z (Measures.ms_n (Measures.ms_union groups) - 1))%Q.
Proof. exact kruskal_upper_bound. Qed.
Print Assumptions C15_kruskal_upper_bound.

(* a feature that takes one value per class, different classes having different values (an exact
   copy of the class target or any injective, in particular strictly monotone, re-encoding of it;
   at least two classes): H is defined, equals N - 1, and no feature measured on the same rows or
   on a subset of them (missing values) has a larger H *)
Theorem C15_kruskal_perfect_feature_is_maximal :
  forall (vs : list Z) (groups : list Measures.ymset),
  Forall2 (fun v g => g <> []%list /\ Forall (fun e : Z * Z => fst e = v /\ (0 < snd e)%Z) g) vs groups ->
  NoDup vs -> (2 <= List.length groups)%nat ->
  exists h, Measures.kruskal groups = Some h
    /\ (h == inject_Z (Measures.ms_n (Measures.ms_union groups) - 1))%Q
    /\ forall groups' h',
         Forall (Forall (fun e : Z * Z => (0 < snd e)%Z)) groups' ->
         Measures.kruskal groups' = Some h' ->
         (Measures.ms_n (Measures.ms_union groups') <= Measures.ms_n (Measures.ms_union groups))%Z ->
         (h' <= h)%Q.
Proof. exact kruskal_perfect_is_maximal. Qed.
Print Assumptions C15_kruskal_perfect_feature_is_maximal.

(* selection model, any ranking measure: when a complete feature x carries the maximal key of
   ranking column j, a feature with that key is returned (n_best >= 1, whatever the filters) *)
Theorem C15_top_key_returned :
  forall t rows j x,
  NoDup (map rid rows) -> In j (cols_of t rows) -> In x (comp_of t rows) ->
  (forall y, In y (comp_of t rows) -> (key y j <= key x j)%Z) -> (1 <= t_nbest t)%nat ->
  exists y, In y (core_of t rows) /\ key y j = key x j.
Proof. exact select_type_top. Qed.
Print Assumptions C15_top_key_returned.

(* the copy of the target under kruskal_measure: column j holds H of every complete feature y
   (grp y = its class-wise value multisets on its non-missing rows, a subset of the rows of x) on
   a common integer scale den; x is single-valued per class with distinct values.  Then x has the
   maximal key, a feature with that key is returned, and x itself is returned unless another
   complete feature is exactly tied with it *)
Theorem C15_copy_of_target_ranked_first :
  forall t rows j x (grp : row -> list Measures.ymset) (den : Z) (vs : list Z),
  NoDup (map rid rows) -> In j (cols_of t rows) -> In x (comp_of t rows) -> (1 <= t_nbest t)%nat ->
  (0 < den)%Z ->
  (forall y, In y (comp_of t rows) ->
     Forall (Forall (fun e : Z * Z => (0 < snd e)%Z)) (grp y) /\
     (Measures.ms_n (Measures.ms_union (grp y)) <= Measures.ms_n (Measures.ms_union (grp x)))%Z /\
     exists h, Measures.kruskal (grp y) = Some h /\ (inject_Z (key y j) == h * inject_Z den)%Q) ->
  Forall2 (fun v g => g <> []%list /\ Forall (fun e : Z * Z => fst e = v /\ (0 < snd e)%Z) g) vs (grp x) ->
  NoDup vs -> (2 <= List.length (grp x))%nat ->
  (forall y, In y (comp_of t rows) -> (key y j <= key x j)%Z)
  /\ (exists y, In y (core_of t rows) /\ key y j = key x j)
  /\ ((forall y, In y (comp_of t rows) -> y <> x -> key y j <> key x j) -> In x (core_of t rows)).
Proof. exact copy_of_target_ranked_first. Qed.
Print Assumptions C15_copy_of_target_ranked_first.

(* the proviso "no exact tie" cannot be dropped: "always among the returned features" is FALSE of
   the model when two features carry the maximal key (two copies of the target) and n_best = 1 *)
Theorem C15_copy_of_target_tie_refuted :
  exists t rows x j,
    table_of t = Ok rows /\ In x (comp_of t rows) /\ In j (cols_of t rows) /\ (1 <= t_nbest t)%nat /\
    (forall y, In y (comp_of t rows) -> (key y j <= key x j)%Z) /\
    select_type t = Ok [0%nat] /\ rid x = 1%nat.
Proof. exact top_tie_not_returned. Qed.
Print Assumptions C15_copy_of_target_tie_refuted.

(* chi2 family, binary target (k x 2 table, non-negative counts, no empty row): chi2 <= n with or
   without Yates' correction, hence Cramer's V^2 = chi2 / n_obs <= 1 *)
Theorem C15_chi2_upper_bound :
  forall (rows : list (Z * Z)) (c : Q),
  Forall (fun r : Z * Z => (0 <= fst r)%Z /\ (0 <= snd r)%Z /\ (0 < fst r + snd r)%Z) rows ->
  Measures.chi2 rows = Some c -> (c <= inject_Z (col0 rows + col1 rows))%Q.
Proof. exact chi2_upper_bound. Qed.
Print Assumptions C15_chi2_upper_bound.

Theorem C15_cramerv2_upper_bound :
  forall (rows : list (Z * Z)) (n_obs : Z) (v : Q),
  Forall (fun r : Z * Z => (0 <= fst r)%Z /\ (0 <= snd r)%Z /\ (0 < fst r + snd r)%Z) rows ->
  (col0 rows + col1 rows <= n_obs)%Z -> Measures.cramerv2 rows n_obs = Some v -> (v <= 1)%Q.
Proof. exact cramerv2_le_one. Qed.
Print Assumptions C15_cramerv2_upper_bound.

(* a qualitative feature that determines the class (every row of the table has an empty cell,
   both classes occur) with k <> 2 categories reaches the maximum V^2 = 1 *)
Theorem C15_cramerv2_perfect_feature_is_maximal :
  forall (rows : list (Z * Z)),
  Forall (fun r : Z * Z => (0 <= fst r)%Z /\ (0 <= snd r)%Z /\ (0 < fst r + snd r)%Z) rows ->
  Forall (fun r : Z * Z => (fst r * snd r = 0)%Z) rows ->
  (0 < col0 rows)%Z -> (0 < col1 rows)%Z -> List.length rows <> 2%nat ->
  exists v, Measures.cramerv2 rows (col0 rows + col1 rows) = Some v /\ (v == 1)%Q.
Proof. exact cramerv2_perfect. Qed.
Print Assumptions C15_cramerv2_perfect_feature_is_maximal.

(* ... but the exact copy of a BINARY target is a 2 x 2 table: scipy applies Yates' correction,
   the copy does not reach the maximum and a 3-category feature nested in the classes is ranked
   before it by Cramer's V (always) and by Tschuprow's T (on this 12-row sample): the clause is
   FALSE of the faithful model for qualitative features with n_best = 1 *)
Theorem C15_qualitative_copy_of_binary_target_refuted :
  Measures.cramerv2 [(6, 0); (0, 6)]%Z 12 = Some (25 # 36)%Q /\
  Measures.cramerv2 [(6, 0); (0, 3); (0, 3)]%Z 12 = Some 1%Q /\
  Measures.tschuprowt4 [(6, 0); (0, 6)]%Z 12 = Some (625 # 1296)%Q /\
  Measures.tschuprowt4 [(6, 0); (0, 3); (0, 3)]%Z 12 = Some (1 # 2)%Q /\
  (625 # 1296 < 1 # 2)%Q.
Proof. exact copy_not_maximal. Qed.
Print Assumptions C15_qualitative_copy_of_binary_target_refuted.

(* the hypotheses are satisfiable: 9 rows, classes of sizes 3, 2, 4; feature 0 is a re-encoding
   of the class (H = 8 = N - 1), feature 1 has H = 16/3; keys on the scale den = 3 *)
Example C15_copy_nonvacuous :
  let gx := [[(1, 3)]; [(5, 2)]; [(2, 4)]]%Z in
  let gy := [[(1, 2); (2, 1)]; [(2, 2)]; [(1, 4)]]%Z in
  let t := mkTin 9 (999, 1000)%Z (999, 1000)%Z 1%nat [mkM true false false 0 0]
             [mkFeat 0 0 1 [mkRaw false false false 24] [Some 24%Z];
              mkFeat 1 0 1 [mkRaw false false false 16] [Some 16%Z]] [] in
  let rows := [mkRow 0 true [CVal 24]; mkRow 1 true [CVal 16]] in
  let grp := fun r : row => if Nat.eqb (rid r) 0 then gx else gy in
  table_of t = Ok rows /\ comp_of t rows = rows /\ cols_of t rows = [0%nat] /\
  Forall2 (fun v g => g <> []%list /\ Forall (fun e : Z * Z => fst e = v /\ (0 < snd e)%Z) g) [1; 5; 2]%Z gx /\
  NoDup [1; 5; 2]%Z /\
  Measures.kruskal gx = Some (8 # 1)%Q /\ Measures.kruskal gy = Some (16 # 3)%Q /\
  Measures.ms_n (Measures.ms_union gx) = 9%Z /\ Measures.ms_n (Measures.ms_union gy) = 9%Z /\
  (inject_Z 24 == (8 # 1) * inject_Z 3)%Q /\ (inject_Z 16 == (16 # 3) * inject_Z 3)%Q /\
  select_type t = Ok [0%nat] /\
  Forall (fun r : Z * Z => (0 <= fst r)%Z /\ (0 <= snd r)%Z /\ (0 < fst r + snd r)%Z) [(6, 0); (0, 3); (0, 3)]%Z.
Proof.
  cbv zeta.
  repeat match goal with |- _ /\ _ => split end; try (vm_compute; reflexivity).
  - repeat constructor; try discriminate.
  - repeat constructor; cbn; intuition discriminate.
  - repeat constructor; cbn; Lia.lia.
Qed.
