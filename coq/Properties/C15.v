(* C15 — Feature selection is invariant under re-encodings that keep the information.
   Only statements closed by `exact`.  Model: Model/Selector.v (selection logic as a function of
   the measure / association tables) and the rank statistics of Model/CheckC15.v.  The metamorphic
   pairs themselves run on the real selectors in harness/props/c15.py. *)
From Coq Require Import Permutation.
From AC.Model Require Import Base Selector CheckC14 CheckC15.
From AC.Proofs Require Import SelectorProofs.

(* the selection depends on the features only through their measure keys and pairwise
   associations: any consistent renaming / re-encoding phi of the features (renamed columns,
   renamed categories, rescaled values ... anything that leaves the tables unchanged) commutes
   with the selection, order included *)
Theorem C15_select_equivariant :
  forall (A B : Type) (phi : A -> B) ideqA ideqB keyA keyB badsA badsB nbest cols comp,
  (forall a b, ideqB (phi a) (phi b) = ideqA a b) ->
  (forall a j, keyB (phi a) j = keyA a j) ->
  Forall2 (bads_rel phi) badsA badsB ->
  select_core ideqB keyB badsB nbest cols (map phi comp)
  = map phi (select_core ideqA keyA badsA nbest cols comp).
Proof. exact (@select_core_map). Qed.
Print Assumptions C15_select_equivariant.

(* permuting the columns (input order of the features) does not change the selection when no
   ranking measure is exactly tied *)
Theorem C15_select_input_order_irrelevant :
  forall (A : Type) (ideq : A -> A -> bool) keyf bads nbest cols comp comp',
  Permutation comp comp' ->
  (forall j a b, In j cols -> In a comp -> In b comp -> keyf a j = keyf b j -> a = b) ->
  select_core ideq keyf bads nbest cols comp = select_core ideq keyf bads nbest cols comp'.
Proof. exact (@select_core_perm). Qed.
Print Assumptions C15_select_input_order_irrelevant.

(* the (twice mid-)rank vector and the tie counts are invariant under strictly increasing maps *)
Theorem C15_ranks_monotone :
  forall phi xs, increasing phi ->
  ranks2 (map phi xs) = ranks2 xs /\ tie_counts (map phi xs) = tie_counts xs.
Proof. exact ranks_monotone. Qed.
Print Assumptions C15_ranks_monotone.

(* strictly decreasing maps (negation) reflect the ranks: r -> 2n + 2 - r *)
Theorem C15_ranks_antitone :
  forall psi xs, decreasing psi ->
  ranks2 (map psi xs) = map (fun r => 2 * Z.of_nat (List.length xs) + 2 - r) (ranks2 xs)
  /\ tie_counts (map psi xs) = tie_counts xs.
Proof. exact ranks_antitone. Qed.
Print Assumptions C15_ranks_antitone.

(* hence Kruskal-Wallis H (sufficient statistics: rank sums, group sizes, tie counts) and
   Spearman's rho (Pearson on ranks) are invariant under strictly increasing re-encodings *)
Theorem C15_kruskal_spearman_monotone_invariant :
  forall phi xs ys lab groups, increasing phi ->
  kruskal_stat (map phi xs) lab groups = kruskal_stat xs lab groups
  /\ spearman_stat (map phi xs) ys = spearman_stat xs ys
  /\ spearman_stat ys (map phi xs) = spearman_stat ys xs.
Proof. exact kruskal_spearman_monotone. Qed.
Print Assumptions C15_kruskal_spearman_monotone_invariant.

(* negation: the covariance of the ranks changes sign, the variances do not, so |rho| (the
   quantity the spearman filter thresholds) is unchanged *)
Theorem C15_spearman_abs_neg :
  forall psi xs ys, decreasing psi -> List.length xs = List.length ys ->
  spearman_stat (map psi xs) ys = (let '(cv, vx, vy) := spearman_stat xs ys in (- cv, vx, vy)).
Proof. exact spearman_negation. Qed.
Print Assumptions C15_spearman_abs_neg.

(* NOT closed (covered by the metamorphic runs only): kruskal_neg — H is unchanged by negation:
     forall psi xs lab groups, decreasing psi -> H (kruskal_stat (map psi xs) lab groups) = H (kruskal_stat xs lab groups)
   needs  sum_g R_g = n (n + 1) / 2  and the algebra of  sum_g (n_g (n + 1) - R_g)^2 / n_g ;
   and "a copy of the target has the maximal H / T": needs the extremal properties of H and chi2. *)

(* "an exact copy of the target is always returned" is FALSE of the faithful model of
   RegressionSelector's default measure: the copy has r = 1, distance 0.0, falsy, NaN, dropped *)
Theorem C15_regression_copy_refuted :
  exists t, t_nbest t = 1%nat /\ map f_spec (t_feats t) = [[Some 1]] /\ select_type t = Ok [].
Proof. exact regression_copy_dropped. Qed.
Print Assumptions C15_regression_copy_refuted.

(* "negating a feature does not change the selection" is FALSE of the same model: 1 - r ranks
   anti-correlated features first *)
Theorem C15_regression_negation_refuted :
  select_type (neg_witness (100 - 81)) = Ok [1%nat; 0%nat] /\
  select_type (neg_witness (100 + 81)) = Ok [0%nat; 1%nat] /\
  map f_spec (t_feats (neg_witness (100 - 81))) = map f_spec (t_feats (neg_witness (100 + 81))).
Proof. exact regression_negation_changes_order. Qed.
Print Assumptions C15_regression_negation_refuted.

(* hypotheses are satisfiable *)
Example C15_nonvacuous :
  increasing (fun x => 3 * x + 1) /\ decreasing (fun x => - x) /\
  ranks2 (map (fun x => 3 * x + 1) [5; 1; 5; 2]) = [7; 2; 7; 4] /\
  ranks2 (map (fun x => - x) [5; 1; 5; 2]) = [3; 8; 3; 6].
Proof.
  split; [intros a b H; Lia.lia|]. split; [intros a b H; Lia.lia|].
  split; vm_compute; reflexivity.
Qed.

(* Kruskal-Wallis H is invariant under NEGATION (any strictly decreasing re-encoding) of the feature:
   every sample size, any ties, any number of groups (labels/groups a well-formed partition) *)
From AC.Proofs Require Import KruskalNegProofs.
Theorem C15_kruskal_invariant_under_negation : forall (psi : Z -> Z) (xs : list Z) (lab groups : list nat),
  SelectorProofs.decreasing psi -> List.length lab = List.length xs -> NoDup groups -> incl lab groups ->
  kruskal_H (CheckC15.kruskal_stat (map psi xs) lab groups) = kruskal_H (CheckC15.kruskal_stat xs lab groups).
Proof. exact kruskal_neg. Qed.
Print Assumptions C15_kruskal_invariant_under_negation.

(* colsample < 1: whatever the shuffled feature list, the number of features per sample and the
   number of samples, the samples (k - 1 slices, the last one takes all the rest) are a partition
   of the list: concatenated they give back the list, so every feature is measured in exactly one
   sample (the list has no duplicates) *)
Theorem C15_colsample_samples_partition :
  forall (A : Type) (chunks k : nat) (l : list A),
  List.concat (col_samples chunks k l) = l /\ List.length (col_samples chunks k l) = S (k - 1).
Proof. exact (fun A c k l => conj (col_samples_partition c k l) (col_samples_count c k l)). Qed.
Print Assumptions C15_colsample_samples_partition.
