(* C04 — transform is exactly the mapping described by the fitted values_orders.
   Only statements closed by `exact`.  Model: Model/Labels.v, Model/Transform.v (run against the
   implementation on every check); vocabulary: Proofs/TransformSpec.v; WF is the invariant of C13.
   `fmt` is the per-object table  finite leader -> f"{leader:.3e}"  (CPython is the oracle). *)
From Coq Require Import Sorting.Sorted.
From AC.Model Require Import Base GroupedList Labels Transform FormatRule CheckC04 CheckC05.
From AC.Proofs Require Import GroupedListSpec TransformSpec LabelsProofs TransformProofs
  FormatRuleProofs CheckC04Proofs.

(* the label table: every member of the i-th group is mapped to the label zip() pairs with the
   i-th leader — for every well-formed order and every label list *)
Theorem C04_label_table : forall g labels i k v,
  WF g -> nth_error (keys g) i = Some k -> In v (get g k) ->
  lget v (lpv_of g labels) = nth_error labels i.
Proof. exact lpv_spec. Qed.
Print Assumptions C04_label_table.

(* qualitative: ANY value contained in a group (numbers grouped under their string form included)
   is sent to the label of that group *)
Theorem C04_transform_is_lookup_qualitative : forall fmt st i k v,
  coherent fmt st -> st_kind st = Qual -> nan_ok st ->
  nth_error (keys (st_order st)) i = Some k -> In v (get (st_order st) k) -> v <> VNaN ->
  exists l, label_at fmt st i = Some l /\ transform_cell st v = Ok (reinstate st (OLab l)).
Proof. exact transform_is_lookup_qual. Qed.
Print Assumptions C04_transform_is_lookup_qualitative.

(* quantitative: EVERY number of the carrier (scaled dyadics, +-inf) is sent to the label of the
   first leader >= it *)
Theorem C04_transform_is_lookup_quantitative : forall fmt st x pre l post i,
  coherent fmt st -> st_kind st = Quant -> nan_ok st -> sentinel st ->
  is_num x = true ->
  quant_leaders st = pre ++ l :: post ->
  (forall p, In p pre -> num_le x p = false) -> num_le x l = true ->
  nth_error (keys (st_order st)) i = Some l ->
  exists lab, label_at fmt st i = Some lab /\ transform_cell st x = Ok (reinstate st (OLab lab)).
Proof. exact transform_is_lookup_quant. Qed.
Print Assumptions C04_transform_is_lookup_quantitative.

(* missing values: the label of the group holding str_nan when dropna, else they stay missing *)
Theorem C04_missing_values : forall fmt st i k,
  coherent fmt st -> nan_ok st -> sentinel st ->
  nth_error (keys (st_order st)) i = Some k -> In (st_nan st) (get (st_order st) k) ->
  exists l, label_at fmt st i = Some l /\
            transform_cell st VNaN = Ok (if st_dropna st then OLab l else OMissing).
Proof. exact transform_nan. Qed.
Print Assumptions C04_missing_values.

(* 'float' labels are the ranks 0..k-1 in fitted order; distinct groups get distinct labels,
   unconditionally *)
Theorem C04_float_labels_are_ranks : forall k fmt nan ks i,
  (i < List.length (get_labels k OFloat fmt nan ks))%nat ->
  nth_error (get_labels k OFloat fmt nan ks) i = Some (LRank i).
Proof. exact float_labels_are_ranks. Qed.
Print Assumptions C04_float_labels_are_ranks.

Theorem C04_float_labels_distinct : forall fmt st k1 k2 l1 l2,
  coherent fmt st -> st_odt st = OFloat ->
  In k1 (keys (st_order st)) -> In k2 (keys (st_order st)) -> k1 <> k2 ->
  lget k1 (st_lpv st) = Some l1 -> lget k2 (st_lpv st) = Some l2 -> l1 <> l2.
Proof. exact float_labels_distinct. Qed.
Print Assumptions C04_float_labels_distinct.

(* 'str' labels of qualitative features are distinct *)
Theorem C04_qualitative_str_labels_distinct : forall fmt nan ks,
  NoDup ks -> nan <> VNaN -> NoDup (get_labels Qual OStr fmt nan ks).
Proof. exact qual_str_labels_NoDup. Qed.
Print Assumptions C04_qualitative_str_labels_distinct.

(* 'str' interval labels are distinct  <->  the (lower, upper) pairs of FORMATTED bounds are *)
Theorem C04_str_labels_distinct_iff : forall ss,
  Forall (fun s => no_space s = true) ss ->
  (NoDup (format_quantiles ss) <-> NoDup (bounds ss)).
Proof. exact str_labels_distinct_iff. Qed.
Print Assumptions C04_str_labels_distinct_iff.

(* ... in particular when the .3e table is injective on the finite leaders (the proved case) *)
Theorem C04_str_labels_distinct_when_injective : forall fmt nan s ks,
  nan = VStr s -> no_space s = true ->
  Forall (fun x => no_space x = true) (map (fmt_lookup fmt) (finite_leaders nan ks)) ->
  NoDup (map (fmt_lookup fmt) (finite_leaders nan ks)) ->
  NoDup (get_labels Quant OStr fmt nan ks).
Proof. exact quant_str_labels_NoDup. Qed.
Print Assumptions C04_str_labels_distinct_when_injective.

(* whenever the label list has no duplicate, distinct groups have distinct labels *)
Theorem C04_distinct_groups_distinct_labels : forall fmt st k1 k2 l1 l2,
  coherent fmt st -> NoDup (labels_of fmt st) ->
  In k1 (keys (st_order st)) -> In k2 (keys (st_order st)) -> k1 <> k2 ->
  lget k1 (st_lpv st) = Some l1 -> lget k2 (st_lpv st) = Some l2 -> l1 <> l2.
Proof. exact distinct_groups_distinct_labels. Qed.
Print Assumptions C04_distinct_groups_distinct_labels.

(* ... and, with the digit rule of format_quantiles (repaired code: digits are added while
   distinct boundaries share a formatted form, Model/FormatRule.v), ALWAYS for distinct finite
   leaders — provided some table of the list (in practice 17 digits) separates them *)
Theorem C04_str_labels_distinct : forall tables nan s g,
  nan = VStr s -> no_space s = true ->
  NoDup (finite_leaders nan (keys g)) ->
  (exists t, In t tables /\ NoDup (map (fmt_lookup t) (finite_leaders nan (keys g)))) ->
  (forall t x, In t tables -> In x (finite_leaders nan (keys g)) -> no_space (fmt_lookup t x) = true) ->
  NoDup (get_labels Quant OStr (fmt_of tables nan g) nan (keys g)).
Proof. exact str_labels_distinct. Qed.
Print Assumptions C04_str_labels_distinct.

(* observation O2 (202301/202302/202303 all print as 2.023e+05 with 3 digits; before the repair
   two distinct groups shared the label "2.023e+05 < x <= 2.023e+05", lemma str_labels_refuted
   in Proofs/LabelsProofs.v): the rule now selects 5 digits and the groups are told apart *)
Example C04_o2_repaired :
  let tables := [ [(VNum 202301, "2.023e+05"); (VNum 202302, "2.023e+05"); (VNum 202303, "2.023e+05")];
                  [(VNum 202301, "2.0230e+05"); (VNum 202302, "2.0230e+05"); (VNum 202303, "2.0230e+05")];
                  [(VNum 202301, "2.02301e+05"); (VNum 202302, "2.02302e+05"); (VNum 202303, "2.02303e+05")];
                  [(VNum 202301, "2.023010e+05"); (VNum 202302, "2.023020e+05"); (VNum 202303, "2.023030e+05")] ]%string in
  let st := fitted_state_auto Quant (of_list [VNum 202301; VNum 202302; VNum 202303; VPInf])
              (VStr "__NAN__") (VStr "__OTHER__") true OStr tables in
  transform_cell st (VNum 202302) = Ok (OLab (LVal (VStr "2.02301e+05 < x <= 2.02302e+05"))) /\
  transform_cell st (VNum 202303) = Ok (OLab (LVal (VStr "2.02302e+05 < x <= 2.02303e+05"))).
Proof. cbv zeta. split; vm_compute; reflexivity. Qed.

(* two boundaries sharing one form are still told apart: "distinct iff injective" fails <- *)
Theorem C04_two_equal_bounds_still_distinct :
  ~ NoDup ["2.023e+05"%string; "2.023e+05"%string] /\
  NoDup (format_quantiles ["2.023e+05"%string; "2.023e+05"%string]).
Proof. exact two_equal_bounds_still_distinct. Qed.
Print Assumptions C04_two_equal_bounds_still_distinct.

(* non-vacuity: a concrete coherent state with sentinel, where the premises of the theorems
   hold (accepted by the checker's boolean premises) *)
Example C04_nonvacuous :
  let c := mkTCase true Quant [VNum 1; VNum 5; VPInf; VStr "__NAN__"]
             [(VNum 1, [VNum 1]); (VNum 5, [VNum 3; VNum 5]); (VPInf, [VPInf]);
              (VStr "__NAN__", [VStr "__NAN__"])]
             (VStr "__NAN__") (VStr "__OTHER__") false OStr
             [[(VNum 1, "1.000e+00"%string); (VNum 5, "5.000e+00"%string)]] 1 [] [] [] (IOk []) in
  coherent (t_fmt c) (t_state c) /\ nan_ok (t_state c) /\ sentinel (t_state c) /\
  transform_cell (t_state c) (VNum 4) = Ok (OLab (LVal (VStr "1.000e+00 < x <= 5.000e+00"))) /\
  transform_cell (t_state c) VNaN = Ok OMissing.
Proof.
  cbv zeta. split; [|split; [|split; [|split]]];
    try (apply premises_sound; vm_compute; reflexivity); vm_compute; reflexivity.
Qed.

From AC.Model Require Import StringForm.
From AC.Proofs Require Import StringFormProofs.
Local Open Scope list_scope.

(* numeric-looking qualitative values are matched through their string form: after
   StringDiscretizer.fit_feature every raw value's leader is its string form, so 1, 1.0 and "1"
   share one group (for ANY column and ANY str() table) *)
Theorem C04_values_matched_through_their_string_form :
  forall (t : sf_table) (raw : list val) (has_nan : bool) (nan : val) (g : gl),
  NoDup raw -> sf_closed t raw -> nan_fresh t raw has_nan nan ->
  string_fit t raw has_nan nan = Ok g ->
  forall v, In v raw -> get_group g v = str_form t v.
Proof. exact fit_feature_groups_by_string_form. Qed.
Print Assumptions C04_values_matched_through_their_string_form.

Theorem C04_string_discretizer_total_and_wf :
  forall (t : sf_table) (raw : list val) (has_nan : bool) (nan : val),
  NoDup raw -> sf_closed t raw -> nan_fresh t raw has_nan nan ->
  exists g, string_fit t raw has_nan nan = Ok g /\ WF g.
Proof. exact fit_feature_ok. Qed.
Print Assumptions C04_string_discretizer_total_and_wf.

