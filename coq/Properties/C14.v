(* C14 — Selectors return the best-ranked, mutually uncorrelated features.
   Only statements closed by `exact`.  The executable model is Model/Selector.v (run against
   ClassificationSelector / RegressionSelector.select on every check); `key r j` is the value of
   ranking measure j for row r, `assoc_at f a b` the pairwise association used by filter f. *)
From Coq Require Import Permutation Sorted.
From AC.Model Require Import Base Selector CheckC14.
From AC.Proofs Require Import SelectorProofs.

(* the returned features are distinct input features *)
Theorem C14_select_distinct_inputs :
  forall t out, NoDup (map f_id (t_feats t)) -> select_type t = Ok out ->
                NoDup out /\ incl out (map f_id (t_feats t)).
Proof. exact select_type_distinct. Qed.
Print Assumptions C14_select_distinct_inputs.

(* per dtype, ordered by decreasing value of the ranking measure (the last one that exists) *)
Theorem C14_sorted_by_decreasing_measure :
  forall t out, select_type t = Ok out ->
  exists rows sel, table_of t = Ok rows /\ out = map rid sel /\
    forall j rest, rank_cols (t_ms t) rows = j :: rest ->
                   StronglySorted (fun a b => key b j <= key a j) sel.
Proof. exact select_type_sorted. Qed.
Print Assumptions C14_sorted_by_decreasing_measure.

(* at most n_best per measure, every returned feature is among the n_best of some measure *)
Theorem C14_at_most_n_best_per_measure :
  forall t out, NoDup (map f_id (t_feats t)) -> select_type t = Ok out ->
  exists rows, table_of t = Ok rows /\
    (forall j, (List.length (sel_of t rows j) <= t_nbest t)%nat) /\
    (forall i, In i out -> exists r j, In j (cols_of t rows) /\ In r (sel_of t rows j) /\ rid r = i) /\
    (List.length out <= t_nbest t * List.length (cols_of t rows))%nat.
Proof. exact select_type_nbest. Qed.
Print Assumptions C14_at_most_n_best_per_measure.

(* the features kept for one measure are pairwise associated at most thresh_corr (for every
   filter); with a single ranking measure this holds for the returned list itself *)
Theorem C14_greedy_independent :
  forall t rows,
  (forall j f, In f (t_filters t) ->
     ForallOrdPairs (fun a c => fst (assoc_at f (rid c) (rid a)) <= fl_thresh f) (sel_of t rows j)) /\
  (NoDup (map rid rows) -> forall j, cols_of t rows = [j] ->
     forall f a c, In f (t_filters t) -> In a (core_of t rows) -> In c (core_of t rows) -> a <> c ->
       fst (assoc_at f (rid a) (rid c)) <= fl_thresh f \/ fst (assoc_at f (rid c) (rid a)) <= fl_thresh f).
Proof. exact select_type_independent. Qed.
Print Assumptions C14_greedy_independent.

(* every input feature that is left out has a reason: a failed nan/mode test or an undefined /
   not computed measure; or, for EVERY ranking measure, it was dropped by a filter because of a
   better-ranked kept feature, or n_best better-ranked features were selected *)
Theorem C14_greedy_maximal :
  forall t rows r,
  NoDup (map rid rows) -> In r rows -> ~ In (rid r) (map rid (core_of t rows)) ->
  (rbase r = false \/ exists j, col_exists rows j = true /\ is_val (cell_at r j) = false)
  \/ (In r (comp_of t rows) /\ forall j, In j (cols_of t rows) ->
        let kj := fun x => key x j in
        let ranked := sort_desc kj (initial_of t rows) in
        drop_reason kj (bads_of t) ranked r
        \/ (In r (apply_filters (bads_of t) ranked)
            /\ List.length (sel_of t rows j) = t_nbest t
            /\ forall g, In g (sel_of t rows j) -> key r j <= key g j)).
Proof. exact select_type_maximal. Qed.
Print Assumptions C14_greedy_maximal.

(* the strictly best feature of a ranking measure is always returned *)
Theorem C14_best_feature_returned :
  forall t rows j x,
  NoDup (map rid rows) -> In j (cols_of t rows) -> In x (comp_of t rows) ->
  (forall y, In y (comp_of t rows) -> y <> x -> key y j < key x j) -> (1 <= t_nbest t)%nat ->
  In x (core_of t rows).
Proof. exact select_type_best. Qed.
Print Assumptions C14_best_feature_returned.

(* FULL statement "no two returned features are associated above thresh_corr" is FALSE of the
   faithful model as soon as two ranking measures are computed: the union over measures *)
Theorem C14_union_independent_refuted :
  exists t out a c f, select_type t = Ok out /\ In a out /\ In c out /\ a <> c /\ In f (t_filters t)
    /\ fl_thresh f < fst (assoc_at f a c) /\ fl_thresh f < fst (assoc_at f c a).
Proof. exact union_not_independent. Qed.
Print Assumptions C14_union_independent_refuted.

(* the checker's boolean predicate (run on the IMPLEMENTATION's output) implies the stated facts *)
Theorem C14_checker_sound :
  forall tc, type_ok tc = true ->
  let t := tc_in tc in let out := tc_out tc in
  NoDup out /\ incl out (map f_id (t_feats t)) /\
  (last_assoc (t_ms t) <> None ->
     (List.length out <= t_nbest t * List.length (assoc_idx (t_ms t)))%nat /\
     forall f, In f (t_filters t) ->
       ForallOrdPairs (fun a b => fst (assoc_at f a b) <= fl_thresh f) out).
Proof. exact type_ok_sound. Qed.
Print Assumptions C14_checker_sound.

(* hypotheses are satisfiable: a concrete selection with two features kept and one filtered *)
Example C14_nonvacuous :
  let t := mkTin 10 (999, 1000) (999, 1000) 2%nat [mkM true false false 0 0]
             [mkFeat 0 0 3 [mkRaw false false false 7] [Some 7];
              mkFeat 1 0 3 [mkRaw false false false 9] [Some 9];
              mkFeat 2 0 3 [mkRaw false false false 8] [Some 8]]
             [mkFilter 5 [[(0, false); (1, false); (2, false)];
                          [(1, false); (0, false); (9, false)];
                          [(2, false); (9, false); (0, false)]]] in
  NoDup (map f_id (t_feats t)) /\ select_type t = Ok [1%nat; 0%nat].
Proof. split; [repeat constructor; cbn; intuition discriminate | vm_compute; reflexivity]. Qed.
