(* C12 — MulticlassCarver equals one-vs-rest BinaryCarvers (on the model: Model/Multiclass.v,
   whose per-class fit is the carving model of Model/Carve.v). *)
From Coq Require Import List String Permutation.
Import ListNotations.
From AC.Model Require Import Float Combos Measures Carve Multiclass.
From AC.Proofs Require Import MulticlassProofs.

(* classes sort as strings; exactly one, minimal in string order, is left out *)
Theorem C12_classes_all_but_the_smallest : forall classes, classes <> [] ->
  exists c0, Permutation (c0 :: ovr_classes classes) classes /\
             forall c, In c classes -> String.leb c0 c = true.
Proof. exact ovr_classes_spec. Qed.
Print Assumptions C12_classes_all_but_the_smallest.

(* column f_c is the BinaryCarver (same configuration) fitted on the indicator of c *)
Theorem C12_multiclass_is_one_vs_rest : forall cf feature classes data_of name o,
  In (name, o) (multiclass_feature cf feature classes data_of) <->
  exists c, In c (ovr_classes classes) /\ name = cast_name feature c /\ o = carve cf (data_of c).
Proof. exact multiclass_ovr. Qed.
Print Assumptions C12_multiclass_is_one_vs_rest.

(* f_c is kept iff that BinaryCarver keeps f *)
Theorem C12_column_kept_iff_binary_keeps : forall cf feature classes data_of name,
  In name (kept_columns (multiclass_feature cf feature classes data_of)) <->
  exists c g, In c (ovr_classes classes) /\ name = cast_name feature c /\ carve cf (data_of c) = Kept g.
Proof. exact multiclass_kept_iff. Qed.
Print Assumptions C12_column_kept_iff_binary_keeps.

Open Scope string_scope.
Example C12_nonvacuous : ovr_classes ["9"; "10"; "11"] = ["11"; "9"].
Proof. vm_compute. reflexivity. Qed.
