(* C09 — Base discretization honours min_freq and keeps its granularity.
   Only statements closed by `exact`; the executable model lives in Model/Quantiles.v,
   Model/Ordinal.v, Model/Categorical.v (run against the Python classes on every check), the
   checker's booleans (buckets_ok, strictly_increasing) in Model/CheckC09.v and Model/Ordinal.v,
   the specification predicates (contiguous, consistent, loop_post, rare_or_unobserved) in
   Proofs/DiscretizeProofs.v.  No bound on the number of rows, values, buckets or on min_freq. *)
From Coq Require Import ZArith List Permutation Sorted.
From AC.Model Require Import Base Float GroupedList Quantiles Ordinal Categorical CheckC09.
From AC.Proofs Require Import GroupedListSpec DiscretizeProofs QuantFitProofs.
Import ListNotations.
Open Scope Z_scope.
Open Scope list_scope.

(* (1) ordinal feature, any ranking (never-observed values included), any aggregate d, any
   min_freq m and number of rows n: the merging loop ends, every remaining non-missing bucket is
   not rarer than m (fl(count/n) < m is false) or a single bucket remains, counts are conserved
   and equal the training rows of the members, the buckets partition the ranking into
   contiguous runs *)
Theorem C09_ordinal_buckets_frequent : forall n m d order,
  exists bs',
    find_common_modalities n m (map (init_bucket d) order) = Ok bs'
    /\ buckets_ok n m bs' = true
    /\ cnt_sum bs' = cnt_sum (map (init_bucket d) order)
    /\ Forall (consistent d) bs'
    /\ Permutation (members bs') order
    /\ contiguous order bs'.
Proof. exact ordinal_buckets. Qed.
Print Assumptions C09_ordinal_buckets_frequent.

(* (1') quantitative feature: same with min_freq/2 when the rare-bucket pass is triggered, and
   trivially otherwise; buckets are runs of consecutive quantiles *)
Theorem C09_quantitative_buckets_frequent : forall n half nan_cnt leaders d,
  let bs := qbuckets None leaders d in
  exists bs',
    rare_pass n half nan_cnt bs = Ok bs'
    /\ buckets_ok n half bs' = true
    /\ cnt_sum bs' = cnt_sum bs
    /\ Permutation (members bs') leaders
    /\ contiguous leaders bs'.
Proof. exact quantitative_buckets. Qed.
Print Assumptions C09_quantitative_buckets_frequent.

(* the loop from ANY initial buckets: never fails, exit condition, conservation of counts and
   members, contiguity and count/member consistency are preserved, at least one bucket remains *)
Theorem C09_merging_conserves_and_is_contiguous : forall d n m bs,
  exists bs', find_common_modalities n m bs = Ok bs' /\ loop_post d n m bs bs'.
Proof. exact C09_merging. Qed.
Print Assumptions C09_merging_conserves_and_is_contiguous.

(* every iteration merges two ADJACENT buckets: find_closest_modality returns idx-1 or idx+1 *)
Theorem C09_merges_only_neighbours : forall n m bs,
  loop_cond n m bs = true -> exists bs', loop_step n m bs = Ok bs' /\ merge_adjacent bs bs'.
Proof. exact loop_step_adjacent. Qed.
Print Assumptions C09_merges_only_neighbours.

(* end to end for an ordinal feature: the fitted values_orders entry is exactly the loop's final
   buckets (leaders in ranking order, each group a permutation of its bucket's members, str_nan
   appended iff the column has missing values) — with C09_ordinal_buckets_frequent this gives the
   frequency bound and the contiguity of the FITTED groups *)
Theorem C09_ordinal_fit_is_the_loop : forall mf nan_cnt order d g,
  ordinal_fit mf nan_cnt order d = Ok (Some g) -> NoDup order -> ~ In str_nan order ->
  exists bs,
    find_common_modalities (nan_cnt + count_rows d) (min_freq_f mf) (map (init_bucket d) order) = Ok bs
    /\ keys g = map b_lead bs ++ (if 0 <? nan_cnt then [str_nan] else [])
    /\ map fst (non_missing_groups g) = map b_lead bs
    /\ Forall2 (fun kv b => Permutation (snd kv) (b_mem b)) (non_missing_groups g) bs.
Proof. exact ordinal_fit_groups. Qed.
Print Assumptions C09_ordinal_fit_is_the_loop.

(* fuel = number of buckets suffices; more fuel changes nothing *)
Theorem C09_merging_terminates : forall n m bs,
  (exists bs', find_common_modalities n m bs = Ok bs')
  /\ (forall fuel, (List.length bs <= fuel)%nat -> fcm fuel n m bs = find_common_modalities n m bs).
Proof. exact C09_fuel. Qed.
Print Assumptions C09_merging_terminates.

(* the `<= min_freq/2` trigger of QuantitativeDiscretizer only saves work *)
Theorem C09_rare_pass_trigger_irrelevant : forall n half nan_cnt bs,
  has_rare n half nan_cnt bs = false -> find_common_modalities n half bs = Ok bs.
Proof. exact rare_pass_trigger_irrelevant. Qed.
Print Assumptions C09_rare_pass_trigger_irrelevant.

(* (2) categorical feature: a value is in the default group iff it is rarer than min_freq or was
   never observed *)
Theorem C09_categorical_default_group : forall mf nan_cnt order d st,
  categorical_fit mf nan_cnt order d = Ok (Some st) ->
  ~ In str_default (observed d ++ order) ->
  (forall v, In v (observed d ++ order) -> truthy v = true) ->
  let n := nan_cnt + count_rows d in
  forall v, In v (observed d ++ order) -> v <> str_nan ->
    (In v (default_group st) <-> rare_or_unobserved n (min_freq_f mf) d v).
Proof. exact categorical_default_group. Qed.
Print Assumptions C09_categorical_default_group.

(* (2') missing values always are their own (last) modality *)
Theorem C09_categorical_nan_separate : forall mf nan_cnt order d st,
  categorical_fit mf nan_cnt order d = Ok (Some st) ->
  0 < nan_cnt ->
  exists ks c, cs_keys st = ks ++ [str_nan] /\ cs_content st = c ++ [(str_nan, [str_nan])].
Proof. exact categorical_nan_separate. Qed.
Print Assumptions C09_categorical_nan_separate.

(* (3) ContinuousDiscretizer, both variants of find_quantiles (dedup = false: the code as it is,
   `sort`; dedup = true: the pending repair, `unique`): boundaries are observed training values,
   every value with count >= fl(len_df/q) is a boundary, boundaries are sorted; strictly
   increasing for the repaired variant, and for the current one as soon as they are distinct *)
Theorem C09_boundaries : forall dedup q len_df vc l,
  find_quantiles_v dedup q len_df vc = QOk l ->
  (forall x, In x l -> In x (observed_values vc))
  /\ (forall v c, In (v, c) vc -> is_freq (thr len_df q) c = true -> In v l)
  /\ Sorted Z.le l
  /\ (dedup = true -> Sorted Z.lt l)
  /\ (NoDup l -> Sorted Z.lt l).
Proof. exact find_quantiles_spec. Qed.
Print Assumptions C09_boundaries.

(* followed by +inf, then the missing-value modality iff the column has missing values *)
Theorem C09_boundaries_then_inf : forall dedup q len_df nan_cnt vc g,
  fit_feature dedup q len_df nan_cnt vc = QOk g ->
  exists qs, find_quantiles_v dedup q len_df vc = QOk qs
    /\ keys g = boundaries qs ++ (if 0 <? nan_cnt then [str_nan] else []).
Proof. exact fit_feature_keys. Qed.
Print Assumptions C09_boundaries_then_inf.

(* FULL statement "boundaries strictly increasing" is FALSE of the current code (observation O1):
   counts [7,3,3,4,6,6,7,7] for the values 0..7, min_freq = 1/7 give [0,2,4,4,6,7] *)
Theorem C09_boundaries_strict_refuted :
  exists q len_df vc l,
    len_df = total vc /\ Sorted Z.lt (observed_values vc) /\ Forall (fun p => 0 < snd p) vc
    /\ q_of_min_freq (1, -3) = Some 8 /\ q_of_min_freq (2573485501354569, -54) = Some q
    /\ find_quantiles q len_df vc = QOk l /\ strictly_increasing l = false
    /\ find_quantiles_dedup q len_df vc = QOk (dedup_sorted l)
    /\ strictly_increasing (dedup_sorted l) = true.
Proof. exact boundaries_strict_refuted. Qed.
Print Assumptions C09_boundaries_strict_refuted.

Theorem C09_boundaries_strict_partial : forall q len_df vc l,
  find_quantiles q len_df vc = QOk l -> NoDup l -> Sorted Z.lt l.
Proof. exact DiscretizeProofs.C09_boundaries_strict_partial. Qed.
Print Assumptions C09_boundaries_strict_partial.

(* after the repair (np.unique) the full statement holds *)
Theorem C09_boundaries_strict_after_repair : forall q len_df vc l,
  find_quantiles_dedup q len_df vc = QOk l -> Sorted Z.lt l.
Proof. exact C09_boundaries_strict_dedup. Qed.
Print Assumptions C09_boundaries_strict_after_repair.

(* recursion depth of np_find_quantiles is at most 2: fuel 2 is as good as any larger fuel, the
   model's fuel 3 is never exhausted *)
Theorem C09_quantile_recursion_depth : forall q len_df vc,
  (forall k, fq (2 + k) q len_df vc = fq 2 q len_df vc)
  /\ fq np_fuel q len_df vc <> QErr QFuel
  /\ (forall dedup, find_quantiles_v dedup q len_df vc <> QErr QFuel).
Proof. exact C09_recursion_depth. Qed.
Print Assumptions C09_quantile_recursion_depth.

(* the checker's booleans (evaluated on the IMPLEMENTATION's output) mean what they should *)
Theorem C09_checker_sound :
  (forall l, strictly_increasing l = true <-> Sorted Z.lt l)
  /\ (forall n m bs, buckets_ok n m bs = true -> f_is_nan m = false ->
        (List.length bs <= 1)%nat \/
        (forall b, In b bs -> f_is_nan (b_freq n b) = false -> fgeb (b_freq n b) m = true)).
Proof. exact DiscretizeProofs.C09_checker_sound. Qed.
Print Assumptions C09_checker_sound.

(* clause "no bucket free of over-represented values holds more than 2.5*min_freq of the rows":
   see block (3') at the end of this file (C09_quantile_bucket_bound...).  It is also checked on
   every ContinuousDiscretizer case by the harness oracle (plain counting). *)

Open Scope string_scope.
(* hypotheses are satisfiable and the model computes *)
(* end to end, at the level of the fitted order of a QUANTITATIVE feature (boundaries -> buckets ->
   rare pass with min_freq/2 -> groups): for every sample and min_freq the model never fails
   internally, the order is well formed, and the fitted buckets satisfy the frequency bound *)
Theorem C09_quantitative_fit_never_fails_internally : forall mf nan_cnt d,
  (exists g, quantitative_fit true mf nan_cnt d = QFit g /\ WF g)
  \/ quantitative_fit true mf nan_cnt d = QFail QFloat
  \/ quantitative_fit true mf nan_cnt d = QFail QIndex.
Proof. exact quantitative_fit_ok. Qed.
Print Assumptions C09_quantitative_fit_never_fails_internally.

Theorem C09_quantitative_fit_buckets_frequent : forall mf nan_cnt d g,
  quantitative_fit true mf nan_cnt d = QFit g ->
  let n := nrows nan_cnt d in
  let half := half_min_freq mf in
  f_is_nan half = false ->
  (List.length (fitted_buckets g d) <= 1)%nat \/
  (forall b, In b (fitted_buckets g d) -> f_is_nan (b_freq n b) = false -> fgeb (b_freq n b) half = true).
Proof. exact quantitative_fit_frequencies_ge. Qed.
Print Assumptions C09_quantitative_fit_buckets_frequent.

(* the predicate evaluated at run time on the IMPLEMENTATION's quantitative order holds of the model *)
Theorem C09_quantitative_checker_predicate_holds_on_model : forall mf nan_cnt d g,
  quantitative_fit true mf nan_cnt d = QFit g ->
  exists q qs, q_of_min_freq mf = Some q /\
    find_quantiles_v true q (nrows nan_cnt d) (vcs_of d) = QOk qs /\
    quant_b mf nan_cnt d qs (keys g) (content g) = true.
Proof. exact quantitative_fit_passes_checker. Qed.
Print Assumptions C09_quantitative_checker_predicate_holds_on_model.

Example C09_nonvacuous :
  let d := [(VStr "a", 8, 3); (VStr "b", 2, 1); (VStr "d", 10, 6)] in
  let order := [VStr "a"; VStr "b"; VStr "c"; VStr "d"] in
  exists bs', find_common_modalities 20 (f_of_dyadic 1 (-2)) (map (init_bucket d) order) = Ok bs'
              /\ List.length bs' = 2%nat /\ buckets_ok 20 (f_of_dyadic 1 (-2)) bs' = true
              /\ contiguous order bs'.
Proof. exact C09_example. Qed.

(* ---- (3') ContinuousDiscretizer: "no bucket free of over-represented values holds more than
   2.5*min_freq of the rows" ----------------------------------------------------------------------
   Buckets are the intervals (lo, hi] cut by consecutive boundaries of find_quantiles (both variants),
   the first one open to the left, the last one closed by +inf: [bounds None l]; [bucket_count vc lo hi]
   = training rows with lo < value <= hi.  "Free of over-represented values": the right end hi is not
   a value with count >= fl(len_df/q) (such a bucket then contains none, left end excluded).
   What binary64 does in q_position / new_q_of / the threshold comparison enters through three
   explicit premises (each a finite, decidable statement about the instance; booleans
   positions_check / newq_check / thr_check decide them):
     positions_near e : the position of the i-th of nq quantiles among n rows is within e of
                        floor((n-1)*i/nq)                        (e = 0: exact)
     newq_near K      : new_q = round(fl(fl(n/len_df)*q)) >= n*q/len_df*(1 - 1/(K+1)) - 1/2
     thr_exact        : a count that is not >= fl(len_df/q) as floats is < len_df/q as a number  *)
From AC.Proofs Require Import QuantileBucketProofs.

(* such a bucket lies inside ONE sub-sample without over-represented value (n rows, cut in nq
   quantiles) and holds at most floor((n-1)/nq) + 2e + c rows, c = rows of the value closing it
   (1 for the bucket closed by +inf); all n rows when nq <= 1 *)
Theorem C09_quantile_bucket_bound_in_leaf : forall e dedup q len_df vc l,
  Sorted Z.lt (observed_values vc) -> Forall (fun p => 0 < snd p) vc -> 0 <= e ->
  positions_near e q len_df (total vc) ->
  find_quantiles_v dedup q len_df vc = QOk l ->
  forall lo hi, In (lo, hi) (bounds None l) ->
  (forall b c, hi = Some b -> In (b, c) vc -> is_freq (thr len_df q) c = false) ->
  bucket_count vc lo hi = 0 \/
  exists seg c nq,
    (forall p, In p seg -> In p vc /\ is_freq (thr len_df q) (snd p) = false)
    /\ seg <> [] /\ new_q_of q len_df (total seg) = Some nq
    /\ match hi with Some b => In (b, c) seg | None => c = 1 end
    /\ bucket_count vc lo hi <= if 1 <? nq then (total seg - 1) / nq + 2 * e + c else total seg.
Proof. exact C09_bucket_in_leaf. Qed.
Print Assumptions C09_quantile_bucket_bound_in_leaf.

(* closed form: at most 2.25*len_df/q + 2e rows *)
Theorem C09_quantile_bucket_bound : forall e K dedup q len_df vc l,
  Sorted Z.lt (observed_values vc) -> Forall (fun p => 0 < snd p) vc -> total vc <= len_df ->
  0 < q -> 0 <= e -> 0 < K -> len_df <= K ->
  thr_exact q len_df vc -> newq_near K q len_df (total vc) -> positions_near e q len_df (total vc) ->
  find_quantiles_v dedup q len_df vc = QOk l ->
  forall lo hi, In (lo, hi) (bounds None l) ->
  (forall b c, hi = Some b -> In (b, c) vc -> is_freq (thr len_df q) c = false) ->
  4 * q * bucket_count vc lo hi <= 9 * len_df + 8 * e * q.
Proof. exact C09_bucket_bound. Qed.
Print Assumptions C09_quantile_bucket_bound.

(* hence at most 2.5/q of the rows as soon as len_df/q >= 8e *)
Theorem C09_quantile_bucket_bound_2_5 : forall e K dedup q len_df vc l,
  Sorted Z.lt (observed_values vc) -> Forall (fun p => 0 < snd p) vc -> total vc <= len_df ->
  0 < q -> 0 <= e -> 0 < K -> len_df <= K -> 8 * e * q <= len_df ->
  thr_exact q len_df vc -> newq_near K q len_df (total vc) -> positions_near e q len_df (total vc) ->
  find_quantiles_v dedup q len_df vc = QOk l ->
  forall lo hi, In (lo, hi) (bounds None l) ->
  (forall b c, hi = Some b -> In (b, c) vc -> is_freq (thr len_df q) c = false) ->
  2 * q * bucket_count vc lo hi <= 5 * len_df.
Proof. exact C09_bucket_bound_2_5. Qed.
Print Assumptions C09_quantile_bucket_bound_2_5.

(* FULL statement with 2.5*min_freq (min_freq = fst mf * 2^(snd mf)) instead of 2.5/q is FALSE of the
   model and of the code: min_freq = 0.29 (q = 3), 120 rows of which 20 missing, values 1,2,3,4 with
   39,10,39,12 rows: no count reaches 120/3, one boundary (3), bucket (-inf,3] holds 88 rows,
   88/120 > 2.5*0.29; besides, the value 1 has frequency 39/120 >= 0.29 and is not a boundary *)
Theorem C09_quantile_bucket_bound_min_freq_refuted :
  exists mf q N vc l lo b,
    Sorted Z.lt (observed_values vc) /\ Forall (fun p => 0 < snd p) vc /\ total vc <= N
    /\ q_of_min_freq mf = Some q
    /\ (forall dedup, find_quantiles_v dedup q N vc = QOk l)
    /\ In (lo, Some b) (bounds None l)
    /\ (forall p, In p vc -> is_freq (thr N q) (snd p) = false)
    /\ thr_check q N vc = true /\ newq_check (2 ^ 51) q N (total vc) = true
    /\ positions_check 0 q N (total vc) = true
    /\ 5 * fst mf * N < 2 * bucket_count vc lo (Some b) * 2 ^ (- snd mf)
    /\ 2 * q * bucket_count vc lo (Some b) <= 5 * N
    /\ (exists v c, In (v, c) vc /\ fst mf * N <= c * 2 ^ (- snd mf) /\ ~ In v l).
Proof. exact bucket_bound_min_freq_refuted. Qed.
Print Assumptions C09_quantile_bucket_bound_min_freq_refuted.

(* it holds when min_freq is not below (0.9 + 0.8*e*q/len_df)/q, e.g. whenever 1/min_freq is an integer
   and len_df/q >= 8e *)
Theorem C09_quantile_bucket_bound_min_freq_partial : forall e K dedup mf q len_df vc l,
  Sorted Z.lt (observed_values vc) -> Forall (fun p => 0 < snd p) vc -> total vc <= len_df ->
  0 < q -> 0 <= e -> 0 < K -> len_df <= K ->
  snd mf <= 0 -> (9 * len_df + 8 * e * q) * 2 ^ (- snd mf) <= 10 * q * fst mf * len_df ->
  thr_exact q len_df vc -> newq_near K q len_df (total vc) -> positions_near e q len_df (total vc) ->
  find_quantiles_v dedup q len_df vc = QOk l ->
  forall lo hi, In (lo, hi) (bounds None l) ->
  (forall b c, hi = Some b -> In (b, c) vc -> is_freq (thr len_df q) c = false) ->
  2 * bucket_count vc lo hi * 2 ^ (- snd mf) <= 5 * fst mf * len_df.
Proof. exact C09_bucket_bound_min_freq. Qed.
Print Assumptions C09_quantile_bucket_bound_min_freq_partial.

(* the premises are satisfiable (exact positions, e = 0): the sample above with min_freq = 1/3 *)
Example C09_quantile_bucket_bound_nonvacuous :
  let vc := vc_witness in
  wf_vc vc /\ total vc <= 120 /\ thr_exact 3 120 vc /\ newq_near (2 ^ 51) 3 120 (total vc)
  /\ positions_near 0 3 120 (total vc)
  /\ find_quantiles_v true 3 120 vc = QOk [3]
  /\ bounds None [3] = [(None, Some 3); (Some 3, None)]
  /\ bucket_count vc None (Some 3) = 88 /\ bucket_count vc (Some 3) None = 12.
Proof. exact bucket_bound_example. Qed.

(* ---- the three premises are THEOREMS about binary64 (Proofs/QuantileFloatProofs.v: one-ulp enclosure
   of SFmul/SFdiv, exactness of f_of_Z, floor, round-half-even, float comparison) as soon as
   len_df <= 2^50 and q <= 2^50: positions within 1 of the floor (e = 1), K = 2^50, thr_exact. ---- *)
From AC.Proofs Require Import QuantileFloatProofs.

Theorem C09_quantile_float_premises : forall q len_df vc,
  Forall (fun p => 0 < snd p) vc -> 0 < q <= 2 ^ 50 -> total vc <= len_df -> len_df <= 2 ^ 50 ->
  thr_exact q len_df vc /\ newq_near (2 ^ 50) q len_df (total vc) /\ positions_near 1 q len_df (total vc).
Proof.
  exact (fun q N vc Hp Hq Ht HN =>
    conj (thr_exact_binary64 q N vc Hp Hq Ht HN)
      (conj (newq_near_binary64 q N (total vc) Hq Ht HN) (positions_near_binary64 q N (total vc) Hq Ht HN))).
Qed.
Print Assumptions C09_quantile_float_premises.

(* no premise about floats: every bucket free of over-represented values holds at most
   2.25*len_df/q + 2 rows, for every aggregate numpy.unique can produce with len_df <= 2^50 *)
Theorem C09_quantile_bucket_bound_binary64 : forall dedup q len_df vc l,
  Sorted Z.lt (observed_values vc) -> Forall (fun p => 0 < snd p) vc -> total vc <= len_df ->
  len_df <= 2 ^ 50 -> 0 < q <= 2 ^ 50 ->
  find_quantiles_v dedup q len_df vc = QOk l ->
  forall lo hi, In (lo, hi) (bounds None l) ->
  (forall b c, hi = Some b -> In (b, c) vc -> is_freq (thr len_df q) c = false) ->
  4 * q * bucket_count vc lo hi <= 9 * len_df + 8 * q.
Proof. exact bucket_bound_binary64. Qed.
Print Assumptions C09_quantile_bucket_bound_binary64.

(* at most 2.5/q of the rows when len_df >= 8*q *)
Theorem C09_quantile_bucket_bound_2_5_binary64 : forall dedup q len_df vc l,
  Sorted Z.lt (observed_values vc) -> Forall (fun p => 0 < snd p) vc -> total vc <= len_df ->
  len_df <= 2 ^ 50 -> 0 < q -> 8 * q <= len_df ->
  find_quantiles_v dedup q len_df vc = QOk l ->
  forall lo hi, In (lo, hi) (bounds None l) ->
  (forall b c, hi = Some b -> In (b, c) vc -> is_freq (thr len_df q) c = false) ->
  2 * q * bucket_count vc lo hi <= 5 * len_df.
Proof. exact bucket_bound_2_5_binary64. Qed.
Print Assumptions C09_quantile_bucket_bound_2_5_binary64.

(* at most 2.5*min_freq of the rows when min_freq >= (0.9 + 0.8*q/len_df)/q *)
Theorem C09_quantile_bucket_bound_min_freq_partial_binary64 : forall dedup mf q len_df vc l,
  Sorted Z.lt (observed_values vc) -> Forall (fun p => 0 < snd p) vc -> total vc <= len_df ->
  len_df <= 2 ^ 50 -> 0 < q <= 2 ^ 50 ->
  snd mf <= 0 -> (9 * len_df + 8 * q) * 2 ^ (- snd mf) <= 10 * q * fst mf * len_df ->
  find_quantiles_v dedup q len_df vc = QOk l ->
  forall lo hi, In (lo, hi) (bounds None l) ->
  (forall b c, hi = Some b -> In (b, c) vc -> is_freq (thr len_df q) c = false) ->
  2 * bucket_count vc lo hi * 2 ^ (- snd mf) <= 5 * fst mf * len_df.
Proof. exact bucket_bound_min_freq_binary64. Qed.
Print Assumptions C09_quantile_bucket_bound_min_freq_partial_binary64.

(* the premises are satisfiable: min_freq = 0.25 = 1 * 2^-2, q = 4, 400 rows (40 missing), the bucket
   (1, 4] holds 163 rows <= 2.5 * 0.25 * 400 *)
Example C09_quantile_bucket_bound_binary64_nonvacuous :
  let vc := [(1, 90); (2, 9); (3, 55); (4, 99); (5, 99); (6, 8)] in
  Sorted Z.lt (observed_values vc) /\ Forall (fun p => 0 < snd p) vc /\ total vc <= 400
  /\ q_of_min_freq (1, -2) = Some 4
  /\ (9 * 400 + 8 * 4) * 2 ^ 2 <= 10 * 4 * 1 * 400
  /\ find_quantiles_v true 4 400 vc = QOk [1; 4; 5]
  /\ In (Some 1, Some 4) (bounds None [1; 4; 5])
  /\ (forall b c, Some 4 = Some b -> In (b, c) vc -> is_freq (thr 400 4) c = false)
  /\ bucket_count vc (Some 1) (Some 4) = 163.
Proof.
  cbv zeta. split; [repeat constructor|]. split; [repeat constructor|]. split; [vm_compute; discriminate|].
  split; [vm_compute; reflexivity|]. split; [vm_compute; discriminate|]. split; [vm_compute; reflexivity|].
  split; [right; left; reflexivity|]. split; [|vm_compute; reflexivity].
  intros b c E Hin. injection E as <-.
  repeat (destruct Hin as [E|Hin]; [inversion E; subst; vm_compute; reflexivity|]).
  destruct Hin.
Qed.

(* and the search itself never fails there (no QFloat / QIndex outcome: every computed position is
   an index of the sorted sub-sample): this settles, for len_df <= 2^50, the question left open in
   Proofs/QuantFitProofs.v about QFail with positive counts *)
Theorem C09_quantile_bucket_bound_never_fails : forall dedup q len_df vc,
  Sorted Z.lt (observed_values vc) -> Forall (fun p => 0 < snd p) vc ->
  0 < q <= 2 ^ 50 -> total vc <= len_df -> len_df <= 2 ^ 50 ->
  exists l, find_quantiles_v dedup q len_df vc = QOk l
    /\ forall lo hi, In (lo, hi) (bounds None l) ->
       (forall b c, hi = Some b -> In (b, c) vc -> is_freq (thr len_df q) c = false) ->
       4 * q * bucket_count vc lo hi <= 9 * len_df + 8 * q.
Proof. exact bucket_bound_total_binary64. Qed.
Print Assumptions C09_quantile_bucket_bound_never_fails.
