(* C05 — Unseen data is given fitted labels or rejected, never passed through
   (+ the transform half of C03: monotone step function).
   Only statements closed by `exact`.  Model: Model/Transform.v; vocabulary: Proofs/TransformSpec.v. *)
From Coq Require Import Sorting.Sorted.
From AC.Model Require Import Base GroupedList Labels Transform FormatRule CheckC04 CheckC05.
From AC.Proofs Require Import GroupedListSpec TransformSpec LabelsProofs TransformProofs
  CheckC04Proofs.

(* for EVERY cell: AssertionError for a stated reason (unexpected NaN / unseen category without
   default group), or a label of the fitted label set; never another exception, never the raw
   value.  Premises: well-formed order, label table computed from it, +inf sentinel. *)
Theorem C05_transform_total : forall fmt st c,
  coherent fmt st -> nan_ok st -> sentinel st ->
  (st_kind st = Quant -> is_str c = false) ->
  (transform_cell st c = AssertErr /\ reject st c) \/
  (exists o, transform_cell st c = Ok o /\ in_label_set fmt st o).
Proof. exact transform_total. Qed.
Print Assumptions C05_transform_total.

Theorem C05_finite_numbers_never_rejected : forall fmt st z,
  coherent fmt st -> nan_ok st -> sentinel st -> st_kind st = Quant ->
  exists l, In l (labels_of fmt st) /\ transform_cell st (VNum z) = Ok (reinstate st (OLab l)).
Proof. exact finite_never_rejected. Qed.
Print Assumptions C05_finite_numbers_never_rejected.

Theorem C05_unseen_category_goes_to_default : forall fmt st c,
  coherent fmt st -> nan_ok st -> st_kind st = Qual ->
  c <> VNaN -> ~ In c (values (st_order st)) -> c <> st_nan st ->
  In (st_default st) (values (st_order st)) ->
  st_default st <> VNaN ->
  transform_cell st c = transform_cell st (st_default st) /\
  exists l, In l (labels_of fmt st) /\ transform_cell st c = Ok (reinstate st (OLab l)).
Proof. exact unseen_goes_to_default. Qed.
Print Assumptions C05_unseen_category_goes_to_default.

(* the +inf premise is necessary: without the sentinel the raw value leaks *)
Theorem C05_sentinel_necessary :
  coherent [(VNum 1, "1.000e+00"%string); (VNum 2, "2.000e+00"%string)] leaky_state /\
  nan_ok leaky_state /\ ~ sentinel leaky_state /\
  transform_cell leaky_state (VNum 5) = Ok (ORaw (VNum 5)).
Proof. exact sentinel_necessary. Qed.
Print Assumptions C05_sentinel_necessary.

(* every state the checker's boolean premises accept satisfies the premises above *)
Theorem C05_checker_premises_sound : forall c,
  premises_b c = true ->
  coherent (t_fmt c) (t_state c) /\ nan_ok (t_state c) /\ sentinel (t_state c).
Proof. exact premises_sound. Qed.
Print Assumptions C05_checker_premises_sound.

(* C03, transform half: non-decreasing step function over the whole carrier *)
Theorem C03_transform_monotone : forall fmt st x x',
  coherent fmt st -> nan_ok st -> sentinel st -> st_kind st = Quant -> st_odt st = OFloat ->
  nan_separate st ->
  is_num x = true -> is_num x' = true -> num_le x x' = true ->
  exists i i', transform_cell st x = Ok (OLab (LRank i)) /\
               transform_cell st x' = Ok (OLab (LRank i')) /\ (i <= i')%nat.
Proof. exact transform_monotone. Qed.
Print Assumptions C03_transform_monotone.

(* right-closed intervals, the last one unbounded *)
Theorem C03_transform_right_closed_intervals : forall fmt st zs x pre l post i,
  coherent fmt st -> nan_ok st -> st_kind st = Quant ->
  quant_leaders st = map VNum zs ++ [VPInf] -> StronglySorted Z.lt zs ->
  is_num x = true ->
  quant_leaders st = pre ++ l :: post ->
  (forall p, nth_error pre (List.length pre - 1) = Some p -> num_le x p = false) ->
  num_le x l = true ->
  nth_error (keys (st_order st)) i = Some l ->
  exists lab, label_at fmt st i = Some lab /\ transform_cell st x = Ok (reinstate st (OLab lab)).
Proof. exact transform_interval. Qed.
Print Assumptions C03_transform_right_closed_intervals.

(* non-vacuity: a coherent state with NaN group, default group and sentinel premises *)
Example C05_nonvacuous :
  let c := mkTCase true Qual [VStr "a"; VStr "__OTHER__"; VStr "__NAN__"]
             [(VStr "a", [VStr "a"]); (VStr "__OTHER__", [VStr "z"; VStr "__OTHER__"]);
              (VStr "__NAN__", [VStr "__NAN__"])]
             (VStr "__NAN__") (VStr "__OTHER__") true OFloat [[]] 1 [] [] [] (IOk []) in
  premises_b c = true /\
  transform_cell (t_state c) (VStr "never seen") = Ok (OLab (LRank 1)) /\
  transform_cell (t_state c) VNaN = Ok (OLab (LRank 2)).
Proof. cbv zeta. repeat split; vm_compute; reflexivity. Qed.
