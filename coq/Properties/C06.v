(* C06 — JSON save/load round trip preserves behaviour.
   Only statements closed by `exact`.  Definitions: Model/Json.v (executable model of
   serialization.py, to_json, load_discretizer, load_carver; run against the Python code on every
   check), Proofs/JsonProofs.v (hypotheses `trip_ok`, `vo_ok`, `state_ok`, `json_clean`, `ordered`).

   jk : number -> key string written by json.dumps   (CPython table, per case)
   ps : number -> str() of the reloaded number        (CPython table, per case)            *)
From AC.Model Require Import Base GroupedList CheckC13 Json CheckC06.
From AC.Proofs Require Import GroupedListSpec JsonProofs.
Open Scope string_scope.

(* ONE FEATURE, any group structure: if it is well formed, stores no -inf / nan / "numpy.inf",
   its leaders get pairwise distinct JSON keys and str() of a reloaded number is the key dumps
   wrote, then  deserialize (loads (dumps (serialize g)))  succeeds with the same ordered list of
   leaders and, for every leader, exactly the same member list (content dict in list order) *)
Theorem C06_roundtrip_feature : forall jk ps g,
  WF g ->
  Forall clean (values g) ->
  (forall a b, In a (keys g) -> In b (keys g) ->
               key_string jk (to_base a) = key_string jk (to_base b) -> a = b) ->
  (forall z, In (VNum z) (keys g) -> jk (VNum z) <> sentinel /\ ps (VNum z) = jk (VNum z)) ->
  roundtrip_gl jk ps g = Ok (mkGL (keys g) (map (fun k => (k, get g k)) (keys g))).
Proof. exact (fun jk ps g H1 H2 H3 H4 => roundtrip_gl_ok jk ps g (mkTripOk jk ps g H1 H2 H3 H4)). Qed.
Print Assumptions C06_roundtrip_feature.

(* THE WHOLE OBJECT (roundtrip_state), any number of features, any class:
   to_json -> json.dumps -> json.loads -> load_carver / load_discretizer succeeds and the
   reloaded state has the same features, the same values_orders (each content dict in list
   order), the same other attributes and the same _history attribute *)
Theorem C06_roundtrip_state : forall jk ps s,
  state_ok jk ps s -> json_clean (st_meta s) -> json_clean (st_history s) ->
  exists s', load ps (file_trip jk (to_json jk s)) = Ok s' /\
             st_features s' = st_features s /\
             st_vo s' = normalise_vo (st_vo s) /\
             st_meta s' = st_meta s /\
             st_history s' = st_history s.
Proof. exact roundtrip_state. Qed.
Print Assumptions C06_roundtrip_state.

(* BEHAVIOUR (roundtrip_behaviour): transform on ANY frame (output or rejection), labels and
   summary are functions of (features, values_orders, other attributes); whatever such a function
   is, the reloaded object computes it on the same arguments (content dicts in list order) *)
Theorem C06_roundtrip_behaviour :
  forall (B : Type) (behaviour : list val -> list (val * gl) -> jv -> B) jk ps s,
  state_ok jk ps s -> json_clean (st_meta s) ->
  exists s', load ps (file_trip jk (to_json jk s)) = Ok s' /\
             behaviour (st_features s') (st_vo s') (st_meta s') =
             behaviour (st_features s) (normalise_vo (st_vo s)) (st_meta s).
Proof. exact roundtrip_behaviour. Qed.
Print Assumptions C06_roundtrip_behaviour.

(* the normalisation is the identity on a content dict that is in list order, and idempotent *)
Theorem C06_normalise :
  (forall g, NoDup (dkeys (content g)) -> dkeys (content g) = keys g -> normalise g = g) /\
  (forall g, normalise (normalise g) = normalise g).
Proof. exact (conj normalise_ordered normalise_idem). Qed.
Print Assumptions C06_normalise.

(* IDEMPOTENCE, EVERY CLASS (roundtrip_idempotent), after the repairs 706e270 (a reloaded carver
   writes its history again) and 1da3036 (content written in list order): the reloaded object
   serialises to the very same JSON, whatever the order of the content dicts; a carver must have a
   history (json null would be dropped).  If the content dicts are in list order the reloaded
   values_orders is even the original one. *)
Theorem C06_roundtrip_idempotent : forall jk ps s,
  state_ok jk ps s -> json_clean (st_meta s) -> json_clean (st_history s) ->
  (st_class s = KCarver -> st_history s <> JNone) ->
  exists s', load ps (file_trip jk (to_json jk s)) = Ok s' /\
             to_json jk s' = to_json jk s /\
             file_trip jk (to_json jk s') = file_trip jk (to_json jk s) /\
             ((forall f g, In (f, g) (st_vo s) -> ordered g) -> st_vo s' = st_vo s).
Proof. exact roundtrip_idempotent. Qed.
Print Assumptions C06_roundtrip_idempotent.

(* the written document does not depend on the order of the content dict (no hypothesis) *)
Theorem C06_serialize_normalise :
  (forall g, serialize_feature (normalise g) = serialize_feature g) /\
  (forall jk vo, vo_text jk (normalise_vo vo) = vo_text jk vo).
Proof. exact (conj serialize_normalise vo_text_normalise). Qed.
Print Assumptions C06_serialize_normalise.

(* plain JSON data (distinct string keys at every level) goes through json.dumps / json.loads
   unchanged: this is what carries the other attributes and the history *)
Theorem C06_loads_dumps_plain : forall jk j, json_clean j -> loads (dumps jk j) = j.
Proof. exact loads_dumps_id. Qed.
Print Assumptions C06_loads_dumps_plain.

(* NECESSITY of each hypothesis of C06_roundtrip_feature, by closed witnesses *)
Theorem C06_witness_key_collision :          (* leaders 1 and "1" in one feature *)
  WF w_collision /\ Forall clean (values w_collision) /\
  (forall z, In (VNum z) (keys w_collision) -> w_jk (VNum z) <> sentinel /\ w_jk (VNum z) = w_jk (VNum z)) /\
  roundtrip_gl w_jk w_jk w_collision = AssertErr.
Proof. exact witness_key_collision. Qed.
Print Assumptions C06_witness_key_collision.

Theorem C06_witness_sentinel_category :      (* a category literally named "numpy.inf" *)
  WF w_sentinel /\ trip_ok_b w_jk w_jk (mkGL [VStr "a"] [(VStr "a", [VStr "a"])]) = true /\
  roundtrip_gl w_jk w_jk w_sentinel =
    Ok (mkGL [VStr "a"; VPInf] [(VStr "a", [VStr "a"]); (VPInf, [VPInf])]) /\
  roundtrip_gl w_jk w_jk w_sentinel <> Ok (normalise w_sentinel).
Proof. exact witness_sentinel_category. Qed.
Print Assumptions C06_witness_sentinel_category.

Theorem C06_witness_neg_inf :                (* a -inf boundary *)
  WF w_neginf /\
  roundtrip_gl w_jk w_jk w_neginf = Ok (mkGL [VPInf; VNum 5] [(VPInf, [VPInf]); (VNum 5, [VNum 2; VNum 5])]) /\
  roundtrip_gl w_jk w_jk w_neginf <> Ok (normalise w_neginf).
Proof. exact witness_neg_inf. Qed.
Print Assumptions C06_witness_neg_inf.

Theorem C06_witness_str_differs_from_key :   (* str(reloaded number) <> key written by dumps *)
  roundtrip_gl w_jk (fun _ => "2.50") (mkGL [VNum 5] [(VNum 5, [VNum 5])]) = InternalErr.
Proof. exact witness_str_differs_from_key. Qed.
Print Assumptions C06_witness_str_differs_from_key.

Theorem C06_witness_unordered_content :      (* content dict not in list order: only st_vo s' = st_vo s needs `ordered` *)
  trip_ok_b w_jk w_jk w_unordered = true /\
  roundtrip_gl w_jk w_jk w_unordered = Ok (normalise w_unordered) /\
  normalise w_unordered <> w_unordered /\
  dumps w_jk (serialize_feature (normalise w_unordered)) = dumps w_jk (serialize_feature w_unordered).
Proof. exact witness_unordered_content. Qed.
Print Assumptions C06_witness_unordered_content.

(* the checker's booleans, evaluated on the IMPLEMENTATION's states, mean what they say *)
Theorem C06_checker_sound :
  (forall jk ps g, trip_ok_b jk ps g = true -> trip_ok jk ps g) /\
  (forall f, trip_ok_b (jkf f) (psf f) (f_orig f) = true -> model_reload f = Ok (normalise (f_orig f))) /\
  (forall a b, same_groups a b = true ->
     keys a = keys b /\ (forall k, In k (keys a) -> get a k = get b k) /\
     (forall k, In k (dkeys (content a)) <-> In k (dkeys (content b)))).
Proof. exact (conj trip_ok_b_sound (conj checker_link same_groups_sound)). Qed.
Print Assumptions C06_checker_sound.

(* hypotheses are satisfiable: a Discretizer and a carver with a quantitative feature (finite
   boundaries, +inf, __NAN__) and a qualitative one (numeric member 1 next to "1", default group) *)
Example C06_nonvacuous :
  state_ok w_jk w_jk (ex_state KDiscretizer) /\ json_clean (st_meta (ex_state KDiscretizer)) /\
  load w_jk (file_trip w_jk (to_json w_jk (ex_state KDiscretizer))) =
    Ok (ex_state KDiscretizer) /\
  state_ok w_jk w_jk (ex_state KCarver) /\ json_clean (st_history (ex_state KCarver)) /\
  st_history (ex_state KCarver) <> JNone /\
  (exists s', load w_jk (file_trip w_jk (to_json w_jk (ex_state KCarver))) = Ok s' /\
              st_vo s' = st_vo (ex_state KCarver) /\ st_history s' = st_history (ex_state KCarver) /\
              to_json w_jk s' = to_json w_jk (ex_state KCarver)).
Proof. exact example_nonvacuous. Qed.
