(* C13 — GroupedList stays a consistent ordered partition under any history.
   Only statements closed by `exact`; definitions live in Model/GroupedList.v (the executable
   model run against the Python class on every check) and Proofs/GroupedListSpec.v. *)
From Coq Require Import Permutation.
From AC.Model Require Import Base GroupedList CheckC13.
From AC.Proofs Require Import GroupedListSpec GroupedListProofs CheckC13Proofs.

(* every constructor yields a well-formed partition *)
Theorem C13_wf_constructors :
  (forall l, NoDup l -> WF (of_list l)) /\
  (forall d g, NoDup (dkeys d) -> of_dict d = Ok g -> WF g) /\
  (forall g, WF g -> WF (copy g)).
Proof. exact C13_constructors. Qed.
Print Assumptions C13_wf_constructors.

(* after ANY finite history of valid operations the invariant holds and no call failed *)
Theorem C13_wf_every_history :
  forall ops g, WF g -> valid_run g ops -> exists g', run_final g ops = Ok g' /\ WF g'.
Proof. exact wf_run. Qed.
Print Assumptions C13_wf_every_history.

(* each operation's effect equals that of the plain reference model (ordered leader -> members) *)
Theorem C13_refines_reference_model :
  forall g o g', WF g -> valid g o -> step g o = Ok g' -> abs g' = s_step (abs g) o.
Proof. exact abs_step. Qed.
Print Assumptions C13_refines_reference_model.

(* get / get_group / values / contains agree with content, for every argument (NaN included) *)
Theorem C13_lookups_agree_with_content :
  (forall g k vs v, WF g -> In (k, vs) (content g) -> In v vs -> get_group g v = k) /\
  (forall g v, (forall k vs, In (k, vs) (content g) -> ~ In v vs) -> get_group g v = v) /\
  (forall g v, contains g v = true <-> In v (values g)) /\
  (forall g k, WF g -> get g k = s_members (abs g) k) /\
  (forall g, WF g -> Permutation (values g) (flat_map snd (abs g))).
Proof. exact C13_lookups. Qed.
Print Assumptions C13_lookups_agree_with_content.

(* no value disappears except through remove/pop; append adds exactly what is passed *)
Theorem C13_no_value_disappears :
  (forall g o g', WF g -> valid g o -> preserving o -> step g o = Ok g' ->
                  Permutation (values g') (values g)) /\
  (forall g v, WF g -> ~ In v (values g) -> Permutation (values (append g v)) (v :: values g)) /\
  (forall g v g', WF g -> In v (keys g) -> remove g v = Ok g' ->
                  Permutation (values g) (get g v ++ values g')).
Proof. exact C13_values. Qed.
Print Assumptions C13_no_value_disappears.

(* the checker's boolean invariant (evaluated on the IMPLEMENTATION's states) is the invariant *)
Theorem C13_checker_sound : forall g, wf_b g = true <-> WF g.
Proof. exact wf_b_spec. Qed.
Print Assumptions C13_checker_sound.

(* hypotheses are satisfiable: a concrete non-trivial valid history *)
Example C13_nonvacuous :
  let g0 := of_list [VStr "a"; VStr "b"; VNum 0; VNum 5] in
  let ops := [OGroup (VStr "a") (VStr "b"); OAppend (VNum 7); OReplaceLeader (VStr "b") (VStr "a");
              OSort; OPop (-1)] in
  WF g0 /\ valid_run g0 ops /\ wf_b g0 = true.
Proof. exact C13_example. Qed.
