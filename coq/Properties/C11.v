(* C11 — carving is invariant under information-preserving re-encodings (on the model).
   The carving model reads a sample only through `aggregate`: per unit (rank of the row's feature
   value in the feature's order) the multiset of target values.  It never reads a row index, a
   category name or a numeric value. *)
From Coq Require Import ZArith List Permutation.
Import ListNotations.
From AC.Model Require Import Float Combos Measures Carve Aggregate.
From AC.Proofs Require Import AggregateProofs.
Local Open Scope Z_scope.

(* row permutations / index relabelling leave every unit's target multiset unchanged *)
Theorem C11_aggregate_row_permutation : forall m rows rows',
  Permutation rows rows' -> Forall2 ms_equiv (aggregate m rows) (aggregate m rows').
Proof. exact aggregate_perm. Qed.
Print Assumptions C11_aggregate_row_permutation.

(* the carver's decision depends on the multisets only, not on how they are listed *)
Theorem C11_carve_depends_on_multisets_only : forall cf d d', data_equiv d d' -> carve cf d = carve cf d'.
Proof. exact carve_ms_equiv. Qed.
Print Assumptions C11_carve_depends_on_multisets_only.

(* hence permuting the rows of train and (independently) dev, with missing rows, changes nothing *)
Theorem C11_carve_invariant_under_row_permutation : forall cf m train train' dev dev',
  Permutation train train' -> opt_rel (@Permutation _) dev dev' ->
  carve cf (sample_data m train dev) = carve cf (sample_data m train' dev').
Proof. exact carve_sample_permutation. Qed.
Print Assumptions C11_carve_invariant_under_row_permutation.

(* a strictly increasing re-encoding x -> phi x (e.g. a*x+b, a>0) of a quantitative feature, with
   the boundaries mapped along, sends every row to the same unit: same carving *)
Theorem C11_carve_invariant_under_re_encoding : forall cf (phi : Z -> Z),
  (forall a b, a < b -> phi a < phi b) -> forall m bs rows rows', Permutation rows rows' ->
  carve cf (mkData (aggregate m (quant_rows (map phi bs) (map (fun r => (phi (fst r), snd r)) rows'))) None None None)
  = carve cf (mkData (aggregate m (quant_rows bs rows)) None None None).
Proof. exact carve_monotone_map. Qed.
Print Assumptions C11_carve_invariant_under_re_encoding.

Theorem C11_unit_of_a_value_is_order_only : forall (phi : Z -> Z),
  (forall a b, a < b -> phi a < phi b) -> forall bs x, unit_index (map phi bs) (phi x) = unit_index bs x.
Proof. exact unit_index_monotone_map. Qed.
Print Assumptions C11_unit_of_a_value_is_order_only.

Example C11_nonvacuous :
  let cf := mkCfg 3 (f_of_dyadic 1 (-4)) true Cramerv in
  let rows := [(0%nat,0);(0%nat,1);(1%nat,1);(1%nat,1);(2%nat,0);(2%nat,0);(0%nat,0);(1%nat,0);(2%nat,1)] in
  exists c, carve cf (mkData (aggregate 3 rows) None None None) = Kept c /\
            carve cf (mkData (aggregate 3 (rev rows)) None None None) = Kept c.
Proof. eexists. split; vm_compute; reflexivity. Qed.
