(* C17 — Manual edits through update_discretizer are applied coherently. *)
From AC.Model Require Import Base GroupedList Labels Transform FormatRule Update.
From AC.Proofs Require Import GroupedListSpec TransformSpec UpdateProofs.

Theorem C17_labels_refresh_consistent : forall tables st m d k,
  snd (update tables st m d k) = UDone -> fitted tables (fst (update tables st m d k)).
Proof. exact labels_refresh_consistent. Qed.
Print Assumptions C17_labels_refresh_consistent.
