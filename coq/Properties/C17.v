(* C17 — Manual edits through update_discretizer are applied coherently.
   Only statements closed by `exact`.  Model: Model/Update.v (update_discretizer on the fitted state
   of one feature, REPAIRED code: pandas.isna, 'replace' accepts a member, summary per feature),
   run against the implementation after EVERY edit of every generated history
   (Model/CheckC17.v, harness/props/c17.py).  Vocabulary: Proofs/UpdateProofs.v
   (`valid_edit`, `fitted`, `expected_abs`), WF/abs/s_group of C13, coherent/label_at of C04.
   `tables` are the per-object tables  number -> f"{x:.{n}e}"  (CPython is the oracle). *)
From AC.Model Require Import Base GroupedList Labels Transform FormatRule Update.
From AC.Proofs Require Import GroupedListSpec TransformSpec UpdateProofs.

(* a valid edit completes (or only warns: discarded already in kept's group), the order remains a
   consistent partition, and a fitted state remains fitted — all states, all arguments *)
Theorem C17_valid_edit_keeps_wf : forall tables st m d k,
  WF (st_order st) -> st_nan st <> VNaN -> valid_edit st m d k ->
  (snd (update tables st m d k) = UDone \/ snd (update tables st m d k) = UWarn) /\
  WF (st_order (fst (update tables st m d k))) /\
  (fitted tables st -> fitted tables (fst (update tables st m d k))).
Proof. exact update_preserves_wf. Qed.
Print Assumptions C17_valid_edit_keeps_wf.

(* every valid edit (kept may also be a NEW name in mode 'group': it is appended as a new last group
   first): either a warning and nothing changes, or the call completes on a well-formed order
   whose groups are exactly `expected_abs` (reference model of C13) *)
Theorem C17_valid_edit_effect : forall tables st m d k,
  WF (st_order st) -> st_nan st <> VNaN -> valid_edit st m d k ->
  (get_group (st_order st) (eff_d st d) = k /\
   update tables st m d k = (after_nan_test st d, UWarn))
  \/
  (get_group (st_order st) (eff_d st d) <> k /\
   exists g', WF g' /\ abs g' = expected_abs m (st_order st) (eff_d st d) k /\
     update tables st m d k = (refresh tables (set_order (after_nan_test st d) g'), UDone)).
Proof. exact update_valid. Qed.
Print Assumptions C17_valid_edit_effect.

(* mode 'group': the discarded group (or the new modality / the missing value) is prepended to the
   kept group, the discarded leader leaves the list, every other group is untouched *)
Theorem C17_group_effect : forall tables st d k,
  WF (st_order st) -> st_nan st <> VNaN -> valid_edit st MGroup d k -> In k (keys (st_order st)) ->
  let g := st_order st in
  let d' := eff_d st d in
  let g' := st_order (fst (update tables st MGroup d k)) in
  get_group g d' <> k ->
  snd (update tables st MGroup d k) = UDone /\
  abs g' = expected_abs MGroup g d' k /\
  keys g' = filter (fun x => negb (val_eqb d' x)) (keys g) /\
  get g' k = (if mem d' (keys g) then get g d' else [d']) ++ get g k /\
  (forall x, x <> k -> x <> d' -> get g' x = get g x).
Proof. exact update_group_effect. Qed.
Print Assumptions C17_group_effect.

(* mode 'replace' (kept unknown, or a member of discarded's group) only renames: same groups at the
   same positions, leader d' -> k (an unknown k also joins the group) *)
Theorem C17_replace_only_renames : forall tables st d k,
  WF (st_order st) -> st_nan st <> VNaN -> valid_edit st MReplace d k ->
  let g := st_order st in
  let d' := eff_d st d in
  let g' := st_order (fst (update tables st MReplace d k)) in
  k <> d' ->
  snd (update tables st MReplace d k) = UDone /\
  abs g' = map (fun kv => if val_eqb d' (fst kv)
                          then (k, if mem k (snd kv) then snd kv else k :: snd kv) else kv) (abs g) /\
  keys g' = map (fun x => if val_eqb d' x then k else x) (keys g).
Proof. exact update_replace_only_renames. Qed.
Print Assumptions C17_replace_only_renames.

(* label refresh: after EVERY completed call (valid or not) the state equals the state
   BaseDiscretizer.fit() / load_discretizer builds from the new order and flags; hence transform,
   summary and the JSON round trip — functions of order + flags + that table — agree *)
Theorem C17_labels_refresh_consistent : forall tables st m d k,
  snd (update tables st m d k) = UDone -> fitted tables (fst (update tables st m d k)).
Proof. exact labels_refresh_consistent. Qed.
Print Assumptions C17_labels_refresh_consistent.

(* every finite history of valid edits: no call fails, every intermediate and the final state have
   a well-formed order and are fitted (induction over the history) *)
Theorem C17_every_history : forall tables es st,
  WF (st_order st) -> st_nan st <> VNaN -> fitted tables st -> valid_history tables st es ->
  Forall (good tables) (run_edits tables st es) /\
  WF (st_order (final_state tables st es)) /\ fitted tables (final_state tables st es).
Proof. exact update_every_history. Qed.
Print Assumptions C17_every_history.

(* qualitative features: after 'group', transform sends every member of the discarded AND of the
   kept group to the label of the kept group's position, members of any other group to their own
   group's label (C04 applied to the post-edit state) *)
Theorem C17_transform_after_edit_qualitative : forall tables st d k x i v,
  WF (st_order st) -> nan_ok st -> st_kind st = Qual -> valid_edit st MGroup d k ->
  In k (keys (st_order st)) ->
  get_group (st_order st) (eff_d st d) <> k ->
  let g := st_order st in
  let d' := eff_d st d in
  let st' := fst (update tables st MGroup d k) in
  nan_is_last st' ->
  nth_error (keys (st_order st')) i = Some x ->
  In v (if val_eqb x k then (if mem d' (keys g) then get g d' else [d']) ++ get g k else get g x) ->
  v <> VNaN ->
  exists l, label_at (fmt_of tables (st_nan st') (st_order st')) st' i = Some l /\
            transform_cell st' v = Ok (reinstate st' (OLab l)).
Proof. exact transform_after_group_qual. Qed.
Print Assumptions C17_transform_after_edit_qualitative.

(* quantitative features, UPWARD merge of adjacent leaders (d immediately before k, d <= k): the
   numbers whose first leader >= x was d now go to k, every other number keeps its leader *)
Theorem C17_quantitative_upward_merge : forall tables st d k pre post,
  WF (st_order st) -> st_nan st <> VNaN ->
  quant_leaders st = pre ++ d :: k :: post -> num_le d k = true ->
  let st' := fst (update tables st MGroup d k) in
  snd (update tables st MGroup d k) = UDone /\
  quant_leaders st' = pre ++ k :: post /\
  get (st_order st') k = get (st_order st) d ++ get (st_order st) k /\
  forall x,
    (first_leader x (quant_leaders st) = Some d -> first_leader x (quant_leaders st') = Some k) /\
    (forall l, l <> d -> first_leader x (quant_leaders st) = Some l ->
               first_leader x (quant_leaders st') = Some l) /\
    (first_leader x (quant_leaders st) = None -> first_leader x (quant_leaders st') = None).
Proof. exact update_quant_upward. Qed.
Print Assumptions C17_quantitative_upward_merge.

(* ... and transform is that lookup on the refreshed labels, after any completed call *)
Theorem C17_transform_after_edit_quantitative : forall tables st m d k x l i,
  let st' := fst (update tables st m d k) in
  snd (update tables st m d k) = UDone -> WF (st_order st') -> nan_is_last st' ->
  st_kind st = Quant -> nan_ok st -> sentinel st' -> is_num x = true ->
  first_leader x (quant_leaders st') = Some l ->
  nth_error (keys (st_order st')) i = Some l ->
  exists lab, label_at (fmt_of tables (st_nan st') (st_order st')) st' i = Some lab /\
              transform_cell st' x = Ok (reinstate st' (OLab lab)).
Proof. exact transform_after_edit_quant. Qed.
Print Assumptions C17_transform_after_edit_quantitative.

(* O8c (known finding): the same statement is FALSE for a downward merge (kept < discarded):
   leaders [1;3;5;inf], group(5 -> 3): x = 4 was in 5's interval and lands in inf's group *)
Theorem C17_downward_merge_refuted :
  exists tables st d k x pre post,
    WF (st_order st) /\ fitted tables st /\
    quant_leaders st = pre ++ k :: d :: post /\ num_le k d = true /\ valid_edit st MGroup d k /\
    let st' := fst (update tables st MGroup d k) in
    snd (update tables st MGroup d k) = UDone /\
    first_leader x (quant_leaders st) = Some d /\
    first_leader x (quant_leaders st') <> Some k /\
    lget k (st_lpv st') = Some (LVal (VStr "1.000e+00 < x <= 3.000e+00")) /\
    transform_cell st' x = Ok (OLab (LVal (VStr "3.000e+00 < x"))).
Proof. exact downward_merge_refuted. Qed.
Print Assumptions C17_downward_merge_refuted.

(* O8b (known finding): once NaN is merged into a group, "missing values into an existing group"
   is refused (AssertionError: __NAN__ not in list) *)
Theorem C17_nan_regroup_refuted :
  exists tables st k,
    WF (st_order st) /\ fitted tables st /\ In k (keys (st_order st)) /\
    In (st_nan st) (values (st_order st)) /\
    snd (update tables st MGroup VNaN k) = UAssert.
Proof. exact nan_regroup_refuted. Qed.
Print Assumptions C17_nan_regroup_refuted.

(* validity cannot be dropped: a REJECTED call is not atomic (kept appended, labels stale) and the
   next transform fails *)
Theorem C17_rejected_edit_can_break_refuted :
  exists tables st d k,
    WF (st_order st) /\ fitted tables st /\
    let st' := fst (update tables st MGroup d k) in
    snd (update tables st MGroup d k) = UAssert /\ ~ fitted tables st' /\
    transform_col st [VNum 4] = Ok [OLab (LVal (VStr "1.000e+00 < x <= 5.000e+00"))] /\
    transform_col st' [VNum 4] = InternalErr.
Proof. exact rejected_edit_can_break. Qed.
Print Assumptions C17_rejected_edit_can_break_refuted.

(* O50 (repaired): grouping into a NEW name while '__NAN__' is its own group puts the new leader
   AFTER '__NAN__'; labels follow their groups (before the repair: a,NEW -> '__NAN__', NaN -> NEW) *)
Theorem C17_new_name_with_nan_group :
  let st := refresh [] (mkState Qual (of_list [VStr "a"; VStr "b"; VStr "__NAN__"]) (VStr "__NAN__")
                                (VStr "__OTHER__") true OStr []) in
  let st' := fst (update [] st MGroup (VStr "a") (VStr "NEW")) in
  valid_edit st MGroup (VStr "a") (VStr "NEW") /\
  keys (st_order st') = [VStr "b"; VStr "__NAN__"; VStr "NEW"] /\
  transform_cell st' (VStr "a") = Ok (OLab (LVal (VStr "NEW"))) /\
  transform_cell st' VNaN = Ok (OLab (LVal (VStr "__NAN__"))).
Proof. exact new_name_with_nan_group. Qed.
Print Assumptions C17_new_name_with_nan_group.

(* the decidable form of `valid_edit` / `valid_history` used for concrete histories is sound *)
Theorem C17_valid_history_decidable_sound : forall tables es st,
  valid_history_b tables st es = true -> valid_history tables st es.
Proof. exact valid_history_b_sound. Qed.
Print Assumptions C17_valid_history_decidable_sound.

(* non-vacuity: a concrete fitted state and a valid history (string edit, NaN edit, fresh modality,
   'replace' by a member and by a fresh name) satisfying every hypothesis above *)
Example C17_nonvacuous :
  let st := fitted_state_auto Qual (of_list [VStr "a"; VStr "b"; VStr "c"; VStr "__NAN__"])
              (VStr "__NAN__") (VStr "__OTHER__") false OStr [] in
  let es := [mkEdit MGroup (VStr "a") (VStr "b"); mkEdit MGroup VNaN (VStr "c");
             mkEdit MGroup (VStr "zz") (VStr "c"); mkEdit MReplace (VStr "b") (VStr "a");
             mkEdit MReplace (VStr "c") (VStr "C")] in
  WF (st_order st) /\ st_nan st <> VNaN /\ fitted [] st /\ valid_history [] st es /\
  map snd (run_edits [] st es) = [UDone; UDone; UDone; UDone; UDone] /\
  abs (st_order (final_state [] st es))
    = [(VStr "a", [VStr "a"; VStr "b"]); (VStr "C", [VStr "C"; VStr "zz"; VStr "__NAN__"; VStr "c"])] /\
  transform_cell (final_state [] st es) VNaN = Ok (OLab (LVal (VStr "C"))).
Proof. exact nonvacuous_example. Qed.
