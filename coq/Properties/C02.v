(* C02 — carved features respect max_n_mod, min_freq_mod and dev robustness (on the model). *)
From Coq Require Import ZArith QArith List Bool.
Import ListNotations.
From AC.Model Require Import Float Combos Measures Carve CheckC01.
From AC.Proofs Require Import CombosProofs CarveProofs CheckC01Proofs.

(* the kept grouping has at most max_n_mod groups (missing-value group included) and is viable
   on the FINAL units: every group carries at least min_freq_mod of the rows, adjacent rates are
   distinct, and with a dev sample both hold there too with groups ranked identically.
   dev_aligned: one dev aggregate per train modality (guaranteed by the harness; the verdict
   function returns "outside the model's domain" otherwise). *)
Theorem C02_bounds_of_kept_grouping : forall cf d c, dev_aligned d -> carve cf d = Kept c ->
  (length c <= max_n_mod cf)%nat /\ viable cf (final_units d) (final_dev_units d) c = true.
Proof. exact carve_bounds. Qed.
Print Assumptions C02_bounds_of_kept_grouping.

(* unfolding of the frequency / distinct-rate clauses *)
Theorem C02_rows_ok_means : forall mfm rows, rows_ok mfm rows = true <->
  (forall u, In u rows -> fgeb (freq (total_n rows) u) mfm = true) /\
  no_close_adjacent (map rate rows) = true.
Proof. exact rows_ok_unfold. Qed.
Print Assumptions C02_rows_ok_means.

(* the boolean evaluated at run time on the IMPLEMENTATION's outcome holds of the model *)
Theorem C02_checker_predicate_holds_on_model : forall cf d, dev_aligned d -> C02_b cf d (carve cf d) = true.
Proof. exact carve_satisfies_C02_b_partial. Qed.
Print Assumptions C02_checker_predicate_holds_on_model.

Theorem C02_domain_guard : forall d, dev_aligned_b d = true <-> dev_aligned d.
Proof. exact dev_aligned_b_spec. Qed.
Print Assumptions C02_domain_guard.

Example C02_nonvacuous :
  let cf := mkCfg 3 (f_of_dyadic 1 (-4)) true Cramerv in
  let d := mkData [[(0,5);(1,3)]; [(0,2);(1,6)]; [(0,4);(1,4)]]%Z (Some [(0,3);(1,3)]%Z)
                  (Some [[(0,6);(1,2)]; [(0,3);(1,5)]; [(0,4);(1,4)]]%Z) (Some [(0,2);(1,2)]%Z) in
  dev_aligned d /\ exists c, carve cf d = Kept c.
Proof. split; [reflexivity|]. eexists. vm_compute. reflexivity. Qed.

(* ------------------------------------------------------------------------------------------------
   Dev robustness and EXACT ties of target rates.  The code accepts a grouping only if
       train_rates.sort_values("target_rate").index == dev_rates.sort_values("target_rate").index
   pandas (nargsort, na_position='last') arranges the positions of the non-missing rates with numpy's
   argsort(kind='quicksort'), which is not stable, and appends the positions of the NaN rates in their
   original order; the model ([rank_order]) is a stable insertion sort, NaN last.  The theorems below
   justify the policy of CheckC01 ([has_tie], [no_strict_inversion], [rank_ambiguous], [tie_dependent]):
   a disagreement is excused only when some candidate carries an exact tie.
   [pandas_order rs l]: l is a possible result of the sort of the rates rs, for ANY sorting algorithm
   (some arrangement of the non-NaN positions with consecutive rates in [fleb] order, then the NaN
   positions in increasing order). *)
From Coq Require Import Permutation Sorted SpecFloat.
From AC.Proofs Require Import RankTieProofs.

(* 1. rates without NaN and without exact tie: ANY arrangement of all the positions in which consecutive
      rates are in the float order is the model's order, whatever algorithm produced it *)
Theorem C02_rank_order_is_sort_independent : forall (rs : list fl) (l : list nat),
  forallb (fun r => negb (f_is_nan r)) rs = true -> has_tie rs = false ->
  Permutation l (seq 0 (List.length rs)) ->
  Sorted (fun i j => fleb (nth i rs S754_nan) (nth j rs S754_nan) = true) l ->
  l = rank_order rs.
Proof. exact rank_order_sort_independent. Qed.
Print Assumptions C02_rank_order_is_sort_independent.

(* 1'. the same with NaN rates (groups that are empty on dev), as pandas treats them *)
Theorem C02_rank_order_is_sort_independent_with_nan : forall (rs : list fl) (l : list nat),
  has_tie rs = false -> pandas_order rs l -> l = rank_order rs.
Proof. exact pandas_order_tie_free. Qed.
Print Assumptions C02_rank_order_is_sort_independent_with_nan.

(* 1''. for ALL rates (ties included) the model's order is one of the possible results, and it is the
      stable one: the only permutation of the positions strictly sorted by (rate with NaN last, position) *)
Theorem C02_rank_order_is_the_stable_sort : forall (rs : list fl),
  pandas_order rs (rank_order rs) /\
  Permutation (rank_order rs) (seq 0 (List.length rs)) /\
  StronglySorted (slt rs) (rank_order rs) /\
  (forall l, Permutation l (seq 0 (List.length rs)) -> StronglySorted (slt rs) l -> l = rank_order rs).
Proof. exact rank_order_stable_sort_spec. Qed.
Print Assumptions C02_rank_order_is_the_stable_sort.

(* 2. without ties nor NaN the model's rank test is exactly "no pair of groups is strictly inverted
      between train and dev" *)
Theorem C02_same_ranks_without_ties : forall (a b : list fl),
  List.length a = List.length b ->
  forallb (fun r => negb (f_is_nan r)) a = true -> forallb (fun r => negb (f_is_nan r)) b = true ->
  has_tie a = false -> has_tie b = false ->
  (same_ranks a b = true <-> no_strict_inversion a b = true).
Proof. exact same_ranks_iff_no_inversion. Qed.
Print Assumptions C02_same_ranks_without_ties.

(* 2'. one direction needs no hypothesis at all: the rank test never passes over a strict inversion *)
Theorem C02_same_ranks_excludes_strict_inversion : forall (a b : list fl),
  same_ranks a b = true -> no_strict_inversion a b = true.
Proof. exact same_ranks_no_inversion. Qed.
Print Assumptions C02_same_ranks_excludes_strict_inversion.

(* 3. a candidate that is not rank-ambiguous is decided: the viability verdict computed with ANY pair of
      possible sort results ([viable_with]: frequencies, close rates, equality of the two orders) is the
      model's [viable].  No hypothesis on NaN or on the sizes. *)
Theorem C02_tie_free_candidates_are_decided :
  forall (cf : cfg) (train d : list ymset) (c : grouping) (l_train l_dev : list nat),
  rank_ambiguous cf train (Some d) c = false ->
  pandas_order (map rate (rows_of train c)) l_train ->
  pandas_order (map rate (rows_of d c)) l_dev ->
  viable_with cf train d c l_train l_dev = viable cf train (Some d) c.
Proof. exact tie_free_candidates_decided. Qed.
Print Assumptions C02_tie_free_candidates_are_decided.

(* 3'. and the hypothesis cannot be dropped: a rank-ambiguous candidate (train rates 1/4, 3/4, 1/2;
      dev rates 2/4, 3/4, 3/6: groups 0 and 2 exactly tied on dev) for which two possible sort results
      on dev give opposite verdicts.  This is the reason for verdict code 4. *)
Theorem C02_tied_rates_make_the_rank_test_sort_dependent :
  exists (cf : cfg) (train d : list ymset) (c : grouping) (l_train l_dev l_dev' : list nat),
    rank_ambiguous cf train (Some d) c = true
    /\ pandas_order (map rate (rows_of train c)) l_train
    /\ pandas_order (map rate (rows_of d c)) l_dev
    /\ pandas_order (map rate (rows_of d c)) l_dev'
    /\ viable_with cf train d c l_train l_dev = true
    /\ viable_with cf train d c l_train l_dev' = false.
Proof. exact tied_rates_sort_dependent. Qed.
Print Assumptions C02_tied_rates_make_the_rank_test_sort_dependent.

(* the hypotheses of 1, 2 and 3 are satisfiable *)
Example C02_rank_nonvacuous :
  let a := map rate tie_train in            (* 1/4, 3/4, 1/2 *)
  let b := map rate [[(0,5);(1,1)]; [(0,1);(1,3)]; [(0,3);(1,2)]]%Z in   (* 1/6, 3/4, 2/5 *)
  (forallb (fun r => negb (f_is_nan r)) a = true /\ has_tie a = false
   /\ Permutation [0; 2; 1]%nat (seq 0 (List.length a))
   /\ Sorted (fun i j => fleb (nth i a S754_nan) (nth j a S754_nan) = true) [0; 2; 1]%nat
   /\ rank_order a = [0; 2; 1]%nat)
  /\ (List.length a = List.length b /\ forallb (fun r => negb (f_is_nan r)) b = true
      /\ has_tie b = false /\ same_ranks a b = true)
  /\ (let cf := mkCfg 3 (f_of_dyadic 1 (-4)) true Cramerv in
      let train := [[(0,5);(1,3)]; [(0,2);(1,6)]; [(0,4);(1,4)]]%Z in
      let d := [[(0,6);(1,2)]; [(0,3);(1,5)]; [(0,4);(1,4)]]%Z in
      let c := [[0]; [1]; [2]]%nat in
      rank_ambiguous cf train (Some d) c = false
      /\ pandas_order (map rate (rows_of train c)) (rank_order (map rate (rows_of train c)))
      /\ pandas_order (map rate (rows_of d c)) (rank_order (map rate (rows_of d c)))
      /\ viable cf train (Some d) c = true).
Proof.
  split; [|split].
  - split; [vm_compute; reflexivity|]. split; [vm_compute; reflexivity|].
    split; [exact perm_021|]. split; [|vm_compute; reflexivity].
    repeat first [apply Sorted_nil | apply Sorted_cons | apply HdRel_nil | apply HdRel_cons
                 | (vm_compute; reflexivity)].
  - repeat split; vm_compute; reflexivity.
  - split; [vm_compute; reflexivity|]. split; [apply rank_order_is_pandas_order|].
    split; [apply rank_order_is_pandas_order|vm_compute; reflexivity].
Qed.
