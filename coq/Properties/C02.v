(* C02 — carved features respect max_n_mod, min_freq_mod and dev robustness (on the model). *)
From Coq Require Import ZArith QArith List Bool.
Import ListNotations.
From AC.Model Require Import Float Combos Measures Carve CheckC01.
From AC.Proofs Require Import CombosProofs CarveProofs CheckC01Proofs.

(* the kept grouping has at most max_n_mod groups (missing-value group included) and is viable
   on the FINAL units: every group carries at least min_freq_mod of the rows, adjacent rates are
   distinct, and with a dev sample both hold there too with groups ranked identically.
   dev_aligned: one dev aggregate per train modality (guaranteed by the harness; the verdict
   function returns "outside the model's domain" otherwise). *)
Theorem C02_bounds_of_kept_grouping : forall cf d c, dev_aligned d -> carve cf d = Kept c ->
  (length c <= max_n_mod cf)%nat /\ viable cf (final_units d) (final_dev_units d) c = true.
Proof. exact carve_bounds. Qed.
Print Assumptions C02_bounds_of_kept_grouping.

(* unfolding of the frequency / distinct-rate clauses *)
Theorem C02_rows_ok_means : forall mfm rows, rows_ok mfm rows = true <->
  (forall u, In u rows -> fgeb (freq (total_n rows) u) mfm = true) /\
  no_close_adjacent (map rate rows) = true.
Proof. exact rows_ok_unfold. Qed.
Print Assumptions C02_rows_ok_means.

(* the boolean evaluated at run time on the IMPLEMENTATION's outcome holds of the model *)
Theorem C02_checker_predicate_holds_on_model : forall cf d, dev_aligned d -> C02_b cf d (carve cf d) = true.
Proof. exact carve_satisfies_C02_b_partial. Qed.
Print Assumptions C02_checker_predicate_holds_on_model.

Theorem C02_domain_guard : forall d, dev_aligned_b d = true <-> dev_aligned d.
Proof. exact dev_aligned_b_spec. Qed.
Print Assumptions C02_domain_guard.

Example C02_nonvacuous :
  let cf := mkCfg 3 (f_of_dyadic 1 (-4)) true Cramerv in
  let d := mkData [[(0,5);(1,3)]; [(0,2);(1,6)]; [(0,4);(1,4)]]%Z (Some [(0,3);(1,3)]%Z)
                  (Some [[(0,6);(1,2)]; [(0,3);(1,5)]; [(0,4);(1,4)]]%Z) (Some [(0,2);(1,2)]%Z) in
  dev_aligned d /\ exists c, carve cf d = Kept c.
Proof. split; [reflexivity|]. eexists. vm_compute. reflexivity. Qed.
