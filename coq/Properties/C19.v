(* C19 — Malformed inputs are refused up-front with AssertionError (on the model: Model/Validate.v,
   the checks of __init__ / _prepare_data / fit / transform of the nine classes as ordered step
   lists; `Current` = /repo as it is now, `Before` = before the fix: commits a2fb996 ce46eee
   ff4805a cd23d68 65b7c26 2024976 4b0ac8a, kept for the historical records at the end). *)
From Coq Require Import List Bool Arith.
Import ListNotations.
From AC.Model Require Import Validate CheckC19.
From AC.Proofs Require Import ValidateProofs.

(* reject_<class>, for all malformed classes at once: for EVERY class, entry point and malformed
   class of the `guarded` table, every object whose history matches the entry point and EVERY
   input that exhibits the malformation — whatever else is wrong with it, provided it avoids
   the non-assertion failure points listed in C19_crash_gaps_refuted and the known gap O48
   (gap_free: an id-like ordinal feature is dropped before its values are checked, lemma
   id_like_gap_refuted) — the call ends in
   AssertionError.  Any state type, any write. *)
Theorem C19_reject_guarded :
  forall (S : Type) (w : S -> input -> S) (c : cls) (e : entry) (m : mal) (o : obj S) (i : input),
  guarded c e m = true ->
  fitted o = fitted_at e ->
  exhibits c e m (fitted o) i = true ->
  crash_free (steps w Current c e) (fitted o) i = true ->
  gap_free e m i = true ->
  fst (run_call (steps w Current c e) o i) = RAssert.
Proof. exact reject_guarded. Qed.
Print Assumptions C19_reject_guarded.

(* reject_frame, generic: when every step that can fail precedes every write, a call that does
   not end in Ok leaves the object as it was (any step list, any object) *)
Theorem C19_reject_frame_generic :
  forall (S : Type) (l : list (step S)) (o o' : obj S) (i : input) (r : result),
  checks_first l = true -> run_call l o i = (r, o') -> r <> ROk -> o' = o.
Proof. exact reject_frame_checks_first. Qed.
Print Assumptions C19_reject_frame_generic.

(* reject_frame, generic, for fitted objects: when nothing is written before the first guard, no
   call changes a fitted object *)
Theorem C19_frame_generic_fitted :
  forall (S : Type) (l : list (step S)) (o o' : obj S) (i : input) (r : result),
  writes_guarded l = true -> fitted o = true -> run_call l o i = (r, o') -> o' = o.
Proof. exact frame_writes_guarded. Qed.
Print Assumptions C19_frame_generic_fitted.

(* reject_frame for the concrete entry points of the current tree: a fitted object of any of the nine
   classes is left unchanged by ANY second fit or transform call, and the second fit is rejected
   with AssertionError whatever its arguments *)
Theorem C19_reject_frame_current :
  forall (S : Type) (w : S -> input -> S) (c : cls) (e : entry) (o o' : obj S) (i : input) (r : result),
  e = ERefit \/ e = ETransform ->
  fitted o = true ->
  run_call (steps w Current c e) o i = (r, o') ->
  o' = o /\ (e = ERefit -> r = RAssert).
Proof. exact reject_frame_current. Qed.
Print Assumptions C19_reject_frame_current.

(* transform and the constructors satisfy checks_first in both trees: a rejected call changed
   nothing; transform never writes at all *)
Theorem C19_reject_frame_transform_init :
  forall (S : Type) (w : S -> input -> S) (t : tree) (c : cls) (e : entry) (o o' : obj S) (i : input) (r : result),
  e = ETransform \/ e = EInit ->
  run_call (steps w t c e) o i = (r, o') -> r <> ROk -> o' = o.
Proof. exact reject_frame_transform_init. Qed.
Print Assumptions C19_reject_frame_transform_init.

Theorem C19_transform_never_writes :
  forall (S : Type) (w : S -> input -> S) (t : tree) (c : cls) (o o' : obj S) (i : input) (r : result),
  run_call (steps w t c ETransform) o i = (r, o') -> o' = o.
Proof. exact transform_never_writes. Qed.
Print Assumptions C19_transform_never_writes.

(* the full statement "every in-scope triple is rejected with AssertionError" is still FALSE of
   the model of the code: every in-scope triple outside `guarded` (7 of them, lemma
   unguarded_list: a str cell in a quantitative column at transform — every class with
   quantitative features —, OrdinalDiscretizer.fit with a value absent from the ranking; both
   recorded as known findings) has a single-fault input that is accepted or answered with
   another exception *)
Theorem C19_unguarded_refuted : forall c e m,
  in_scope c e m = true -> guarded c e m = false ->
  exists i : input,
    exhibits c e m (fitted_at e) i = true /\
    fst (run_call (csteps Current c e) (mkObj (fitted_at e) 0) i) <> RAssert.
Proof. exact unguarded_refuted. Qed.
Print Assumptions C19_unguarded_refuted.

(* ... and inside guarded triples one variant hits a non-assertion failure point, for each of
   the nine classes: X is None (known finding: _prepare_data skips every check) *)
Theorem C19_crash_gaps_refuted :
  forallb (fun t => let '(c, e, m, i) := t in
             guarded c e m && exhibits c e m false i &&
             result_eqb (fst (run_call (csteps Current c e) (mkObj false 0) i)) ROther)
          crash_gap_witnesses = true /\ length crash_gap_witnesses = 9.
Proof. exact crash_gaps_refuted. Qed.
Print Assumptions C19_crash_gaps_refuted.

(* accept_valid (non-vacuity): a fully valid call passes every check of every class, in both
   trees: the constructor, the first fit (ends fitted), transform of a fitted object (state
   kept); it has no crash point and exhibits no malformed class *)
Theorem C19_accept_valid : forall (c : cls) (dev ordinal : bool) (t : tree),
  run_call (csteps t c EInit) (mkObj false 0) (valid_input c dev ordinal) = (ROk, mkObj false 1) /\
  (exists n, run_call (csteps t c EFit) (mkObj false 0) (valid_input c dev ordinal) = (ROk, mkObj true n)) /\
  run_call (csteps t c ETransform) (mkObj true 5) (valid_input c dev ordinal) = (ROk, mkObj true 5) /\
  crash_free (csteps t c EFit) false (valid_input c dev ordinal) = true /\
  forallb (fun m => negb (exhibits c EFit m false (valid_input c dev ordinal))) all_mals = true.
Proof. exact accept_valid. Qed.
Print Assumptions C19_accept_valid.

(* the checker: verdict 0 means the case is in the model's domain, the property predicate holds
   on the implementation's output and the current tree predicts that output *)
Theorem C19_verdict_zero_sound : forall k : case19,
  verdict19 k = 0 ->
  in_domain k = true /\ prop19 k = true /\ agree Current k = true.
Proof. exact verdict19_zero_sound. Qed.
Print Assumptions C19_verdict_zero_sound.

Theorem C19_predicate_spec : forall k : case19,
  prop19 k = true -> k_mal k <> MNone ->
  k_result k = RAssert /\ (k_fitted k = true -> k_unchanged k = true).
Proof. exact prop19_spec. Qed.
Print Assumptions C19_predicate_spec.

(* ---- historical records: the tree BEFORE the fix commits ---------------------------------- *)
(* O5 (repaired by a2fb996): a valid second fit of a fitted BinaryCarver was rejected with
   AssertionError after the state was rewritten *)
Theorem C19_before_fix_refit_refuted :
  exists (i : input) (o o' : obj nat),
    fitted o = true /\
    run_call (csteps Before KBinary ERefit) o i = (RAssert, o') /\
    state o' <> state o.
Proof. exact before_fix_refit_refuted. Qed.
Print Assumptions C19_before_fix_refit_refuted.

(* the same pattern in every class: the state was rewritten before the guard; MulticlassCarver
   (no ordinal feature) even accepted the second fit *)
Theorem C19_before_fix_refit_all_classes_refuted : forall c : cls,
  exists (o' : obj nat) (r : result),
    run_call (csteps Before c ERefit) (mkObj true 0) (valid_input c false false) = (r, o') /\
    state o' <> 0 /\ (r = ROk <-> c = KMulticlass).
Proof. exact before_fix_refit_all_classes_refuted. Qed.
Print Assumptions C19_before_fix_refit_all_classes_refuted.

(* the hypotheses of C19_reject_guarded are satisfiable: NaN in y of a first BinaryCarver fit *)
Example C19_nonvacuous :
  let i := inject MYNaN (valid_input KBinary true true) in
  guarded KBinary EFit MYNaN = true /\ exhibits KBinary EFit MYNaN false i = true /\
  crash_free (csteps Current KBinary EFit) false i = true /\
  run_call (csteps Current KBinary EFit) (mkObj false 0) i = (RAssert, mkObj false 0).
Proof. vm_compute. repeat split; reflexivity. Qed.
