(* C07 — fit/transform coherence, row-wise purity, no side effects (logic part).
   Model/Object.v on top of Model/Transform.v: transform is column-wise, inside a column it is a
   map of a per-cell function behind an all-or-nothing check, and it returns the fitted object
   unchanged.  What lives in the runtime (the caller's DataFrames are not mutated with copy=True,
   pandas index alignment, fit_transform = fit then transform through sklearn's mixin) is checked
   by the correspondence on real call histories; see DESIGN.md (partial by nature). *)
From Coq Require Import List String.
Import ListNotations.
From AC.Model Require Import Base GroupedList Labels Transform Object.
From AC.Proofs Require Import ObjectProofs.

(* transforming ANY selection, reordering or repetition of rows gives the corresponding rows *)
Theorem C07_transform_is_row_wise : forall o X Y sel,
  transform_frame o X = Ok Y -> transform_frame o (take_frame sel X) = Ok (take_frame sel Y).
Proof. exact transform_pure. Qed.
Print Assumptions C07_transform_is_row_wise.

(* the output keeps X's columns, in order *)
Theorem C07_output_keeps_columns : forall o X Y, transform_frame o X = Ok Y -> map fst Y = map fst X.
Proof. exact transform_keeps_columns. Qed.
Print Assumptions C07_output_keeps_columns.

(* non-feature columns are returned unchanged *)
Theorem C07_other_columns_unchanged : forall o X Y name c,
  transform_frame o X = Ok Y -> flookup name (fit_states o) = None -> flookup name X = Some c ->
  flookup name Y = Some (raw_col c).
Proof. exact transform_leaves_other_columns. Qed.
Print Assumptions C07_other_columns_unchanged.

(* any number of transform calls, interleaved on any frames: the fitted object never changes and
   every call returns what a single call on the freshly fitted object returns *)
Theorem C07_repeated_transforms : forall cs o,
  fst (run o cs) = o /\
  snd (run o cs) = map (fun c => match c with CTransform X => transform_frame o X end) cs.
Proof. exact run_transforms_frame. Qed.
Print Assumptions C07_repeated_transforms.

Open Scope string_scope.
Example C07_nonvacuous :
  let g := of_list [VNum 2; VNum 5; VPInf] in
  let st := fitted_state Quant g (VStr "__NAN__") (VStr "__OTHER__") true OFloat [] in
  let o := mkFitted [("q", st)] in
  let X := [("q", [VNum 1; VNum 9; VNum 5; VNum 2]); ("other", [VStr "u"; VStr "v"; VStr "w"; VStr "x"])] in
  exists Y, transform_frame o X = Ok Y /\
            transform_frame o (take_frame [3; 0; 0]%nat X) = Ok (take_frame [3; 0; 0]%nat Y).
Proof. eexists. split; vm_compute; reflexivity. Qed.
