(* RankTieProofs.v — why a disagreement on the carvers' dev-robustness test is excused only under an
   EXACT tie of two target rates (CheckC01: has_tie / no_strict_inversion / rank_ambiguous).

   The code accepts a grouping only if
       train_rates.sort_values("target_rate").index == dev_rates.sort_values("target_rate").index
   pandas (nargsort, na_position='last') sorts the positions of the non-missing rates with numpy's
   argsort(kind='quicksort') - NOT stable - and appends the positions of the NaN rates in their original
   order.  The model ([rank_order]) is a STABLE insertion sort with NaN last.  Here, for ALL lists:

     A. facts on the binary64 comparisons (total preorder on non-NaN floats, [f_le_nanlast] total and
        transitive on all spec_floats);
     B. [rank_order_perm], [rank_order_stable], [rank_order_unique]: [rank_order rs] is THE permutation
        of the positions that is strictly sorted by (rate, position) - i.e. the stable sort;
     C. [pandas_order rs l]: l is a possible result of nargsort for ANY sorting algorithm;
        [pandas_order_tie_free]: without an exact tie, every such l IS [rank_order rs];
        [rank_order_is_pandas_order]: for all rates, [rank_order rs] is one of the possible results;
        [rank_order_sort_independent]: the NaN-free reading with a plain permutation of [seq 0 n];
     D. [same_ranks_no_inversion] (all lists), [same_ranks_iff_no_inversion] (tie-free, NaN-free);
     E. [tie_free_candidates_decided]: when [rank_ambiguous] is false the viability verdict computed with
        ANY pair of sort results equals the model's [viable]; [tied_rates_sort_dependent]: a concrete
        rank-ambiguous candidate for which two valid sort results give opposite verdicts.

   Stdlib only; no axioms (see the [Print Assumptions] at the end). *)
From Coq Require Import ZArith List Bool Lia Arith Permutation Sorted SpecFloat.
From AC.Model Require Import Float Combos Measures Carve CheckC01.
Import ListNotations.
Open Scope nat_scope.

(* ============================================================================================ *)
(* Part A — the float comparisons                                                               *)
(* ============================================================================================ *)

Lemma rt_cmp_antisym : forall a b, SFcompare b a = option_map CompOpp (SFcompare a b).
Proof.
  intros a b. destruct a as [sa|sa| |sa ma ea], b as [sb|sb| |sb mb eb]; cbn [SFcompare option_map];
    try reflexivity; try (destruct sa; reflexivity); try (destruct sb; reflexivity);
    try (destruct sa, sb; reflexivity).
  destruct sa, sb; try reflexivity; rewrite (Z.compare_antisym ea eb);
    destruct (ea ?= eb)%Z; cbn [CompOpp]; try reflexivity.
  - f_equal. rewrite (Pos.compare_cont_antisym ma mb Eq). cbn [CompOpp]. reflexivity.
  - f_equal. rewrite (Pos.compare_cont_antisym ma mb Eq). reflexivity.
Qed.

Lemma rt_cmp_defined : forall a b,
  f_is_nan a = false -> f_is_nan b = false -> exists c, SFcompare a b = Some c.
Proof.
  intros a b Ha Hb. destruct a, b; cbn in Ha, Hb; try discriminate; cbn [SFcompare]; eauto.
Qed.

(* totality on non-NaN floats *)
Lemma rt_fleb_total : forall a b,
  f_is_nan a = false -> f_is_nan b = false -> fleb a b = false -> fleb b a = true.
Proof.
  intros a b Ha Hb H. destruct (rt_cmp_defined a b Ha Hb) as [c E].
  unfold fleb, SFleb in *. rewrite (rt_cmp_antisym a b), E. rewrite E in H. cbn [option_map].
  destruct c; cbn [CompOpp]; try reflexivity; discriminate H.
Qed.

(* antisymmetry up to [feqb] (equal values, +0/-0) *)
Lemma rt_fleb_antisym : forall a b, fleb a b = true -> fleb b a = true -> feqb a b = true.
Proof.
  intros a b. unfold fleb, feqb, SFleb, SFeqb. rewrite (rt_cmp_antisym a b).
  destruct (SFcompare a b) as [[]|]; cbn [option_map CompOpp]; try discriminate; reflexivity.
Qed.

Lemma rt_feqb_sym : forall a b, feqb a b = feqb b a.
Proof.
  intros a b. unfold feqb, SFeqb. rewrite (rt_cmp_antisym a b).
  destruct (SFcompare a b) as [[]|]; reflexivity.
Qed.

(* a <= b excludes b < a; a < a never holds; a <= b and not a == b is a < b *)
Lemma rt_fleb_not_gt : forall a b, fleb a b = true -> fltb b a = false.
Proof.
  intros a b. unfold fleb, fltb, SFleb, SFltb. rewrite (rt_cmp_antisym a b).
  destruct (SFcompare a b) as [[]|]; cbn [option_map CompOpp]; try discriminate; reflexivity.
Qed.

Lemma rt_fltb_irrefl : forall a, fltb a a = false.
Proof.
  intros a. unfold fltb, SFltb. pose proof (rt_cmp_antisym a a) as H.
  destruct (SFcompare a a) as [[]|]; cbn in H; try discriminate H; reflexivity.
Qed.

Lemma rt_fltb_of_le_neq : forall a b, fleb a b = true -> feqb a b = false -> fltb a b = true.
Proof.
  intros a b. unfold fleb, fltb, feqb, SFleb, SFltb, SFeqb.
  destruct (SFcompare a b) as [[]|]; try discriminate; reflexivity.
Qed.

Lemma rt_fleb_of_not_gt : forall a b,
  f_is_nan a = false -> f_is_nan b = false -> fltb b a = false -> fleb a b = true.
Proof.
  intros a b Ha Hb H. destruct (rt_cmp_defined a b Ha Hb) as [c E].
  unfold fleb, fltb, SFleb, SFltb in *. rewrite (rt_cmp_antisym a b), E in H. rewrite E.
  destruct c; cbn in *; try reflexivity; discriminate H.
Qed.

Lemma rt_fltb_not_nan : forall a b, fltb a b = true -> f_is_nan a = false /\ f_is_nan b = false.
Proof.
  intros a b H. unfold fltb, SFltb in H.
  destruct a, b; cbn in H; try discriminate H; split; reflexivity.
Qed.

(* transitivity, all spec_floats *)
Lemma rt_fleb_trans : forall a b c, fleb a b = true -> fleb b c = true -> fleb a c = true.
Proof.
  intros a b c. unfold fleb, SFleb.
  destruct a as [sa|sa| |sa ma ea], b as [sb|sb| |sb mb eb], c as [sc|sc| |sc mc ec];
    cbn [SFcompare]; try discriminate; try reflexivity;
    try (destruct sa; try discriminate; try reflexivity; fail);
    try (destruct sb; try discriminate; try reflexivity; fail);
    try (destruct sc; try discriminate; try reflexivity; fail);
    try (destruct sa, sb; try discriminate; try reflexivity; fail);
    try (destruct sa, sc; try discriminate; try reflexivity; fail);
    try (destruct sb, sc; try discriminate; try reflexivity; fail);
    try (destruct sa, sb, sc; try discriminate; try reflexivity; fail).
  all: destruct sa, sb, sc; try discriminate; try reflexivity.
  all: change (Pos.compare_cont Eq ma mb) with (Pos.compare ma mb);
       change (Pos.compare_cont Eq mb mc) with (Pos.compare mb mc);
       change (Pos.compare_cont Eq ma mc) with (Pos.compare ma mc).
  all: destruct (Z.compare_spec ea eb), (Z.compare_spec eb ec), (Z.compare_spec ea ec);
       try discriminate; try reflexivity; try lia.
  all: destruct (Pos.compare_spec ma mb), (Pos.compare_spec mb mc), (Pos.compare_spec ma mc);
       cbn [CompOpp]; try discriminate; try reflexivity; try lia.
Qed.

(* the comparator of [ins_rank]: total and transitive on ALL spec_floats *)
Lemma rt_nl_total : forall a b, f_le_nanlast a b = false -> f_le_nanlast b a = true.
Proof.
  intros a b H. unfold f_le_nanlast in *.
  destruct (f_is_nan b) eqn:Hb; [discriminate H|].
  destruct (f_is_nan a) eqn:Ha; [reflexivity|].
  apply rt_fleb_total; assumption.
Qed.

Lemma rt_nl_trans : forall a b c,
  f_le_nanlast a b = true -> f_le_nanlast b c = true -> f_le_nanlast a c = true.
Proof.
  intros a b c Hab Hbc. unfold f_le_nanlast in *.
  destruct (f_is_nan c); [reflexivity|].
  destruct (f_is_nan b); [discriminate Hbc|].
  destruct (f_is_nan a); [discriminate Hab|].
  exact (rt_fleb_trans a b c Hab Hbc).
Qed.

Lemma rt_nl_nan_r : forall a b, f_is_nan b = true -> f_le_nanlast a b = true.
Proof. intros a b H. unfold f_le_nanlast. rewrite H. reflexivity. Qed.

Lemma rt_nl_nan_l : forall a b, f_is_nan a = true -> f_le_nanlast a b = true -> f_is_nan b = true.
Proof.
  intros a b Ha H. unfold f_le_nanlast in H. destruct (f_is_nan b); [reflexivity|].
  rewrite Ha in H. discriminate H.
Qed.

Lemma rt_nl_fleb : forall a b, f_is_nan a = false -> f_is_nan b = false -> f_le_nanlast a b = fleb a b.
Proof. intros a b Ha Hb. unfold f_le_nanlast. rewrite Ha, Hb. reflexivity. Qed.

Lemma rt_nl_not_gt : forall a b, f_le_nanlast a b = true -> fltb b a = false.
Proof.
  intros a b H. unfold f_le_nanlast in H.
  destruct (f_is_nan b) eqn:Hb; [destruct b; try discriminate Hb; reflexivity|].
  destruct (f_is_nan a) eqn:Ha; [discriminate H|]. apply rt_fleb_not_gt. exact H.
Qed.

(* ============================================================================================ *)
(* Part B0 — generic facts on strongly sorted lists                                             *)
(* ============================================================================================ *)

Section Lists.
  Context {A : Type}.

  (* a strict (asymmetric) order has at most one sorted arrangement of a given multiset *)
  Lemma SS_unique : forall (R : A -> A -> Prop) l1 l2,
    (forall x y, R x y -> R y x -> False) ->
    StronglySorted R l1 -> StronglySorted R l2 -> Permutation l1 l2 -> l1 = l2.
  Proof.
    intros R l1. induction l1 as [|a t1 IH]; intros l2 Hasym Hs1 Hs2 Hp.
    - apply Permutation_nil in Hp. subst. reflexivity.
    - destruct l2 as [|b t2].
      + apply Permutation_sym, Permutation_nil in Hp. discriminate Hp.
      + inversion Hs1 as [|? ? Hs1' Hf1]; subst. inversion Hs2 as [|? ? Hs2' Hf2]; subst.
        assert (Eab : a = b).
        { assert (Ha : In a (b :: t2)) by (eapply Permutation_in; [exact Hp|left; reflexivity]).
          assert (Hb : In b (a :: t1))
            by (eapply Permutation_in; [apply Permutation_sym; exact Hp|left; reflexivity]).
          destruct Ha as [E|Ha]; [symmetry; exact E|]. destruct Hb as [E|Hb]; [exact E|].
          exfalso. rewrite Forall_forall in Hf1, Hf2. exact (Hasym a b (Hf1 b Hb) (Hf2 a Ha)). }
        subst b. f_equal. apply IH; try assumption. eapply Permutation_cons_inv. exact Hp.
  Qed.

  Lemma SS_impl_In : forall (R R' : A -> A -> Prop) l,
    StronglySorted R l -> (forall x y, In x l -> In y l -> R x y -> R' x y) -> StronglySorted R' l.
  Proof.
    intros R R' l H. induction H as [|a t Ht IH Ha]; intros Himp; constructor.
    - apply IH. intros x y Hx Hy. apply Himp; right; assumption.
    - rewrite Forall_forall in *. intros y Hy. apply Himp; [left; reflexivity|right; exact Hy|].
      apply Ha. exact Hy.
  Qed.

  Lemma SS_impl_NoDup : forall (R R' : A -> A -> Prop) l,
    StronglySorted R l -> NoDup l ->
    (forall x y, In x l -> In y l -> x <> y -> R x y -> R' x y) -> StronglySorted R' l.
  Proof.
    intros R R' l H. induction H as [|a t Ht IH Ha]; intros Hnd Himp; constructor.
    - inversion Hnd; subst. apply IH; [assumption|]. intros x y Hx Hy. apply Himp; right; assumption.
    - inversion Hnd as [|? ? Hnin Hnd']; subst. rewrite Forall_forall in *. intros y Hy.
      apply Himp; [left; reflexivity|right; exact Hy| |apply Ha; exact Hy].
      intros E. subst y. exact (Hnin Hy).
  Qed.

  Lemma SS_app : forall (R : A -> A -> Prop) l1 l2,
    StronglySorted R l1 -> StronglySorted R l2 ->
    (forall x y, In x l1 -> In y l2 -> R x y) -> StronglySorted R (l1 ++ l2).
  Proof.
    intros R l1 l2 H1 H2. induction H1 as [|a t Ht IH Ha]; intros Hc; cbn [app]; [exact H2|].
    constructor.
    - apply IH. intros x y Hx Hy. apply Hc; [right; exact Hx|exact Hy].
    - rewrite Forall_forall in *. intros y Hy. apply in_app_or in Hy. destruct Hy as [Hy|Hy].
      + apply Ha. exact Hy.
      + apply Hc; [left; reflexivity|exact Hy].
  Qed.

  Lemma SS_filter : forall (R : A -> A -> Prop) (f : A -> bool) l,
    StronglySorted R l -> StronglySorted R (filter f l).
  Proof.
    intros R f l H. induction H as [|a t Ht IH Ha]; cbn [filter]; [constructor|].
    destruct (f a); [|exact IH]. constructor; [exact IH|].
    rewrite Forall_forall in *. intros y Hy. apply filter_In in Hy. apply Ha. apply Hy.
  Qed.

  (* two elements of a list sorted for two relations at once are in the same order for both *)
  Lemma SS_both : forall (Ra Rb : A -> A -> Prop) l i j,
    StronglySorted Ra l -> StronglySorted Rb l -> In i l -> In j l -> i <> j ->
    (Ra i j /\ Rb i j) \/ (Ra j i /\ Rb j i).
  Proof.
    intros Ra Rb l i j Ha. induction Ha as [|x t Ht IH Hx]; intros Hb Hi Hj Hne; [destruct Hi|].
    inversion Hb as [|? ? Hb' Hxb]; subst. rewrite Forall_forall in Hx, Hxb.
    destruct Hi as [Ei|Hi], Hj as [Ej|Hj].
    - subst. contradiction Hne. reflexivity.
    - subst x. left. split; [apply Hx|apply Hxb]; exact Hj.
    - subst x. right. split; [apply Hx|apply Hxb]; exact Hi.
    - apply IH; assumption.
  Qed.

  Lemma filter_split_perm : forall (f : A -> bool) l,
    Permutation (filter (fun x => negb (f x)) l ++ filter f l) l.
  Proof.
    intros f l. induction l as [|a t IH]; cbn [filter app]; [constructor|].
    destruct (f a); cbn [negb app].
    - apply Permutation_sym. eapply perm_trans; [|apply Permutation_middle].
      constructor. apply Permutation_sym. exact IH.
    - constructor. exact IH.
  Qed.
End Lists.

Lemma SS_map : forall (A B : Type) (R : B -> B -> Prop) (f : A -> B) l,
  StronglySorted (fun x y => R (f x) (f y)) l -> StronglySorted R (map f l).
Proof.
  intros A B R f l H. induction H as [|a t Ht IH Ha]; cbn [map]; constructor; [exact IH|].
  rewrite Forall_forall in *. intros y Hy. apply in_map_iff in Hy. destruct Hy as [x [<- Hx]].
  apply Ha. exact Hx.
Qed.

Lemma SS_seq : forall n s, StronglySorted lt (seq s n).
Proof.
  induction n as [|n IH]; intros s; cbn [seq]; constructor; [apply IH|].
  rewrite Forall_forall. intros y Hy. apply in_seq in Hy. lia.
Qed.

Lemma nat_list_eqb_eq : forall a b, nat_list_eqb a b = true <-> a = b.
Proof.
  induction a as [|x s IH]; intros [|y t]; cbn [nat_list_eqb]; split; intros H;
    try reflexivity; try discriminate H.
  - apply andb_true_iff in H. destruct H as [H1 H2]. apply Nat.eqb_eq in H1. apply IH in H2.
    subst. reflexivity.
  - injection H as -> ->. rewrite Nat.eqb_refl. cbn [andb]. apply IH. reflexivity.
Qed.

(* ============================================================================================ *)
(* Part B — [rank_order] is the stable sort                                                     *)
(* ============================================================================================ *)

(* the rate at a position; the order of [ins_rank] on positions; its refinement by position *)
Definition rate_at (rs : list fl) (i : nat) : fl := nth i rs S754_nan.
Definition ple (rs : list fl) (i j : nat) : Prop := f_le_nanlast (rate_at rs i) (rate_at rs j) = true.
Definition slt (rs : list fl) (i j : nat) : Prop := ple rs i j /\ (ple rs j i -> i < j).

Lemma slt_asym : forall rs i j, slt rs i j -> slt rs j i -> False.
Proof. intros rs i j [H1 H2] [H3 H4]. specialize (H2 H3). specialize (H4 H1). lia. Qed.

(* the same on (position, rate) pairs, as [ins_rank] sees them *)
Definition pslt (x y : nat * fl) : Prop :=
  f_le_nanlast (snd x) (snd y) = true /\ (f_le_nanlast (snd y) (snd x) = true -> fst x < fst y).

Lemma ins_rank_In : forall x z l, In z (ins_rank x l) <-> z = x \/ In z l.
Proof.
  intros x z l. induction l as [|y t IH]; cbn [ins_rank In].
  - split; [intros [E|[]]; left; symmetry; exact E|intros [E|[]]; left; symmetry; exact E].
  - destruct (f_le_nanlast (snd y) (snd x)); cbn [In]; [rewrite IH|]; intuition.
Qed.

Lemma ins_rank_perm : forall x l, Permutation (ins_rank x l) (x :: l).
Proof.
  intros x l. induction l as [|y t IH]; cbn [ins_rank]; [apply Permutation_refl|].
  destruct (f_le_nanlast (snd y) (snd x)); [|apply Permutation_refl].
  eapply perm_trans; [apply perm_skip; exact IH|apply perm_swap].
Qed.

(* inserting a pair whose position is above all the positions present keeps the (rate, position) order *)
Lemma ins_rank_SS : forall x l,
  StronglySorted pslt l -> (forall y, In y l -> fst y < fst x) -> StronglySorted pslt (ins_rank x l).
Proof.
  intros x l H. induction H as [|y t Ht IH Hy]; intros Hpos; cbn [ins_rank].
  - constructor; constructor.
  - rewrite Forall_forall in Hy. destruct (f_le_nanlast (snd y) (snd x)) eqn:E.
    + constructor; [apply IH; intros z Hz; apply Hpos; right; exact Hz|].
      rewrite Forall_forall. intros z Hz. apply ins_rank_In in Hz. destruct Hz as [->|Hz].
      * split; [exact E|]. intros _. apply Hpos. left. reflexivity.
      * apply Hy. exact Hz.
    + pose proof (rt_nl_total _ _ E) as Exy. constructor; [constructor; [exact Ht|]|].
      * rewrite Forall_forall. exact Hy.
      * rewrite Forall_forall. intros z [<-|Hz].
        -- split; [exact Exy|]. intros H. rewrite H in E. discriminate E.
        -- destruct (Hy z Hz) as [Hyz _]. split; [exact (rt_nl_trans _ _ _ Exy Hyz)|].
           intros Hzx. rewrite (rt_nl_trans _ _ _ Hyz Hzx) in E. discriminate E.
Qed.

Definition ins_all (ps acc : list (nat * fl)) : list (nat * fl) :=
  fold_left (fun acc x => ins_rank x acc) ps acc.

Lemma ins_all_SS : forall ps acc,
  StronglySorted pslt acc -> StronglySorted (fun x y : nat * fl => fst x < fst y) ps ->
  (forall y x, In y acc -> In x ps -> fst y < fst x) -> StronglySorted pslt (ins_all ps acc).
Proof.
  unfold ins_all. induction ps as [|x t IH]; intros acc Hacc Hps Hc; cbn [fold_left]; [exact Hacc|].
  inversion Hps as [|? ? Hps' Hx]; subst. rewrite Forall_forall in Hx. apply IH.
  - apply ins_rank_SS; [exact Hacc|]. intros y Hy. apply Hc; [exact Hy|left; reflexivity].
  - exact Hps'.
  - intros y z Hy Hz. apply ins_rank_In in Hy. destruct Hy as [->|Hy].
    + apply Hx. exact Hz.
    + apply Hc; [exact Hy|right; exact Hz].
Qed.

Lemma ins_all_perm : forall ps acc, Permutation (ins_all ps acc) (ps ++ acc).
Proof.
  unfold ins_all. induction ps as [|x t IH]; intros acc; cbn [fold_left app]; [apply Permutation_refl|].
  eapply perm_trans; [apply IH|]. eapply perm_trans; [apply Permutation_app_head, ins_rank_perm|].
  apply Permutation_sym, Permutation_middle.
Qed.

(* the (position, rate) pairs handed to the sort *)
Lemma combine_seq_In : forall rs s i r, In (i, r) (combine (seq s (length rs)) rs) ->
  s <= i < s + length rs /\ r = nth (i - s) rs S754_nan.
Proof.
  induction rs as [|a t IH]; intros s i r H; cbn [length seq combine In] in H; [destruct H|].
  destruct H as [E|H].
  - injection E as <- <-. cbn [length]. split; [lia|]. rewrite Nat.sub_diag. reflexivity.
  - apply IH in H. destruct H as [Hr ->]. cbn [length]. split; [lia|].
    replace (i - s) with (S (i - S s)) by lia. reflexivity.
Qed.

Lemma combine_seq_SS : forall rs s,
  StronglySorted (fun x y : nat * fl => fst x < fst y) (combine (seq s (length rs)) rs).
Proof.
  induction rs as [|a t IH]; intros s; cbn [length seq combine]; constructor; [apply IH|].
  rewrite Forall_forall. intros [j r] Hy. apply combine_seq_In in Hy. cbn [fst]. lia.
Qed.

Lemma map_fst_combine_seq : forall (rs : list fl) s, map fst (combine (seq s (length rs)) rs) = seq s (length rs).
Proof.
  induction rs as [|a t IH]; intros s; cbn [length seq combine map fst]; [reflexivity|].
  rewrite IH. reflexivity.
Qed.

Definition sorted_pairs (rs : list fl) : list (nat * fl) :=
  ins_all (combine (seq 0 (length rs)) rs) [].

Lemma rank_order_eq : forall rs, rank_order rs = map fst (sorted_pairs rs).
Proof. reflexivity. Qed.

Lemma sorted_pairs_perm : forall rs, Permutation (sorted_pairs rs) (combine (seq 0 (length rs)) rs).
Proof.
  intros rs. unfold sorted_pairs. eapply perm_trans; [apply ins_all_perm|]. rewrite app_nil_r.
  apply Permutation_refl.
Qed.

(* 1. a permutation of the positions *)
Theorem rank_order_perm : forall rs, Permutation (rank_order rs) (seq 0 (length rs)).
Proof.
  intros rs. rewrite rank_order_eq, <- (map_fst_combine_seq rs 0).
  apply Permutation_map, sorted_pairs_perm.
Qed.

Corollary rank_order_length : forall rs, length (rank_order rs) = length rs.
Proof. intros rs. rewrite (Permutation_length (rank_order_perm rs)). apply seq_length. Qed.

Corollary rank_order_NoDup : forall rs, NoDup (rank_order rs).
Proof.
  intros rs. eapply Permutation_NoDup; [apply Permutation_sym, rank_order_perm|apply seq_NoDup].
Qed.

(* 2. strictly sorted by (rate with NaN last, position): the STABLE sort *)
Theorem rank_order_stable : forall rs, StronglySorted (slt rs) (rank_order rs).
Proof.
  intros rs. rewrite rank_order_eq. apply SS_map.
  apply (SS_impl_In pslt).
  - unfold sorted_pairs. apply ins_all_SS; [constructor|apply combine_seq_SS|intros y x []].
  - intros [i r] [j s] Hx Hy H.
    apply (Permutation_in _ (sorted_pairs_perm rs)) in Hx. apply combine_seq_In in Hx.
    apply (Permutation_in _ (sorted_pairs_perm rs)) in Hy. apply combine_seq_In in Hy.
    destruct Hx as [_ Hr], Hy as [_ Hs]. rewrite Nat.sub_0_r in Hr, Hs.
    unfold pslt in H. cbn [fst snd] in *. unfold slt, ple, rate_at. rewrite <- Hr, <- Hs. exact H.
Qed.

(* 3. and the only one *)
Theorem rank_order_unique : forall rs l,
  Permutation l (seq 0 (length rs)) -> StronglySorted (slt rs) l -> l = rank_order rs.
Proof.
  intros rs l Hp Hs. apply (SS_unique (slt rs)).
  - apply slt_asym.
  - exact Hs.
  - apply rank_order_stable.
  - eapply perm_trans; [exact Hp|apply Permutation_sym, rank_order_perm].
Qed.

Corollary rank_order_weak : forall rs, StronglySorted (ple rs) (rank_order rs).
Proof.
  intros rs. apply (SS_impl_In (slt rs)); [apply rank_order_stable|]. intros x y _ _ [H _]. exact H.
Qed.

(* ============================================================================================ *)
(* Part C — what pandas returns, whatever the sorting algorithm                                 *)
(* ============================================================================================ *)

Definition nan_pos (rs : list fl) : list nat :=
  filter (fun i => f_is_nan (rate_at rs i)) (seq 0 (length rs)).
Definition val_pos (rs : list fl) : list nat :=
  filter (fun i => negb (f_is_nan (rate_at rs i))) (seq 0 (length rs)).
Definition fle_at (rs : list fl) (i j : nat) : Prop := fleb (rate_at rs i) (rate_at rs j) = true.

(* pandas.core.sorting.nargsort(items, kind, ascending=True, na_position='last'):
     indexer = non_nan_idx[non_nans.argsort(kind=kind)] ++ nan_idx
   [l1] is ANY arrangement of the non-NaN positions whose consecutive rates are in order ([fleb]):
   the only thing a correct sorting algorithm, stable or not, guarantees. *)
Definition pandas_order (rs : list fl) (l : list nat) : Prop :=
  exists l1, l = l1 ++ nan_pos rs /\ Permutation l1 (val_pos rs) /\ Sorted (fle_at rs) l1.

Lemma fle_at_trans : forall rs, Relations_1.Transitive (fle_at rs).
Proof. intros rs x y z. unfold fle_at. apply rt_fleb_trans. Qed.

Theorem pandas_order_perm : forall rs l, pandas_order rs l -> Permutation l (seq 0 (length rs)).
Proof.
  intros rs l (l1 & -> & Hp & _). eapply perm_trans; [apply Permutation_app_tail; exact Hp|].
  unfold val_pos, nan_pos. apply (filter_split_perm (fun i => f_is_nan (rate_at rs i))).
Qed.

Corollary pandas_order_NoDup : forall rs l, pandas_order rs l -> NoDup l.
Proof.
  intros rs l H. eapply Permutation_NoDup; [apply Permutation_sym, pandas_order_perm; exact H|].
  apply seq_NoDup.
Qed.

(* rates in order with NaN last, and the NaN positions among themselves in increasing order *)
Definition pord (rs : list fl) (i j : nat) : Prop :=
  ple rs i j /\ (f_is_nan (rate_at rs i) = true -> f_is_nan (rate_at rs j) = true -> i < j).

Lemma pandas_order_pord : forall rs l, pandas_order rs l -> StronglySorted (pord rs) l.
Proof.
  intros rs l (l1 & -> & Hp & Hs). apply SS_app.
  - apply (SS_impl_In (fle_at rs)); [apply Sorted_StronglySorted; [apply fle_at_trans|exact Hs]|].
    intros x y Hx Hy H.
    apply (Permutation_in _ Hp) in Hx. apply (Permutation_in _ Hp) in Hy.
    unfold val_pos in Hx, Hy. apply filter_In in Hx. apply filter_In in Hy.
    destruct Hx as [_ Hx], Hy as [_ Hy]. apply negb_true_iff in Hx. apply negb_true_iff in Hy.
    split; [unfold ple; rewrite rt_nl_fleb by assumption; exact H|].
    intros Hn. rewrite Hn in Hx. discriminate Hx.
  - apply (SS_impl_In lt); [apply SS_filter, SS_seq|].
    intros x y _ Hy H. unfold nan_pos in Hy. apply filter_In in Hy. destruct Hy as [_ Hy].
    split; [apply rt_nl_nan_r; exact Hy|]. intros _ _. exact H.
  - intros x y Hx Hy. apply (Permutation_in _ Hp) in Hx.
    unfold val_pos in Hx. unfold nan_pos in Hy. apply filter_In in Hx. apply filter_In in Hy.
    destruct Hx as [_ Hx], Hy as [_ Hy]. apply negb_true_iff in Hx.
    split; [apply rt_nl_nan_r; exact Hy|]. intros Hn. rewrite Hn in Hx. discriminate Hx.
Qed.

Corollary pandas_order_weak : forall rs l, pandas_order rs l -> StronglySorted (ple rs) l.
Proof.
  intros rs l H. apply (SS_impl_In (pord rs)); [apply pandas_order_pord; exact H|].
  intros x y _ _ [Hxy _]. exact Hxy.
Qed.

(* no exact tie: two different positions never carry [feqb]-equal rates *)
Lemma has_tie_nth : forall rs i j, has_tie rs = false -> i < j -> j < length rs ->
  feqb (rate_at rs i) (rate_at rs j) = false.
Proof.
  unfold rate_at. induction rs as [|x t IH]; intros i j H Hij Hj; cbn [length] in Hj; [lia|].
  cbn [has_tie] in H. apply orb_false_iff in H. destruct H as [Hx Ht].
  destruct j as [|j]; [lia|]. destruct i as [|i]; cbn [nth].
  - apply (existsb_nth (feqb x) t S754_nan); [lia|exact Hx].
  - apply IH; [exact Ht|lia|lia].
Qed.

Lemma has_tie_distinct : forall rs i j, has_tie rs = false -> i < length rs -> j < length rs -> i <> j ->
  fleb (rate_at rs i) (rate_at rs j) = true -> fleb (rate_at rs j) (rate_at rs i) = true -> False.
Proof.
  intros rs i j H Hi Hj Hne H1 H2. destruct (Nat.lt_ge_cases i j) as [Hlt|Hge].
  - pose proof (has_tie_nth rs i j H Hlt Hj) as E. rewrite (rt_fleb_antisym _ _ H1 H2) in E. discriminate E.
  - assert (Hlt : j < i) by lia.
    pose proof (has_tie_nth rs j i H Hlt Hi) as E. rewrite (rt_fleb_antisym _ _ H2 H1) in E. discriminate E.
Qed.

(* without an exact tie, the pandas order is strictly sorted by (rate, position) *)
Lemma pord_slt : forall rs i j, has_tie rs = false -> i < length rs -> j < length rs -> i <> j ->
  pord rs i j -> slt rs i j.
Proof.
  intros rs i j Ht Hi Hj Hne [Hij Hnan]. split; [exact Hij|]. intros Hji.
  destruct (f_is_nan (rate_at rs j)) eqn:Nj.
  - apply Hnan; [|reflexivity]. exact (rt_nl_nan_l _ _ Nj Hji).
  - destruct (f_is_nan (rate_at rs i)) eqn:Ni.
    + pose proof (rt_nl_nan_l _ _ Ni Hij) as E. rewrite E in Nj. discriminate Nj.
    + exfalso. unfold ple in Hij, Hji. rewrite rt_nl_fleb in Hij, Hji by assumption.
      exact (has_tie_distinct rs i j Ht Hi Hj Hne Hij Hji).
Qed.

(* THE POINT: without an exact tie the result of pandas' sort is the model's, for any algorithm *)
Theorem pandas_order_tie_free : forall rs l,
  has_tie rs = false -> pandas_order rs l -> l = rank_order rs.
Proof.
  intros rs l Ht H. pose proof (pandas_order_perm rs l H) as Hp.
  apply rank_order_unique; [exact Hp|].
  apply (SS_impl_NoDup (pord rs)); [apply pandas_order_pord; exact H|exact (pandas_order_NoDup rs l H)|].
  intros x y Hx Hy Hne Hxy.
  apply (Permutation_in _ Hp) in Hx. apply (Permutation_in _ Hp) in Hy.
  apply in_seq in Hx. apply in_seq in Hy. apply pord_slt; try assumption; lia.
Qed.

(* the model's own order is one of the possible results (it is what kind='stable' returns): ALL lists *)
Lemma perm_filter : forall (A : Type) (f : A -> bool) l l',
  Permutation l l' -> Permutation (filter f l) (filter f l').
Proof.
  intros A f l l' H. induction H as [|x l l' H IH|x y l|l l' l'' H1 IH1 H2 IH2]; cbn [filter].
  - constructor.
  - destruct (f x); [constructor|]; exact IH.
  - destruct (f x), (f y); try apply Permutation_refl. apply perm_swap.
  - eapply perm_trans; eassumption.
Qed.

Theorem rank_order_is_pandas_order : forall rs, pandas_order rs (rank_order rs).
Proof.
  intros rs. set (nn := fun i => negb (f_is_nan (rate_at rs i))).
  set (l1 := filter nn (rank_order rs)).
  assert (Hp1 : Permutation l1 (val_pos rs)) by (apply perm_filter, rank_order_perm).
  assert (Hin1 : forall x, In x l1 -> f_is_nan (rate_at rs x) = false).
  { intros x Hx. apply filter_In in Hx. destruct Hx as [_ Hx]. apply negb_true_iff in Hx. exact Hx. }
  assert (Hs1 : StronglySorted (slt rs) l1) by (apply SS_filter, rank_order_stable).
  assert (E : l1 ++ nan_pos rs = rank_order rs).
  { apply rank_order_unique.
    - eapply perm_trans; [apply Permutation_app_tail; exact Hp1|].
      apply (filter_split_perm (fun i => f_is_nan (rate_at rs i))).
    - apply SS_app; [exact Hs1| |].
      + apply (SS_impl_In lt); [apply SS_filter, SS_seq|].
        intros x y _ Hy H. apply filter_In in Hy. destruct Hy as [_ Hy].
        split; [apply rt_nl_nan_r; exact Hy|]. intros _. exact H.
      + intros x y Hx Hy. apply Hin1 in Hx. apply filter_In in Hy. destruct Hy as [_ Hy].
        split; [apply rt_nl_nan_r; exact Hy|]. intros H.
        rewrite (rt_nl_nan_l _ _ Hy H) in Hx. discriminate Hx. }
  exists l1. split; [symmetry; exact E|]. split; [exact Hp1|].
  apply StronglySorted_Sorted. apply (SS_impl_In (slt rs)); [exact Hs1|].
  intros x y Hx Hy [H _]. unfold ple in H. unfold fle_at.
  rewrite rt_nl_fleb in H; [exact H|apply Hin1; exact Hx|apply Hin1; exact Hy].
Qed.

Definition no_nan (rs : list fl) : Prop := forallb (fun r => negb (f_is_nan r)) rs = true.

Lemma no_nan_at : forall rs i, no_nan rs -> i < length rs -> f_is_nan (rate_at rs i) = false.
Proof.
  intros rs i H Hi. unfold no_nan in H. rewrite forallb_forall in H.
  apply negb_true_iff. apply H. unfold rate_at. apply nth_In. exact Hi.
Qed.

Lemma filter_all : forall (A : Type) (f : A -> bool) l, (forall x, In x l -> f x = true) -> filter f l = l.
Proof.
  intros A f l. induction l as [|a t IH]; intros H; cbn [filter]; [reflexivity|].
  rewrite (H a (or_introl eq_refl)). f_equal. apply IH. intros x Hx. apply H. right. exact Hx.
Qed.

Lemma filter_none : forall (A : Type) (f : A -> bool) l, (forall x, In x l -> f x = false) -> filter f l = [].
Proof.
  intros A f l. induction l as [|a t IH]; intros H; cbn [filter]; [reflexivity|].
  rewrite (H a (or_introl eq_refl)). apply IH. intros x Hx. apply H. right. exact Hx.
Qed.

(* summary: a possible result of the sort, a permutation, strictly sorted by (rate, position), unique *)
Theorem rank_order_stable_sort_spec : forall rs : list fl,
  pandas_order rs (rank_order rs) /\
  Permutation (rank_order rs) (seq 0 (length rs)) /\
  StronglySorted (slt rs) (rank_order rs) /\
  (forall l, Permutation l (seq 0 (length rs)) -> StronglySorted (slt rs) l -> l = rank_order rs).
Proof.
  intros rs. split; [apply rank_order_is_pandas_order|]. split; [apply rank_order_perm|].
  split; [apply rank_order_stable|apply rank_order_unique].
Qed.

(* without NaN, [pandas_order] is just: a permutation of all the positions, consecutive rates in order *)
Lemma pandas_order_no_nan : forall rs l, no_nan rs ->
  (pandas_order rs l <-> Permutation l (seq 0 (length rs)) /\ Sorted (fle_at rs) l).
Proof.
  intros rs l Hn.
  assert (Hv : val_pos rs = seq 0 (length rs)).
  { unfold val_pos. apply filter_all. intros x Hx. apply in_seq in Hx.
    rewrite no_nan_at; [reflexivity|exact Hn|lia]. }
  assert (Hnn : nan_pos rs = []).
  { unfold nan_pos. apply filter_none. intros x Hx. apply in_seq in Hx. apply no_nan_at; [exact Hn|lia]. }
  unfold pandas_order. rewrite Hv, Hnn. split.
  - intros (l1 & -> & Hp & Hs). rewrite app_nil_r. split; assumption.
  - intros [Hp Hs]. exists l. rewrite app_nil_r. auto.
Qed.

(* the requested reading: NaN-free, tie-free rates; ANY permutation of the positions whose consecutive
   rates are in the float order is the model's order *)
Theorem rank_order_sort_independent : forall rs l,
  no_nan rs -> has_tie rs = false ->
  Permutation l (seq 0 (length rs)) ->
  Sorted (fun i j => fleb (nth i rs S754_nan) (nth j rs S754_nan) = true) l ->
  l = rank_order rs.
Proof.
  intros rs l Hn Ht Hp Hs. apply pandas_order_tie_free; [exact Ht|].
  apply pandas_order_no_nan; [exact Hn|]. split; [exact Hp|exact Hs].
Qed.

(* ============================================================================================ *)
(* Part D — the rank test and strict inversions                                                 *)
(* ============================================================================================ *)

Lemma forallb_combine_eq : forall a b : list nat,
  length a = length b -> forallb (fun p => Nat.eqb (fst p) (snd p)) (combine a b) = true -> a = b.
Proof.
  induction a as [|x s IH]; intros [|y t] Hl H; cbn [length] in Hl; try discriminate Hl; [reflexivity|].
  cbn [combine forallb fst snd] in H. apply andb_true_iff in H. destruct H as [H1 H2].
  apply Nat.eqb_eq in H1. subst y. f_equal. apply IH; [lia|exact H2].
Qed.

Lemma forallb_combine_refl : forall a : list nat,
  forallb (fun p => Nat.eqb (fst p) (snd p)) (combine a a) = true.
Proof.
  induction a as [|x s IH]; cbn [combine forallb fst snd]; [reflexivity|].
  rewrite Nat.eqb_refl, IH. reflexivity.
Qed.

Lemma same_ranks_iff : forall a b, same_ranks a b = true <-> rank_order a = rank_order b.
Proof.
  intros a b. unfold same_ranks. cbv zeta. split.
  - intros H. apply andb_true_iff in H. destruct H as [H1 H2]. apply Nat.eqb_eq in H1.
    apply forallb_combine_eq; assumption.
  - intros ->. rewrite Nat.eqb_refl, forallb_combine_refl. reflexivity.
Qed.

Lemma same_ranks_length : forall a b, same_ranks a b = true -> length a = length b.
Proof.
  intros a b H. apply same_ranks_iff in H. rewrite <- (rank_order_length a), <- (rank_order_length b), H.
  reflexivity.
Qed.

(* pointwise reading of [no_strict_inversion] *)
Lemma nsi_spec : forall a b, length a = length b ->
  (no_strict_inversion a b = true <->
   forall i j, i < length a -> j < length a ->
     fltb (rate_at a i) (rate_at a j) && fltb (rate_at b j) (rate_at b i) = false).
Proof.
  intros a b Hl. unfold no_strict_inversion. cbv zeta.
  assert (Hc : length (combine a b) = length a) by (rewrite combine_length; lia).
  assert (Hn : forall i, nth i (combine a b) (S754_nan, S754_nan) = (rate_at a i, rate_at b i))
    by (intros i; apply combine_nth; exact Hl).
  split.
  - intros H i j Hi Hj. rewrite forallb_forall in H.
    assert (Pi : In (rate_at a i, rate_at b i) (combine a b)) by (rewrite <- Hn; apply nth_In; lia).
    assert (Pj : In (rate_at a j, rate_at b j) (combine a b)) by (rewrite <- Hn; apply nth_In; lia).
    specialize (H _ Pi). rewrite forallb_forall in H. specialize (H _ Pj).
    cbn [fst snd] in H. apply negb_true_iff in H. exact H.
  - intros H. apply forallb_forall. intros p Hp. apply forallb_forall. intros q Hq.
    apply (In_nth _ _ (S754_nan, S754_nan)) in Hp. destruct Hp as (i & Hi & <-).
    apply (In_nth _ _ (S754_nan, S754_nan)) in Hq. destruct Hq as (j & Hj & <-).
    rewrite !Hn. cbn [fst snd]. apply negb_true_iff. apply H; lia.
Qed.

(* one arrangement in order for both samples excludes a strict inversion (ties or NaN allowed) *)
Lemma common_order_no_inversion : forall a b l, length a = length b ->
  Permutation l (seq 0 (length a)) -> StronglySorted (ple a) l -> StronglySorted (ple b) l ->
  no_strict_inversion a b = true.
Proof.
  intros a b l Hl Hp Ha Hb. apply nsi_spec; [exact Hl|]. intros i j Hi Hj.
  destruct (Nat.eq_dec i j) as [->|Hne].
  - rewrite rt_fltb_irrefl. reflexivity.
  - assert (Ii : In i l) by (apply (Permutation_in _ (Permutation_sym Hp)), in_seq; lia).
    assert (Ij : In j l) by (apply (Permutation_in _ (Permutation_sym Hp)), in_seq; lia).
    destruct (SS_both (ple a) (ple b) l i j Ha Hb Ii Ij Hne) as [[_ H]|[H _]].
    + unfold ple in H. rewrite (rt_nl_not_gt _ _ H). apply andb_false_r.
    + unfold ple in H. rewrite (rt_nl_not_gt _ _ H). reflexivity.
Qed.

(* the model's rank test never passes over a strict inversion: ALL lists *)
Theorem same_ranks_no_inversion : forall a b, same_ranks a b = true -> no_strict_inversion a b = true.
Proof.
  intros a b H. pose proof (same_ranks_length a b H) as Hl. apply same_ranks_iff in H.
  apply (common_order_no_inversion a b (rank_order a) Hl).
  - apply rank_order_perm.
  - apply rank_order_weak.
  - rewrite H. apply rank_order_weak.
Qed.

(* and, without ties nor NaN, it passes exactly when no pair of groups is strictly inverted *)
Theorem same_ranks_iff_no_inversion : forall a b,
  length a = length b -> no_nan a -> no_nan b -> has_tie a = false -> has_tie b = false ->
  (same_ranks a b = true <-> no_strict_inversion a b = true).
Proof.
  intros a b Hl Na Nb Ta Tb. split; [apply same_ranks_no_inversion|].
  intros H. apply same_ranks_iff. apply rank_order_unique.
  - rewrite <- Hl. apply rank_order_perm.
  - pose proof (proj1 (nsi_spec a b Hl) H) as Hinv.
    apply (SS_impl_NoDup (slt a)); [apply rank_order_stable|apply rank_order_NoDup|].
    intros i j Hi Hj Hne [Hij _].
    apply (Permutation_in _ (rank_order_perm a)) in Hi. apply in_seq in Hi.
    apply (Permutation_in _ (rank_order_perm a)) in Hj. apply in_seq in Hj.
    assert (Ai : f_is_nan (rate_at a i) = false) by (apply no_nan_at; [exact Na|lia]).
    assert (Aj : f_is_nan (rate_at a j) = false) by (apply no_nan_at; [exact Na|lia]).
    assert (Bi : f_is_nan (rate_at b i) = false) by (apply no_nan_at; [exact Nb|lia]).
    assert (Bj : f_is_nan (rate_at b j) = false) by (apply no_nan_at; [exact Nb|lia]).
    unfold ple in Hij. rewrite rt_nl_fleb in Hij by assumption.
    assert (Hlt : fltb (rate_at a i) (rate_at a j) = true).
    { apply rt_fltb_of_le_neq; [exact Hij|].
      destruct (feqb (rate_at a i) (rate_at a j)) eqn:E; [|reflexivity]. exfalso.
      apply (has_tie_distinct a i j Ta); try lia; [exact Hij|].
      unfold feqb, fleb, SFeqb, SFleb in *. rewrite (rt_cmp_antisym (rate_at a i) (rate_at a j)).
      destruct (SFcompare (rate_at a i) (rate_at a j)) as [[]|]; try discriminate E; reflexivity. }
    specialize (Hinv i j ltac:(lia) ltac:(lia)). rewrite Hlt in Hinv. cbn [andb] in Hinv.
    pose proof (rt_fleb_of_not_gt _ _ Bi Bj Hinv) as Hb.
    split; [unfold ple; rewrite rt_nl_fleb by assumption; exact Hb|].
    intros Hji. exfalso. unfold ple in Hji. rewrite rt_nl_fleb in Hji by assumption.
    apply (has_tie_distinct b i j Tb); try lia; assumption.
Qed.

(* ============================================================================================ *)
(* Part E — the tie policy of CheckC01                                                          *)
(* ============================================================================================ *)

(* _test_viability with the two sort results it happened to get:
     all(train_rates.sort_values(..).index == dev_rates.sort_values(..).index) *)
Definition viable_with (cf : cfg) (train d : list ymset) (c : grouping) (lt ld : list nat) : bool :=
  rows_ok (min_freq_mod cf) (rows_of train c)
  && (nat_list_eqb lt ld && rows_ok (min_freq_mod cf) (rows_of d c)).

(* when the candidate is not rank-ambiguous the verdict is the model's, whatever the two sorts did
   (NaN rates of groups that are empty on dev included) *)
Theorem tie_free_candidates_decided : forall cf train d c lt ld,
  rank_ambiguous cf train (Some d) c = false ->
  pandas_order (map rate (rows_of train c)) lt ->
  pandas_order (map rate (rows_of d c)) ld ->
  viable_with cf train d c lt ld = viable cf train (Some d) c.
Proof.
  intros cf train d c lt ld Hamb Ht Hd. unfold viable_with, viable. unfold rank_ambiguous in Hamb.
  cbv zeta in Hamb.
  set (rt := map rate (rows_of train c)) in *. set (rd := map rate (rows_of d c)) in *.
  destruct (rows_ok (min_freq_mod cf) (rows_of train c)); cbn [andb]; [|reflexivity].
  destruct (rows_ok (min_freq_mod cf) (rows_of d c)); cbn [andb] in Hamb |- *;
    [|rewrite !andb_false_r; reflexivity].
  rewrite !andb_true_r.
  assert (Hl : length rt = length rd).
  { unfold rt, rd, rows_of. rewrite !map_length. reflexivity. }
  destruct (no_strict_inversion rt rd) eqn:Hnsi.
  - rewrite andb_true_r in Hamb. apply orb_false_iff in Hamb. destruct Hamb as [Tt Td].
    rewrite (pandas_order_tie_free rt lt Tt Ht), (pandas_order_tie_free rd ld Td Hd).
    destruct (same_ranks rt rd) eqn:E.
    + apply same_ranks_iff in E. rewrite E. apply nat_list_eqb_eq. reflexivity.
    + destruct (nat_list_eqb (rank_order rt) (rank_order rd)) eqn:E'; [|reflexivity].
      apply nat_list_eqb_eq, same_ranks_iff in E'. rewrite E' in E. discriminate E.
  - destruct (same_ranks rt rd) eqn:E.
    + apply same_ranks_no_inversion in E. rewrite E in Hnsi. discriminate Hnsi.
    + destruct (nat_list_eqb lt ld) eqn:E'; [|reflexivity]. apply nat_list_eqb_eq in E'. subst ld.
      rewrite (common_order_no_inversion rt rd lt Hl) in Hnsi; [discriminate Hnsi| | |].
      * apply pandas_order_perm. exact Ht.
      * apply pandas_order_weak. exact Ht.
      * apply pandas_order_weak. exact Hd.
Qed.

(* without a dev sample there is no rank test at all *)
Lemma rank_ambiguous_no_dev : forall cf train c, rank_ambiguous cf train None c = false.
Proof. reflexivity. Qed.

(* with the model's own orders (possible sort results: [rank_order_is_pandas_order]) it IS [viable],
   ambiguous or not *)
Lemma viable_with_rank_order : forall cf train d c,
  viable_with cf train d c (rank_order (map rate (rows_of train c))) (rank_order (map rate (rows_of d c)))
  = viable cf train (Some d) c.
Proof.
  intros cf train d c. unfold viable_with, viable. f_equal. f_equal.
  destruct (same_ranks _ _) eqn:E.
  - apply same_ranks_iff in E. rewrite E. apply nat_list_eqb_eq. reflexivity.
  - destruct (nat_list_eqb _ _) eqn:E'; [|reflexivity].
    apply nat_list_eqb_eq, same_ranks_iff in E'. rewrite E' in E. discriminate E.
Qed.

(* THE REASON for the policy: a rank-ambiguous candidate (every other test passes, one exact tie on dev
   between two NON-adjacent groups - adjacent ones would be refused as "close" -, no strict inversion)
   for which two valid sort results give opposite verdicts.
   train: rates 1/4, 3/4, 1/2; dev: rates 2/4, 3/4, 3/6 (groups 0 and 2 exactly tied on dev). *)
Definition tie_cfg : cfg := mkCfg 3 (f_of_dyadic 1 (-4)) true Cramerv.
Definition tie_train : list ymset := [[(0,3);(1,1)]; [(0,1);(1,3)]; [(0,2);(1,2)]]%Z.
Definition tie_dev : list ymset := [[(0,2);(1,2)]; [(0,1);(1,3)]; [(0,3);(1,3)]]%Z.
Definition tie_cand : grouping := [[0]; [1]; [2]].

Lemma perm_021 : Permutation [0; 2; 1] [0; 1; 2].
Proof. apply perm_skip, perm_swap. Qed.

Lemma perm_201 : Permutation [2; 0; 1] [0; 1; 2].
Proof. eapply perm_trans; [apply perm_swap|exact perm_021]. Qed.

Ltac sorted_tac :=
  repeat first [apply Sorted_nil | apply Sorted_cons | apply HdRel_nil | apply HdRel_cons
               | (vm_compute; reflexivity)].

Theorem tied_rates_sort_dependent :
  exists cf train d c lt ld ld',
    rank_ambiguous cf train (Some d) c = true
    /\ pandas_order (map rate (rows_of train c)) lt
    /\ pandas_order (map rate (rows_of d c)) ld
    /\ pandas_order (map rate (rows_of d c)) ld'
    /\ viable_with cf train d c lt ld = true
    /\ viable_with cf train d c lt ld' = false.
Proof.
  exists tie_cfg, tie_train, tie_dev, tie_cand, [0; 2; 1], [0; 2; 1], [2; 0; 1].
  split; [vm_compute; reflexivity|].
  split; [exists [0; 2; 1]; split; [vm_compute; reflexivity|]; split;
          [vm_compute; exact perm_021|sorted_tac]|].
  split; [exists [0; 2; 1]; split; [vm_compute; reflexivity|]; split;
          [vm_compute; exact perm_021|sorted_tac]|].
  split; [exists [2; 0; 1]; split; [vm_compute; reflexivity|]; split;
          [vm_compute; exact perm_201|sorted_tac]|].
  split; vm_compute; reflexivity.
Qed.

Print Assumptions rank_order_perm.
Print Assumptions rank_order_stable.
Print Assumptions rank_order_unique.
Print Assumptions pandas_order_tie_free.
Print Assumptions rank_order_sort_independent.
Print Assumptions rank_order_is_pandas_order.
Print Assumptions rank_order_stable_sort_spec.
Print Assumptions same_ranks_no_inversion.
Print Assumptions same_ranks_iff_no_inversion.
Print Assumptions tie_free_candidates_decided.
Print Assumptions tied_rates_sort_dependent.
