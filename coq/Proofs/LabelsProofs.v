(* LabelsProofs.v — the label tables of Model/Labels.v: the table built by
   _get_labels_per_values maps every member of the i-th leader's group to the i-th label,
   lengths of the label lists, distinctness of labels (ranks, categories, interval strings). *)
From Coq Require Import Permutation Lia Sorting.Sorted.
From AC.Model Require Import Base GroupedList Labels Transform.
From AC.Proofs Require Import BaseLemmas GroupedListSpec GroupedListProofs TransformSpec.

(* ---- lget / lset ------------------------------------------------------------------------ *)

Lemma lget_lset_same : forall k l d, lget k (lset k l d) = Some l.
Proof.
  intros k l d; induction d as [|[k' l'] t IH]; cbn [lset lget].
  - rewrite val_eqb_refl; reflexivity.
  - veq k k'.
    + subst k'. cbn [lget]. rewrite val_eqb_refl. reflexivity.
    + cbn [lget]. rewrite (proj2 (val_eqb_neq k k') E). exact IH.
Qed.

Lemma lget_lset_other : forall k k' l d, k' <> k -> lget k' (lset k l d) = lget k' d.
Proof.
  intros k k' l d Hn; induction d as [|[k0 l0] t IH]; cbn [lset lget].
  - rewrite (proj2 (val_eqb_neq k' k) Hn). reflexivity.
  - veq k k0.
    + subst k0. cbn [lget]. rewrite (proj2 (val_eqb_neq k' k) Hn). reflexivity.
    + cbn [lget]. destruct (val_eqb k' k0); [reflexivity | exact IH].
Qed.

Lemma lset_fold : forall v l ws acc,
  lget v (fold_left (fun a w => lset w l a) ws acc) = if mem v ws then Some l else lget v acc.
Proof.
  intros v l ws; induction ws as [|w t IH]; intro acc; cbn [fold_left mem].
  - reflexivity.
  - rewrite IH. veq v w.
    + subst w. cbn [orb]. destruct (mem v t); [reflexivity|]. apply lget_lset_same.
    + cbn [orb]. destruct (mem v t); [reflexivity|]. apply lget_lset_other; exact E.
Qed.

Lemma lpv_step_get : forall g v acc k l,
  lget v (lpv_step g acc (k, l)) = if mem v (get g k) then Some l else lget v acc.
Proof. intros g v acc k l. unfold lpv_step. cbn [fst snd]. apply lset_fold. Qed.

Lemma lpv_fold_notin : forall g v pairs acc,
  (forall k l, In (k, l) pairs -> ~ In v (get g k)) ->
  lget v (fold_left (lpv_step g) pairs acc) = lget v acc.
Proof.
  intros g v pairs; induction pairs as [|[k l] t IH]; intros acc H; cbn [fold_left].
  - reflexivity.
  - rewrite IH by (intros k' l' Hi; apply (H k' l'); right; exact Hi).
    rewrite lpv_step_get.
    rewrite (proj2 (mem_false v (get g k))) by (apply (H k l); left; reflexivity).
    reflexivity.
Qed.

(* groups of a well-formed order are pairwise disjoint *)
Lemma WF_get_disjoint : forall g k1 k2 v, WF g -> In v (get g k1) -> In v (get g k2) -> k1 = k2.
Proof.
  intros g k1 k2 v (_ & _ & _ & Hv & _) H1 H2. unfold get in H1, H2.
  destruct (dget k1 (content g)) as [vs1|] eqn:E1; [|destruct H1].
  destruct (dget k2 (content g)) as [vs2|] eqn:E2; [|destruct H2].
  apply dget_In in E1. apply dget_In in E2.
  pose proof (NoDup_dvalues_unique _ _ _ _ _ _ Hv E1 E2 H1 H2) as Heq.
  congruence.
Qed.

Lemma lpv_gen : forall g v k, WF g -> In v (get g k) ->
  forall ks labels acc i, NoDup ks -> nth_error ks i = Some k ->
  lget v (fold_left (lpv_step g) (combine ks labels) acc) =
  match nth_error labels i with Some l => Some l | None => lget v acc end.
Proof.
  intros g v k Hwf Hv ks; induction ks as [|k0 t IH]; intros labels acc i Hnd Hi.
  - destruct i; discriminate.
  - destruct labels as [|l0 ls].
    + cbn [combine fold_left]. destruct i; reflexivity.
    + cbn [combine fold_left]. inversion Hnd as [|x xs Hnotin Hnd']; subst x xs.
      destruct i as [|i'].
      * cbn [nth_error] in Hi |- *. injection Hi as Hk. subst k0.
        rewrite lpv_fold_notin.
        -- rewrite lpv_step_get. rewrite (proj2 (mem_In v (get g k)) Hv). reflexivity.
        -- intros k' l' Hin Hv'. apply in_combine_l in Hin.
           assert (Hkk : k' = k) by (eapply WF_get_disjoint; eauto).
           subst k'. contradiction.
      * cbn [nth_error] in Hi |- *. rewrite (IH ls _ i' Hnd' Hi).
        destruct (nth_error ls i') as [l|]; [reflexivity|].
        rewrite lpv_step_get.
        assert (Hne : k0 <> k).
        { intro Heq; subst k0. apply Hnotin. eapply nth_error_In; eauto. }
        rewrite (proj2 (mem_false v (get g k0))); [reflexivity|].
        intro Hv0. apply Hne. eapply WF_get_disjoint; eauto.
Qed.

Theorem lpv_spec : forall g labels i k v,
  WF g -> nth_error (keys g) i = Some k -> In v (get g k) ->
  lget v (lpv_of g labels) = nth_error labels i.
Proof.
  intros g labels i k v Hwf Hi Hv. unfold lpv_of.
  rewrite (lpv_gen g v k Hwf Hv (keys g) labels [] i (proj1 Hwf) Hi).
  destruct (nth_error labels i); reflexivity.
Qed.

Theorem lpv_none : forall g labels v,
  ~ In v (values g) -> lget v (lpv_of g labels) = None.
Proof.
  intros g labels v Hn. unfold lpv_of. rewrite lpv_fold_notin; [reflexivity|].
  intros k l _ Hin. apply Hn. eapply In_get_values; eauto.
Qed.

(* ---- lengths ---------------------------------------------------------------------------- *)

Lemma py_neq_spec : forall a nan, nan <> VNaN -> py_neq a nan = negb (val_eqb a nan).
Proof.
  intros a nan Hn. unfold py_neq, py_eq. destruct a; try reflexivity.
  destruct nan; try reflexivity. congruence.
Qed.

Lemma py_neq_true : forall a nan, nan <> VNaN -> py_neq a nan = true -> a <> nan.
Proof.
  intros a nan Hn H. rewrite (py_neq_spec a nan Hn) in H. apply negb_true_iff in H.
  apply val_eqb_neq; exact H.
Qed.

Lemma filter_nan_length : forall nan ks, NoDup ks -> nan <> VNaN ->
  (List.length (filter (fun v => py_neq v nan) ks) + (if mem nan ks then 1 else 0)
   = List.length ks)%nat.
Proof.
  intros nan ks Hnd Hn; induction Hnd as [|a t Hnotin Hnd IH]; cbn [filter mem List.length].
  - reflexivity.
  - rewrite (py_neq_spec a nan Hn). rewrite (val_eqb_sym nan a). veq a nan.
    + subst a. cbn [negb orb]. rewrite (proj2 (mem_false nan t) Hnotin) in IH. lia.
    + cbn [negb orb List.length]. lia.
Qed.

Lemma get_labels_length : forall k o fmt nan ks,
  List.length (get_labels k o fmt nan ks) =
  (List.length (base_labels k fmt nan ks) + (if mem nan ks then 1 else 0))%nat.
Proof.
  intros k o fmt nan ks. unfold get_labels. destruct o.
  - rewrite app_length. destruct (mem nan ks); reflexivity.
  - rewrite map_length, seq_length, app_length. destruct (mem nan ks); reflexivity.
Qed.

Theorem labels_length_qual : forall o fmt nan ks,
  NoDup ks -> nan <> VNaN -> List.length (get_labels Qual o fmt nan ks) = List.length ks.
Proof.
  intros o fmt nan ks Hnd Hn. rewrite get_labels_length. unfold base_labels.
  rewrite map_length. apply filter_nan_length; assumption.
Qed.

Lemma fq_tail_length : forall rest prev, List.length (fq_tail prev rest) = S (List.length rest).
Proof.
  induction rest as [|f t IH]; intro prev; cbn [fq_tail List.length];
    [reflexivity | rewrite IH; reflexivity].
Qed.

Lemma format_quantiles_length : forall fs,
  List.length (format_quantiles fs) = S (List.length fs).
Proof.
  destruct fs as [|f t]; cbn [format_quantiles List.length];
    [reflexivity | rewrite fq_tail_length; reflexivity].
Qed.

Lemma filter_andb : forall (A : Type) (p q : A -> bool) l,
  filter (fun v => p v && q v) l = filter q (filter p l).
Proof.
  intros A p q l; induction l as [|a t IH]; cbn [filter]; [reflexivity|].
  destruct (p a); cbn [andb filter].
  - destruct (q a); rewrite IH; reflexivity.
  - exact IH.
Qed.

Lemma finite_of_sentinel : forall zs, filter is_finite (map VNum zs ++ [VPInf]) = map VNum zs.
Proof.
  induction zs as [|z t IH]; cbn [map app filter is_finite]; [reflexivity|].
  rewrite IH; reflexivity.
Qed.

Lemma finite_leaders_sentinel : forall nan ks zs,
  filter (fun v => py_neq v nan) ks = map VNum zs ++ [VPInf] ->
  finite_leaders nan ks = map VNum zs.
Proof.
  intros nan ks zs H. unfold finite_leaders.
  rewrite (filter_andb val (fun v => py_neq v nan) is_finite ks), H.
  apply finite_of_sentinel.
Qed.

Theorem labels_length_quant : forall o fmt nan ks zs,
  NoDup ks -> nan <> VNaN ->
  filter (fun v => py_neq v nan) ks = map VNum zs ++ [VPInf] ->
  List.length (get_labels Quant o fmt nan ks) = List.length ks.
Proof.
  intros o fmt nan ks zs Hnd Hn H. rewrite get_labels_length.
  unfold base_labels, quant_labels.
  rewrite map_length, format_quantiles_length, map_length.
  rewrite (finite_leaders_sentinel nan ks zs H), map_length.
  pose proof (filter_nan_length nan ks Hnd Hn) as HL. rewrite H in HL.
  rewrite app_length, map_length in HL. cbn [List.length] in HL. lia.
Qed.

(* ---- output_dtype = 'float' : ranks ----------------------------------------------------- *)

Lemma nth_error_seq_lt : forall n s i, (i < n)%nat -> nth_error (seq s n) i = Some (s + i)%nat.
Proof.
  induction n as [|n IH]; intros s i H; [lia|]. cbn [seq]. destruct i as [|i]; cbn [nth_error].
  - f_equal; lia.
  - rewrite IH by lia. f_equal; lia.
Qed.

Theorem float_labels_are_ranks : forall k fmt nan ks i,
  (i < List.length (get_labels k OFloat fmt nan ks))%nat ->
  nth_error (get_labels k OFloat fmt nan ks) i = Some (LRank i).
Proof.
  intros k fmt nan ks i H. unfold get_labels in *. rewrite map_length, seq_length in H.
  erewrite map_nth_error; [reflexivity|]. exact (nth_error_seq_lt _ 0%nat i H).
Qed.

Lemma NoDup_map_in : forall (A B : Type) (f : A -> B) l,
  (forall x y, In x l -> In y l -> f x = f y -> x = y) -> NoDup l -> NoDup (map f l).
Proof.
  intros A B f l Hinj Hnd; revert Hinj.
  induction Hnd as [|a t Hnotin Hnd IH]; intro Hinj; cbn [map]; constructor.
  - intro Hin. apply in_map_iff in Hin. destruct Hin as (y & Hy & Hiny).
    assert (Hya : y = a) by (apply Hinj; [right; exact Hiny | left; reflexivity | exact Hy]).
    subst y; contradiction.
  - apply IH. intros x y Hx Hy. apply Hinj; right; assumption.
Qed.

Theorem float_labels_NoDup : forall k fmt nan ks, NoDup (get_labels k OFloat fmt nan ks).
Proof.
  intros k fmt nan ks. unfold get_labels. apply NoDup_map_in; [|apply seq_NoDup].
  intros x y _ _ E. injection E; auto.
Qed.

Theorem distinct_groups_distinct_labels : forall fmt st k1 k2 l1 l2,
  coherent fmt st -> NoDup (labels_of fmt st) ->
  In k1 (keys (st_order st)) -> In k2 (keys (st_order st)) -> k1 <> k2 ->
  lget k1 (st_lpv st) = Some l1 -> lget k2 (st_lpv st) = Some l2 -> l1 <> l2.
Proof.
  intros fmt st k1 k2 l1 l2 [Hwf Hlpv] Hnd H1 H2 Hne Hg1 Hg2 Heq.
  destruct (In_nth_error _ _ H1) as [i1 Hi1]. destruct (In_nth_error _ _ H2) as [i2 Hi2].
  rewrite Hlpv in Hg1, Hg2. unfold labels_per_values in Hg1, Hg2. unfold labels_of in Hnd.
  rewrite (lpv_spec _ _ i1 k1 k1 Hwf Hi1 (WF_key_get _ _ Hwf H1)) in Hg1.
  rewrite (lpv_spec _ _ i2 k2 k2 Hwf Hi2 (WF_key_get _ _ Hwf H2)) in Hg2.
  assert (Hii : i1 = i2).
  { apply (proj1 (NoDup_nth_error _) Hnd).
    - apply nth_error_Some. congruence.
    - congruence. }
  subst i2. apply Hne. congruence.
Qed.

Theorem float_labels_distinct : forall fmt st k1 k2 l1 l2,
  coherent fmt st -> st_odt st = OFloat ->
  In k1 (keys (st_order st)) -> In k2 (keys (st_order st)) -> k1 <> k2 ->
  lget k1 (st_lpv st) = Some l1 -> lget k2 (st_lpv st) = Some l2 -> l1 <> l2.
Proof.
  intros fmt st k1 k2 l1 l2 Hc Ho. apply (distinct_groups_distinct_labels fmt); [exact Hc|].
  unfold labels_of. rewrite Ho. apply float_labels_NoDup.
Qed.

Theorem qual_str_labels_NoDup : forall fmt nan ks,
  NoDup ks -> nan <> VNaN -> NoDup (get_labels Qual OStr fmt nan ks).
Proof.
  intros fmt nan ks Hnd Hn. unfold get_labels, base_labels.
  apply NoDup_app_iff. split; [|split].
  - apply NoDup_map_in; [|apply NoDup_filter; exact Hnd].
    intros x y _ _ E. injection E; auto.
  - destruct (mem nan ks); constructor; [intros []|constructor].
  - intros x Hx Hin. destruct (mem nan ks); [|destruct Hin].
    destruct Hin as [Hin|[]]. subst x.
    apply in_map_iff in Hx. destruct Hx as (v & E & Hv). injection E as E. subst v.
    apply filter_In in Hv. destruct Hv as [_ Hv].
    exact (py_neq_true nan nan Hn Hv eq_refl).
Qed.

(* ---- interval labels -------------------------------------------------------------------- *)

Lemma fq_tail_render : forall rest prev,
  fq_tail prev rest = map render (combine (Some prev :: map Some rest) (map Some rest ++ [None])).
Proof.
  induction rest as [|f t IH]; intro prev; cbn [fq_tail map app combine render].
  - reflexivity.
  - rewrite IH. reflexivity.
Qed.

Theorem format_quantiles_render : forall ss, format_quantiles ss = map render (bounds ss).
Proof.
  intros [|f0 rest]; unfold bounds; cbn [format_quantiles map app combine render].
  - reflexivity.
  - rewrite fq_tail_render. reflexivity.
Qed.

Lemma no_space_cons : forall c r,
  no_space (String c r) = true -> c <> " "%char /\ no_space r = true.
Proof.
  intros c r H. cbn [no_space] in H. apply andb_prop in H. destruct H as [H1 H2].
  split; [|exact H2]. apply negb_true_iff in H1. apply Ascii.eqb_neq in H1. exact H1.
Qed.

(* a string is cut in a unique way at its first space *)
Lemma split_space : forall a c r r',
  no_space a = true -> no_space c = true ->
  (a ++ String " "%char r)%string = (c ++ String " "%char r')%string -> a = c /\ r = r'.
Proof.
  induction a as [|x a IH]; intros [|y c] r r' Ha Hc H; cbn [append] in H.
  - injection H as H. subst r'. split; reflexivity.
  - apply no_space_cons in Hc. destruct Hc as [Hy _]. injection H as Hxy _. congruence.
  - apply no_space_cons in Ha. destruct Ha as [Hx _]. injection H as Hxy _. congruence.
  - apply no_space_cons in Ha. apply no_space_cons in Hc.
    destruct Ha as [_ Ha]; destruct Hc as [_ Hc].
    injection H as Hxy Ht. destruct (IH c r r' Ha Hc Ht) as [Hac Hrr].
    subst. split; reflexivity.
Qed.

(* a rendered label = (part before the first space, part after it) *)
Definition rparts (b : option string * option string) : string * string :=
  match b with
  | (None, Some u) => ("x", "<= " ++ u)%string
  | (Some l, None) => (l, "< x")%string
  | (Some l, Some u) => (l, "< x <= " ++ u)%string
  | (None, None) => ("x", "<= nan")%string
  end.

Lemma render_parts : forall b,
  render b = (fst (rparts b) ++ String " "%char (snd (rparts b)))%string.
Proof. intros [[l|] [u|]]; reflexivity. Qed.

Lemma rparts_no_space : forall b,
  (forall l, fst b = Some l -> no_space l = true) -> no_space (fst (rparts b)) = true.
Proof.
  intros [[l|] [u|]] H; cbn [rparts fst] in *; try reflexivity; apply H; reflexivity.
Qed.

Theorem render_inj : forall b1 b2,
  (forall l, fst b1 = Some l -> no_space l = true) ->
  (forall l, fst b2 = Some l -> no_space l = true) ->
  b1 <> (None, None) -> b2 <> (None, None) ->
  render b1 = render b2 -> b1 = b2.
Proof.
  intros b1 b2 H1 H2 N1 N2 H. rewrite !render_parts in H.
  apply split_space in H; [|apply rparts_no_space; assumption|apply rparts_no_space; assumption].
  destruct H as [Hp Hr].
  destruct b1 as [[l1|] [u1|]]; destruct b2 as [[l2|] [u2|]];
    try (exfalso; apply N1; reflexivity); try (exfalso; apply N2; reflexivity);
    cbn [rparts fst snd append] in Hp, Hr;
    try discriminate Hr; try (injection Hr as Hr'); subst; reflexivity.
Qed.

Lemma bounds_cons_not_none : forall ss b, ss <> [] -> In b (bounds ss) -> b <> (None, None).
Proof.
  intros [|f0 rest] b Hne Hin; [congruence|]. unfold bounds in Hin.
  change (In b ((None, Some f0) :: combine (map Some (f0 :: rest)) (map Some rest ++ [None])))
    in Hin.
  destruct Hin as [Hin|Hin]; [subst b; discriminate|].
  destruct b as [a c]. apply in_combine_l in Hin. apply in_map_iff in Hin.
  destruct Hin as (s & Hs & _). intro Heq. congruence.
Qed.

Lemma bounds_lower_no_space : forall ss b l,
  Forall (fun s => no_space s = true) ss -> In b (bounds ss) -> fst b = Some l ->
  no_space l = true.
Proof.
  intros ss [a c] l Hall Hin Hl. unfold bounds in Hin. apply in_combine_l in Hin.
  cbn [fst] in Hl. subst a. destruct Hin as [Hin|Hin]; [discriminate|].
  apply in_map_iff in Hin. destruct Hin as (s & Hs & Hin). injection Hs as Hs. subst s.
  exact (proj1 (Forall_forall _ _) Hall l Hin).
Qed.

Theorem str_labels_distinct_iff : forall ss,
  Forall (fun s => no_space s = true) ss ->
  (NoDup (format_quantiles ss) <-> NoDup (bounds ss)).
Proof.
  intros ss Hall. rewrite format_quantiles_render. split; [apply NoDup_map_inv|].
  intro Hnd. destruct ss as [|f0 rest].
  - cbn. constructor; [intros []|constructor].
  - apply NoDup_map_in; [|exact Hnd]. intros x y Hx Hy Heq.
    apply render_inj; try exact Heq.
    + intros l Hl. exact (bounds_lower_no_space _ x l Hall Hx Hl).
    + intros l Hl. exact (bounds_lower_no_space _ y l Hall Hy Hl).
    + eapply bounds_cons_not_none; [|exact Hx]. discriminate.
    + eapply bounds_cons_not_none; [|exact Hy]. discriminate.
Qed.

Lemma NoDup_combine_l : forall (A B : Type) (l1 : list A) (l2 : list B),
  NoDup l1 -> NoDup (combine l1 l2).
Proof.
  intros A B l1; induction l1 as [|a t IH]; intros l2 H; destruct l2 as [|b l2];
    cbn [combine]; try constructor.
  - intro Hin. apply in_combine_l in Hin. inversion H; contradiction.
  - apply IH. inversion H; assumption.
Qed.

Theorem str_labels_distinct_injective : forall ss,
  Forall (fun s => no_space s = true) ss -> NoDup ss -> NoDup (format_quantiles ss).
Proof.
  intros ss Hall Hnd. apply str_labels_distinct_iff; [exact Hall|]. unfold bounds.
  apply NoDup_combine_l. constructor.
  - intro Hin. apply in_map_iff in Hin. destruct Hin as (s & E & _). discriminate.
  - apply NoDup_map_in; [|exact Hnd]. intros x y _ _ E. injection E; auto.
Qed.

Lemma no_space_app_space : forall a r, no_space (a ++ String " "%char r)%string = false.
Proof.
  induction a as [|x a IH]; intro r.
  - reflexivity.
  - change (negb (Ascii.eqb x " "%char) && no_space (a ++ String " "%char r)%string = false).
    rewrite IH. apply andb_false_r.
Qed.

Lemma fq_tail_space : forall rest prev t, In t (fq_tail prev rest) -> no_space t = false.
Proof.
  induction rest as [|f rest IH]; intros prev t Hin; cbn [fq_tail] in Hin.
  - destruct Hin as [Hin|[]]. subst t. exact (no_space_app_space prev "< x"%string).
  - destruct Hin as [Hin|Hin].
    + subst t. exact (no_space_app_space prev ("< x <= " ++ f)%string).
    + eapply IH; eauto.
Qed.

Lemma format_quantiles_space : forall ss t, In t (format_quantiles ss) -> no_space t = false.
Proof.
  intros [|f0 rest] t Hin; cbn [format_quantiles] in Hin.
  - destruct Hin as [Hin|[]]. subst t. reflexivity.
  - destruct Hin as [Hin|Hin].
    + subst t. exact (no_space_app_space "x"%string ("<= " ++ f0)%string).
    + eapply fq_tail_space; eauto.
Qed.

Theorem quant_str_labels_NoDup : forall fmt nan s ks,
  nan = VStr s -> no_space s = true ->
  Forall (fun x => no_space x = true) (map (fmt_lookup fmt) (finite_leaders nan ks)) ->
  NoDup (map (fmt_lookup fmt) (finite_leaders nan ks)) ->
  NoDup (get_labels Quant OStr fmt nan ks).
Proof.
  intros fmt nan s ks Hnan Hs Hall Hnd. unfold get_labels, base_labels, quant_labels.
  apply NoDup_app_iff. split; [|split].
  - apply NoDup_map_in; [|apply str_labels_distinct_injective; assumption].
    intros x y _ _ E. injection E; auto.
  - destruct (mem nan ks); constructor; [intros []|constructor].
  - intros x Hx Hin. destruct (mem nan ks); [|destruct Hin].
    destruct Hin as [Hin|[]]. subst x.
    apply in_map_iff in Hx. destruct Hx as (t & E & Ht). rewrite Hnan in E.
    injection E as E. subst t. apply format_quantiles_space in Ht. congruence.
Qed.

(* ---- closed examples -------------------------------------------------------------------- *)

(* O2: three boundaries with one .3e form -> two distinct groups share a label *)
Local Open Scope string_scope.
Definition o2_fmt : fmt_table :=
  [(VNum 202301, "2.023e+05"); (VNum 202302, "2.023e+05"); (VNum 202303, "2.023e+05")].
Definition o2_state : state :=
  fitted_state Quant (of_list [VNum 202301; VNum 202302; VNum 202303; VPInf])
               (VStr "__NAN__") (VStr "__OTHER__") true OStr o2_fmt.

Lemma o2_wf : WF (st_order o2_state).
Proof.
  unfold o2_state, fitted_state. cbn [st_order]. apply wf_of_list.
  apply nodupb_NoDup. vm_compute. reflexivity.
Qed.

Theorem str_labels_refuted :
  WF (st_order o2_state) /\ coherent o2_fmt o2_state /\ leaders_sorted o2_state /\
  lget (VNum 202302) (st_lpv o2_state) = lget (VNum 202303) (st_lpv o2_state) /\
  transform_cell o2_state (VNum 202302) = transform_cell o2_state (VNum 202303) /\
  transform_cell o2_state (VNum 202302) = Ok (OLab (LVal (VStr "2.023e+05 < x <= 2.023e+05"))).
Proof.
  split; [exact o2_wf|]. split; [split; [exact o2_wf|reflexivity]|].
  split.
  { exists [202301; 202302; 202303]. split; [vm_compute; reflexivity|].
    repeat constructor. }
  split; [vm_compute; reflexivity|]. split; vm_compute; reflexivity.
Qed.

(* ... whereas TWO boundaries with one .3e form still give three distinct labels:
   "distinct iff fmt injective" is false right-to-left *)
Theorem two_equal_bounds_still_distinct :
  ~ NoDup ["2.023e+05"; "2.023e+05"] /\ NoDup (format_quantiles ["2.023e+05"; "2.023e+05"]).
Proof.
  split.
  - intro H. inversion H as [|x l Hn Hd]. apply Hn. left. reflexivity.
  - apply str_labels_distinct_iff.
    + repeat constructor.
    + unfold bounds. cbn [map app combine].
      constructor; [|constructor; [|constructor; [intros []|constructor]]].
      * intros [H|[H|[]]]; discriminate H.
      * intros [H|[]]; discriminate H.
Qed.
