(* HistoryProofs.v — C16, history half: the records of Model/Summary.v (Part 2) describe the search
   of Model/Carve.v truthfully.  For one stage: the history lists the sorted candidates of
   [Carve.stage] (every candidate exactly once, with its measure), the records before the first
   viable candidate are flagged not viable, the ones after it "not checked", and the last record
   flagged viable is exactly the result of [stage].  For a feature: the last record flagged
   viable over both stages is the fitted grouping of [carve].
   Viability and the measure are black boxes throughout. *)
From Coq Require Import ZArith QArith List Bool Lia Sorted Permutation.
Import ListNotations.
From AC.Model Require Import Float Combos Measures Carve CheckC01 Summary.
From AC.Proofs Require Import CombosProofs CarveProofs.
Local Open Scope nat_scope.

Local Arguments viable : simpl never.
Local Arguments measure : simpl never.

(* ---- sort_desc is a permutation ------------------------------------------------------------ *)

Lemma ins_desc_perm : forall A (x : A * option Q) l, Permutation (ins_desc x l) (x :: l).
Proof.
  intros A x l. induction l as [|y t IH]; cbn [ins_desc].
  - apply Permutation_refl.
  - destruct (oq_le (snd x) (snd y)).
    + apply Permutation_trans with (y :: x :: t).
      * apply perm_skip. exact IH.
      * apply perm_swap.
    + apply Permutation_refl.
Qed.

Lemma fold_ins_perm : forall A (l acc : list (A * option Q)),
  Permutation (fold_left (fun acc x => ins_desc x acc) l acc) (l ++ acc).
Proof.
  intros A l. induction l as [|x t IH]; intro acc; cbn [fold_left app].
  - apply Permutation_refl.
  - apply Permutation_trans with (t ++ ins_desc x acc); [apply IH|].
    apply Permutation_trans with (t ++ x :: acc).
    + apply Permutation_app_head. apply ins_desc_perm.
    + apply Permutation_sym. apply Permutation_middle.
Qed.

Lemma sort_desc_perm : forall A (l : list (A * option Q)), Permutation (sort_desc l) l.
Proof.
  intros A l. unfold sort_desc.
  apply Permutation_trans with (l ++ []); [apply fold_ins_perm|].
  rewrite app_nil_r. apply Permutation_refl.
Qed.

(* ---- hist_scan ----------------------------------------------------------------------------- *)

Definition flag_false (cm : grouping * option Q) : hrec := mkH (fst cm) (snd cm) (Some false).
Definition flag_true (cm : grouping * option Q) : hrec := mkH (fst cm) (snd cm) (Some true).
Definition proj (r : hrec) : grouping * option Q := (h_comb r, h_meas r).

Lemma proj_not_checked : forall t, map proj (map not_checked t) = t.
Proof.
  induction t as [|[c m] t IH]; cbn [map]; [reflexivity|].
  rewrite IH. reflexivity.
Qed.

(* the history is the scanned list, record by record *)
Lemma hist_scan_proj : forall v l, map proj (hist_scan v l) = l.
Proof.
  intros v l. induction l as [|[c m] t IH]; cbn [hist_scan]; [reflexivity|].
  cbn [fst snd]. destruct (v c); cbn [map proj h_comb h_meas].
  - rewrite proj_not_checked. reflexivity.
  - rewrite IH. reflexivity.
Qed.

Lemma last_viable_not_checked : forall t, last_viable (map not_checked t) = None.
Proof.
  induction t as [|x t IH]; cbn [map last_viable]; [reflexivity|].
  rewrite IH. reflexivity.
Qed.

Lemma last_viable_scan : forall v l,
  last_viable (hist_scan v l) =
  match find (fun cm => v (fst cm)) l with Some cm => Some (fst cm) | None => None end.
Proof.
  intros v l. induction l as [|cm t IH]; cbn [hist_scan find]; [reflexivity|].
  destruct (v (fst cm)) eqn:E; cbn [last_viable].
  - rewrite last_viable_not_checked. reflexivity.
  - rewrite IH. destruct (find (fun cm0 => v (fst cm0)) t); reflexivity.
Qed.

(* shape: not viable ..., viable, not checked ... *)
Lemma hist_scan_shape : forall v l,
  match find (fun cm => v (fst cm)) l with
  | Some cm =>
      exists pre post,
        l = pre ++ cm :: post /\
        (forall x, In x pre -> v (fst x) = false) /\ v (fst cm) = true /\
        hist_scan v l = map flag_false pre ++ flag_true cm :: map not_checked post
  | None => hist_scan v l = map flag_false l /\ forall x, In x l -> v (fst x) = false
  end.
Proof.
  intros v l. induction l as [|cm t IH]; cbn [find hist_scan].
  - split; [reflexivity | intros x []].
  - destruct (v (fst cm)) eqn:E.
    + exists [], t. split; [reflexivity|]. split; [intros x []|]. split; [exact E|]. reflexivity.
    + destruct (find (fun cm0 => v (fst cm0)) t) as [w|].
      * destruct IH as (pre & post & Hl & Hpre & Hw & Hh).
        exists (cm :: pre), post. split; [rewrite Hl; reflexivity|].
        split; [intros x [<-|Hx]; [exact E | apply Hpre; exact Hx]|].
        split; [exact Hw|]. rewrite Hh. reflexivity.
      * destruct IH as [Hh Hall]. split; [rewrite Hh; reflexivity|].
        intros x [<-|Hx]; [exact E | apply Hall; exact Hx].
Qed.

(* ---- one stage ----------------------------------------------------------------------------- *)

Lemma stage_scored : forall cf train dev cands,
  stage cf train dev cands =
  match find (fun cm => viable cf train dev (fst cm)) (scored cf train cands) with
  | Some cm => Some (fst cm)
  | None => None
  end.
Proof. intros. apply stage_unfold. Qed.

(* the last record flagged viable is exactly the result of the search *)
Theorem history_last_viable : forall cf train dev cands,
  last_viable (stage_history cf train dev cands) = stage cf train dev cands.
Proof.
  intros cf train dev cands. unfold stage_history. rewrite last_viable_scan, stage_scored.
  reflexivity.
Qed.

(* every candidate of the stage is present exactly once, with its measure, in decreasing order *)
Theorem history_candidates_once : forall cf train dev cands,
  map proj (stage_history cf train dev cands) = scored cf train cands /\
  Permutation (map h_comb (stage_history cf train dev cands)) cands /\
  (forall r, In r (stage_history cf train dev cands) ->
     h_meas r = measure cf train (total_n train) (h_comb r)) /\
  StronglySorted (fun a b => oq_le (h_meas b) (h_meas a) = true) (stage_history cf train dev cands).
Proof.
  intros cf train dev cands.
  assert (Hp : map proj (stage_history cf train dev cands) = scored cf train cands)
    by (unfold stage_history; apply hist_scan_proj).
  split; [exact Hp|].
  assert (Hc : map h_comb (stage_history cf train dev cands) = map fst (scored cf train cands)).
  { rewrite <- Hp. rewrite map_map. reflexivity. }
  split.
  - rewrite Hc. unfold scored.
    apply Permutation_trans with
      (map fst (map (fun c => (c, measure cf train (total_n train) c)) cands)).
    + apply Permutation_map. apply sort_desc_perm.
    + rewrite map_map. cbn [fst]. rewrite map_id. apply Permutation_refl.
  - split.
    + intros r Hr.
      assert (Hin : In (proj r) (scored cf train cands))
        by (rewrite <- Hp; apply in_map; exact Hr).
      unfold scored in Hin. apply sort_desc_In, in_map_iff in Hin.
      destruct Hin as (c & Hc' & _). unfold proj in Hc'. injection Hc' as H1 H2.
      rewrite <- H2, H1. reflexivity.
    + assert (Hs : StronglySorted desc (map proj (stage_history cf train dev cands)))
        by (rewrite Hp; unfold scored; apply sort_desc_sorted).
      revert Hs. generalize (stage_history cf train dev cands) as h.
      induction h as [|r t IH]; cbn [map]; intro Hs; [constructor|].
      inversion Hs as [|x xs Hst Hall]; subst x xs.
      constructor; [apply IH; exact Hst|].
      apply Forall_forall. intros y Hy. rewrite Forall_forall in Hall.
      apply (Hall (proj y)). apply in_map; exact Hy.
Qed.

(* records up to the first viable candidate carry their viability, later ones are not checked *)
Theorem history_shape : forall cf train dev cands,
  match stage cf train dev cands with
  | Some c =>
      exists pre m post,
        scored cf train cands = pre ++ (c, m) :: post /\
        (forall x, In x pre -> viable cf train dev (fst x) = false) /\
        viable cf train dev c = true /\
        stage_history cf train dev cands =
          map flag_false pre ++ mkH c m (Some true) :: map not_checked post
  | None =>
      stage_history cf train dev cands = map flag_false (scored cf train cands) /\
      forall c, In c cands -> viable cf train dev c = false
  end.
Proof.
  intros cf train dev cands. rewrite stage_scored. unfold stage_history.
  pose proof (hist_scan_shape (viable cf train dev) (scored cf train cands)) as H.
  destruct (find (fun cm => viable cf train dev (fst cm)) (scored cf train cands)) as [[c m]|] eqn:F.
  - destruct H as (pre & post & Hl & Hpre & Hv & Hh). cbn [fst] in *.
    exists pre, m, post. split; [exact Hl|]. split; [exact Hpre|]. split; [exact Hv|]. exact Hh.
  - destruct H as [Hh Hall]. split; [exact Hh|].
    intros c Hc. apply (Hall (c, measure cf train (total_n train) c)).
    unfold scored. apply sort_desc_In, in_map_iff. exists c. split; [reflexivity | exact Hc].
Qed.

(* ---- a feature ----------------------------------------------------------------------------- *)

Lemma last_viable_app : forall a b,
  last_viable (a ++ b) = match last_viable b with Some c => Some c | None => last_viable a end.
Proof.
  intros a b. induction a as [|r t IH]; cbn [app last_viable].
  - destruct (last_viable b); reflexivity.
  - rewrite IH. destruct (last_viable b); reflexivity.
Qed.

Lemma last_viable_expand : forall c1 n h,
  last_viable (map (expand_rec c1 n) h) = option_map (expand c1 n) (last_viable h).
Proof.
  intros c1 n h. induction h as [|r t IH]; cbn [map last_viable]; [reflexivity|].
  rewrite IH. destruct (last_viable t); cbn [option_map]; [reflexivity|].
  unfold flagged_viable, expand_rec. cbn [h_viab h_comb].
  destruct (h_viab r) as [[|]|]; reflexivity.
Qed.

Lemma raw_units_length : forall d, length (d_train d) <= length (raw_units d).
Proof. intro d. unfold raw_units. rewrite app_length. lia. Qed.

(* the last combination flagged viable, over both stages, is the fitted grouping *)
Theorem history_fitted_grouping : forall cf d c,
  carve cf d = Kept c -> last_viable (feature_history cf d) = Some c.
Proof.
  intros cf d c H. rewrite carve_eq in H. unfold feature_history.
  destruct (length (d_train d) <=? 1) eqn:Em; [discriminate|].
  apply Nat.leb_gt in Em. pose proof (raw_units_length d) as Hr.
  destruct (length (raw_units d) <=? 1) eqn:Er; [apply Nat.leb_le in Er; lia|].
  cbn [last_viable]. change (stage1_cands cf d) with (cands1 cf d).
  assert (Hraw : flagged_viable (raw_record cf d) = false) by reflexivity.
  rewrite Hraw.
  destruct (stage cf (d_train d) (d_dev d) (cands1 cf d)) as [c1|] eqn:S1; [|discriminate].
  rewrite last_viable_app.
  destruct (two_stage cf d) eqn:T.
  - change (cands2 cf c1) with (stage2_cands cf c1) in H.
    destruct (stage cf (fst (stage2_inputs d c1)) (snd (stage2_inputs d c1)) (stage2_cands cf c1))
      as [c2|] eqn:S2; [|discriminate].
    injection H as <-. unfold stage2_history.
    rewrite last_viable_expand, history_last_viable, S2. reflexivity.
  - injection H as <-. cbn [last_viable]. rewrite history_last_viable, S1. reflexivity.
Qed.

(* the history starts with the raw distribution (no viability), then stage 1, then stage 2 *)
Theorem history_layout : forall cf d,
  1 < length (d_train d) ->
  feature_history cf d =
    raw_record cf d ::
    stage_history cf (d_train d) (d_dev d) (stage1_cands cf d) ++
    match stage cf (d_train d) (d_dev d) (stage1_cands cf d) with
    | Some c1 => if two_stage cf d then stage2_history cf d c1 else []
    | None => []
    end.
Proof.
  intros cf d Hm. unfold feature_history. pose proof (raw_units_length d) as Hr.
  destruct (length (raw_units d) <=? 1) eqn:Er; [apply Nat.leb_le in Er; lia|].
  destruct (length (d_train d) <=? 1) eqn:Em; [apply Nat.leb_le in Em; lia|].
  reflexivity.
Qed.
