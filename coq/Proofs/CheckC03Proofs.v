(* CheckC03Proofs.v — soundness of the C03 checker booleans *)
From Coq Require Import ZArith List Bool Lia Sorted.
Import ListNotations.
From AC.Model Require Import CheckC03.
Open Scope Z_scope.

Lemma nat_list_eqb_eq : forall a b, nat_list_eqb a b = true <-> a = b.
Proof.
  induction a as [|x s IH]; intros [|y t]; cbn; try (split; [discriminate|discriminate]); [tauto|].
  rewrite andb_true_iff, Nat.eqb_eq, IH. split; [intros [-> ->]; reflexivity|intros H; injection H; auto].
Qed.

(* contiguous_b: the groups, read in order, are exactly the positions 0..m-1 cut into non-empty runs *)
Theorem contiguous_b_spec : forall m groups, contiguous_b m groups = true <->
  (concat groups = seq 0 m /\ Forall (fun g => g <> []) groups).
Proof.
  intros m groups. unfold contiguous_b. rewrite andb_true_iff, nat_list_eqb_eq, forallb_forall, Forall_forall.
  split; intros [H1 H2]; split; try exact H1; intros g Hg.
  - specialize (H2 g Hg). destruct g; [discriminate|discriminate].
  - specialize (H2 g Hg). destruct g; [contradiction H2; reflexivity|reflexivity].
Qed.

(* monotone_b: values increasing and output ranks non-decreasing along the probe list *)
Definition mono_pair (a b : Z * Z) : Prop := fst a <= fst b /\ snd a <= snd b.

Theorem monotone_b_spec : forall ps, monotone_b ps = true <-> Sorted mono_pair ps.
Proof.
  induction ps as [|[x r] t IH]; cbn [monotone_b]; [split; [constructor|reflexivity]|].
  destruct t as [|[x' r'] t'].
  - split; [intros _; constructor; constructor|reflexivity].
  - rewrite !andb_true_iff, !Z.leb_le, IH. split.
    + intros [[H1 H2] H3]. constructor; [exact H3|constructor; split; assumption].
    + intros H. inversion H as [|? ? Hs Hh]; subst. inversion Hh as [|? ? Hm]; subst.
      destruct Hm as [H1 H2]. cbn in H1, H2. repeat split; assumption.
Qed.
